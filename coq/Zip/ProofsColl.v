(* collisionChecker (Zip/Check.v cc_check): on paths accepted by CheckFilePath it is a loop
   over the path and its ancestors and never runs out of fuel; it succeeds exactly when the
   new paths are compatible with everything registered before (equal under case folding only
   if the same directory).  Exported: chain, chain_items, cc_chain, cc_check_chain,
   cc_check_valid_path, cc_check_no_fuel, item, compat, coll_free, FOP_snoc, FOP_app, repr,
   repr_nil, cc_chain_ok, cc_chain_complete. *)
From Verif.Base Require Import Bytes PathClean.
From Verif.Module Require Import Path PathProofs.
From Verif.Zip Require Import Check ProofsPath.


(* the paths collisionChecker.check visits for the path with reversed elements rels:
   the path itself, then its ancestors, nearest first *)
Fixpoint chain (rels : list str) : list str :=
  match rels with
  | [] => []
  | _ :: r => join_slash (rev rels) :: chain r
  end.

Definition chain_items (rels : list str) (d : bool) : list (str * bool) :=
  match rels with
  | [] => []
  | _ :: r => (join_slash (rev rels), d) :: map (fun q => (q, true)) (chain r)
  end.

(* collisionChecker.check as a loop over those paths *)
Fixpoint cc_chain (cc : coll) (items : list (str * bool)) : coll * cc_result :=
  match items with
  | [] => (cc, CCOk)
  | (p, d) :: rest =>
      match cc_lookup (str_to_fold p) cc with
      | Some (op, od) =>
          if negb (str_eqb p op) then (cc, CCErr FE_CollCase)
          else if negb (Bool.eqb d od) then (cc, CCErr FE_CollFileDir)
          else if negb d then (cc, CCErr FE_CollMultiple)
          else cc_chain cc rest
      | None => cc_chain ((str_to_fold p, (p, d)) :: cc) rest
      end
  end.

Lemma join_good_not_dot els : Forall good_elem els -> join_slash els <> dot.
Proof.
  intros H E. destruct els as [|e els]; [discriminate|].
  inversion H as [|? ? (He & Hs & Hd & _) Hr]; subst.
  destruct els as [|e2 els]; [cbn in E; contradiction|].
  change (join_slash (e :: e2 :: els)) with (e ++ 47 :: join_slash (e2 :: els)) in E.
  destruct e as [|c e]; [contradiction|].
  cbn in E. injection E as -> E. destruct e; discriminate.
Qed.

Lemma chain_items_cons_true r :
  r <> [] -> chain_items r true = map (fun q => (q, true)) (chain r).
Proof. destruct r; [contradiction|reflexivity]. Qed.

Lemma Forall_rev_good l : Forall good_elem l -> Forall good_elem (rev l).
Proof. intros H. apply Forall_forall. intros x Hx. apply in_rev in Hx. revert x Hx. now apply Forall_forall. Qed.

Theorem cc_check_chain : forall rels fuel cc d,
  Forall good_elem rels -> rels <> [] -> (length rels <= fuel)%nat ->
  cc_check fuel cc (join_slash (rev rels)) d = cc_chain cc (chain_items rels d).
Proof.
  induction rels as [|e r IH]; intros fuel cc d Hg Hne Hf; [contradiction|].
  destruct fuel as [|fuel]; [cbn in Hf; lia|].
  inversion Hg as [|? ? He Hr]; subst.
  assert (Hpar : path_dir (join_slash (rev (e :: r))) =
                 match rev r with [] => dot | _ => join_slash (rev r) end).
  { cbn [rev]. apply path_dir_join_snoc; [apply Forall_rev_good; exact Hr|exact He]. }
  assert (Hstep : forall cc', (let parent := path_dir (join_slash (rev (e :: r))) in
                   if str_eqb parent dot then (cc', CCOk) else cc_check fuel cc' parent true)
                  = cc_chain cc' (map (fun q => (q, true)) (chain r))).
  { intros cc'. cbn zeta. rewrite Hpar. destruct r as [|e2 r'].
    - cbn. reflexivity.
    - assert (Hm : match rev (e2 :: r') with [] => dot | _ :: _ => join_slash (rev (e2 :: r')) end
                   = join_slash (rev (e2 :: r'))).
      { destruct (rev (e2 :: r')) eqn:E; [|reflexivity].
        exfalso. cbn in E. destruct (rev r'); discriminate. }
      rewrite Hm.
      destruct (str_eqb_spec (join_slash (rev (e2 :: r'))) dot) as [Hd|_].
      + exfalso. eapply join_good_not_dot; [|exact Hd]. apply Forall_rev_good. exact Hr.
      + rewrite IH; [|exact Hr|discriminate|cbn in *; lia].
        rewrite chain_items_cons_true by discriminate. reflexivity. }
  cbn [cc_check chain_items cc_chain].
  destruct (cc_lookup (str_to_fold (join_slash (rev (e :: r)))) cc) as [[op od]|].
  - destruct (negb (str_eqb (join_slash (rev (e :: r))) op)); [reflexivity|].
    destruct (negb (Bool.eqb d od)); [reflexivity|].
    destruct (negb d); [reflexivity|]. apply Hstep.
  - apply Hstep.
Qed.

Lemma cc_chain_no_fuel items : forall cc, snd (cc_chain cc items) <> CCFuel.
Proof.
  induction items as [|[p d] rest IH]; intros cc; cbn; [discriminate|].
  destruct (cc_lookup _ cc) as [[op od]|]; [|apply IH].
  destruct (negb _); [cbn; discriminate|].
  destruct (negb _); [cbn; discriminate|].
  destruct (negb d); [cbn; discriminate|apply IH].
Qed.

Lemma length_join_ge els : (length els <= S (length (join_slash els)))%nat.
Proof.
  induction els as [|e els IH]; [cbn; lia|].
  destruct els as [|e2 els]; [cbn; lia|].
  change (join_slash (e :: e2 :: els)) with (e ++ 47 :: join_slash (e2 :: els)).
  rewrite app_length. cbn [length] in *. lia.
Qed.

(* on every path accepted by CheckFilePath, check is the loop over the chain and does not run
   out of fuel *)
Theorem cc_check_valid_path cc p d :
  check_file_path p = None ->
  exists rels, rels <> [] /\ Forall good_elem rels /\ p = join_slash (rev rels) /\
               cc_check (S (length p)) cc p d = cc_chain cc (chain_items rels d).
Proof.
  intros H. destruct (check_file_path_elems p H) as (els & Hne & -> & Hg & _).
  assert (Hrn : rev els <> []).
  { intros E. apply Hne. rewrite <- (rev_involutive els), E. reflexivity. }
  assert (Hrg : Forall good_elem (rev els)) by (apply Forall_rev_good; exact Hg).
  exists (rev els). split; [exact Hrn|]. split; [exact Hrg|].
  split; [now rewrite rev_involutive|].
  pose proof (cc_check_chain (rev els) (S (length (join_slash els))) cc d Hrg Hrn) as K.
  rewrite rev_involutive in K. apply K.
  rewrite rev_length. apply length_join_ge.
Qed.

Theorem cc_check_no_fuel cc p d :
  check_file_path p = None -> snd (cc_check (S (length p)) cc p d) <> CCFuel.
Proof.
  intros H. destruct (cc_check_valid_path cc p d H) as (rels & _ & _ & _ & ->).
  apply cc_chain_no_fuel.
Qed.

Definition item := (str * bool)%type.

(* two registered paths are compatible: if they are equal under case folding they are the
   same path and both are directories *)
Definition compat (a b : item) : Prop :=
  str_to_fold (fst a) = str_to_fold (fst b) -> fst a = fst b /\ snd a = true /\ snd b = true.

Definition coll_free (l : list item) : Prop := ForallOrdPairs compat l.

Lemma compat_sym a b : compat a b -> compat b a.
Proof. unfold compat. intros H E. symmetry in E. destruct (H E) as (H1 & H2 & H3). auto. Qed.

Lemma FOP_snoc (A : Type) (R : A -> A -> Prop) l x :
  ForallOrdPairs R (l ++ [x]) <-> ForallOrdPairs R l /\ Forall (fun y => R y x) l.
Proof.
  induction l as [|a l IH]; cbn.
  - split; [intros _; split; constructor|intros _; constructor; constructor].
  - split.
    + intros H. inversion H as [|? ? Ha Hl]; subst. apply IH in Hl. destruct Hl as [Hl Hx].
      apply Forall_app in Ha. destruct Ha as [Ha Hax]. inversion Hax; subst.
      split; constructor; auto.
    + intros [H Hx]. inversion H as [|? ? Ha Hl]; subst. inversion Hx as [|? ? Hax Hlx]; subst.
      constructor; [apply Forall_app; split; [exact Ha|constructor; [exact Hax|constructor]]|].
      apply IH. split; assumption.
Qed.

Lemma FOP_app (A : Type) (R : A -> A -> Prop) l1 l2 :
  ForallOrdPairs R (l1 ++ l2) <->
  ForallOrdPairs R l1 /\ ForallOrdPairs R l2 /\ Forall (fun x => Forall (R x) l2) l1.
Proof.
  induction l1 as [|a l1 IH]; cbn.
  - split; [intros H; repeat split; [constructor|exact H|constructor]|intros (_ & H & _); exact H].
  - split.
    + intros H. inversion H as [|? ? Ha Hl]; subst. apply IH in Hl. destruct Hl as (H1 & H2 & H3).
      apply Forall_app in Ha. destruct Ha as [Ha1 Ha2].
      repeat split; [constructor; assumption|assumption|constructor; assumption].
    + intros (H1 & H2 & H3). inversion H1; subst. inversion H3; subst.
      constructor; [apply Forall_app; split; assumption|]. apply IH. repeat split; assumption.
Qed.

Lemma app_cons_assoc (A : Type) (l : list A) x r : l ++ x :: r = (l ++ [x]) ++ r.
Proof. rewrite <- app_assoc. reflexivity. Qed.

(* the map represents the list of registered paths *)
Definition repr (cc : coll) (items : list item) : Prop :=
  (forall x, In x items -> cc_lookup (str_to_fold (fst x)) cc = Some x) /\
  (forall k v, cc_lookup k cc = Some v -> In v items /\ k = str_to_fold (fst v)).

Lemma repr_nil : repr [] [].
Proof. split; [intros x []|intros k v H; discriminate]. Qed.

Lemma cc_lookup_cons k k' v cc :
  cc_lookup k ((k', v) :: cc) = if str_eqb k k' then Some v else cc_lookup k cc.
Proof. reflexivity. Qed.

Lemma repr_insert cc items p d :
  repr cc items -> cc_lookup (str_to_fold p) cc = None ->
  repr ((str_to_fold p, (p, d)) :: cc) (items ++ [(p, d)]).
Proof.
  intros [R1 R2] Hn. split.
  - intros x Hx. rewrite cc_lookup_cons. apply in_app_or in Hx. destruct Hx as [Hx|[<-|[]]].
    + destruct (str_eqb_spec (str_to_fold (fst x)) (str_to_fold p)) as [E|_].
      * pose proof (R1 x Hx) as K. rewrite E in K. congruence.
      * apply R1. exact Hx.
    + cbn. now rewrite str_eqb_refl.
  - intros k v H. rewrite cc_lookup_cons in H.
    destruct (str_eqb_spec k (str_to_fold p)) as [->|_].
    + injection H as <-. split; [apply in_or_app; right; now left|reflexivity].
    + destruct (R2 k v H) as [Hin Hk]. split; [apply in_or_app; now left|exact Hk].
Qed.

Lemma repr_again cc items x :
  repr cc items -> In x items -> repr cc (items ++ [x]).
Proof.
  intros [R1 R2] Hx. split.
  - intros y Hy. apply in_app_or in Hy. destruct Hy as [Hy|[<-|[]]]; apply R1; assumption.
  - intros k v H. destruct (R2 k v H) as [Hin Hk]. split; [apply in_or_app; now left|exact Hk].
Qed.

Lemma eqb_true_eq a b : Bool.eqb a b = true -> a = b.
Proof. destruct a, b; cbn; congruence. Qed.

(* success of the loop: the new paths are compatible with everything registered *)
Theorem cc_chain_ok : forall new cc items cc',
  repr cc items -> coll_free items ->
  cc_chain cc new = (cc', CCOk) ->
  repr cc' (items ++ new) /\ coll_free (items ++ new).
Proof.
  induction new as [|[p d] rest IH]; intros cc items cc' R F H.
  - cbn in H. injection H as <-. rewrite app_nil_r. split; assumption.
  - cbn [cc_chain] in H.
    rewrite app_cons_assoc.
    destruct (cc_lookup (str_to_fold p) cc) as [[op od]|] eqn:L.
    + destruct (str_eqb_spec p op) as [->|]; cbn [negb] in H; [|discriminate].
      destruct (Bool.eqb d od) eqn:Ed; cbn [negb] in H; [|discriminate].
      apply eqb_true_eq in Ed. subst od.
      destruct d; cbn [negb] in H; [|discriminate].
      destruct R as [R1 R2]. destruct (R2 _ _ L) as [Hin _].
      apply (IH cc (items ++ [(op, true)]) cc'); [apply repr_again; [split; assumption|exact Hin]| |exact H].
      apply FOP_snoc. split; [exact F|].
      apply Forall_forall. intros y Hy E. cbn [fst snd] in *.
      pose proof (R1 y Hy) as Ly. rewrite E, L in Ly. injection Ly as <-. auto.
    + apply (IH ((str_to_fold p, (p, d)) :: cc) (items ++ [(p, d)]) cc'); [apply repr_insert; assumption| |exact H].
      apply FOP_snoc. split; [exact F|].
      apply Forall_forall. intros y Hy E. cbn [fst] in E.
      destruct R as [R1 _]. pose proof (R1 y Hy) as Ly. rewrite E, L in Ly. discriminate.
Qed.

(* conversely, compatible paths are accepted *)
Theorem cc_chain_complete : forall new cc items,
  repr cc items -> coll_free (items ++ new) ->
  exists cc', cc_chain cc new = (cc', CCOk).
Proof.
  induction new as [|[p d] rest IH]; intros cc items R F.
  - exists cc. reflexivity.
  - cbn [cc_chain].
    rewrite app_cons_assoc in F.
    assert (F1 : coll_free (items ++ [(p, d)])).
    { unfold coll_free in F. rewrite (FOP_app _ compat (items ++ [(p, d)]) rest) in F. apply F. }
    apply FOP_snoc in F1. destruct F1 as [F0 Fx].
    destruct (cc_lookup (str_to_fold p) cc) as [[op od]|] eqn:L.
    + destruct R as [R1 R2]. destruct (R2 _ _ L) as [Hin Hk].
      rewrite Forall_forall in Fx. specialize (Fx _ Hin (eq_sym Hk)). cbn [fst snd] in Fx.
      destruct Fx as (-> & -> & ->). rewrite str_eqb_refl. cbn.
      apply (IH cc (items ++ [(p, true)])); [apply repr_again; [split; assumption|exact Hin]|exact F].
    + apply (IH ((str_to_fold p, (p, d)) :: cc) (items ++ [(p, d)])); [apply repr_insert; assumption|exact F].
Qed.
