(* checkFiles on lists with repeated paths (C17).  Exported: cnt, qinv, step_qinv,
   check_files_state_qinv, items_of_head, vitems_nodup, classification_repeated. *)
From Verif.Base Require Import Bytes PathClean.
From Verif.Gen Require Import GenConsts.
From Verif.Module Require Import Path PathProofs.
From Verif.Zip Require Import Check Create Fs Unzip ProofsPath ProofsColl ProofsClass ProofsZip ProofsUnzip ProofsCreate ProofsCreateZip ProofsUnzipTree.
From Coq Require Import Sorting.Permutation.


(* ---- lists with repeated paths ---- *)

Definition cnt (l : list str) (p : str) : nat := count_occ str_eq_dec l p.

Definition ok_with (p : str) (f : file) : bool := str_eqb (f_path f) p && f_lstat_ok f.
Definition err_with (p : str) (f : file) : bool := str_eqb (f_path f) p && negb (f_lstat_ok f).

Record qinv (all done : list file) (st : cstate) : Prop := {
  q_perm : Permutation (s_errpaths st) (errs st);
  q_nodup : NoDup (s_errpaths st);
  q_total : s_fuel st = false -> forall f, In f done -> In (f_path f) (vpaths st ++ s_errpaths st);
  q_v : forall p, (cnt (vpaths st) p <= length (filter (ok_with p) done))%nat;
  q_ve : forall p, (cnt (vpaths st) p + cnt (s_errpaths st) p
                    <= length (filter (ok_with p) done) + Nat.min 1 (length (filter (err_with p) all)))%nat }.

Lemma cnt_app a b p : cnt (a ++ b) p = (cnt a p + cnt b p)%nat.
Proof. apply count_occ_app. Qed.

Lemma cnt_single q p : cnt [q] p = if str_eqb q p then 1%nat else 0%nat.
Proof.
  unfold cnt. cbn. destruct (str_eq_dec q p) as [->|Hn].
  - now rewrite str_eqb_refl.
  - destruct (str_eqb_spec q p); [contradiction|reflexivity].
Qed.

Lemma cnt_notin l p : ~ In p l -> cnt l p = 0%nat.
Proof. apply count_occ_not_In. Qed.

Lemma filter_snoc {A} (g : A -> bool) l x : filter g (l ++ [x]) = filter g l ++ (if g x then [x] else []).
Proof. rewrite filter_app. cbn. destruct (g x); reflexivity. Qed.

Lemma step_qinv ge have all done st f :
  qinv all done st -> In f all -> qinv all (done ++ [f]) (step ge have st f).
Proof.
  intros [P N T V VE] Hin.
  assert (Herr1 : forall p, err_with p f = true -> (1 <= length (filter (err_with p) all))%nat).
  { intros p Hp. assert (In f (filter (err_with p) all)) by (apply filter_In; auto).
    destruct (filter (err_with p) all); [contradiction|cbn; lia]. }
  destruct (step_cases ge have st f) as [st0 om e (H1 & H2 & H3 & H4) Hf ->|st0 (H1 & H2 & H3 & H4) Hf Hl Hm ->|(H1 & H2 & H3 & H4) Hf].
  - (* an error is reported (or dropped as a repetition) *)
    destruct (add_error_spec st0 (f_path f) om e) as [[Hi ->]|(Hn & He & Hv & Hfu & _ & Hc)].
    + split; unfold errs, vpaths in *; rewrite ?H1, ?H2, ?H3, ?H4, ?Hf; auto.
      * intros Hfalse g Hg. apply in_app_or in Hg. destruct Hg as [Hg|[<-|[]]]; [apply T; auto|].
        apply in_or_app. right. rewrite <- H1. exact Hi.
      * intros p. specialize (V p). rewrite filter_snoc, app_length. lia.
      * intros p. specialize (VE p). rewrite filter_snoc, app_length. lia.
    + assert (P0 : Permutation (s_errpaths st0) (errs st0)) by (unfold errs; rewrite H1, H2, H3; exact P).
      split.
      * apply errs_add_perm; assumption.
      * rewrite He. rewrite H1 in *. apply NoDup_rev in N. rewrite <- (rev_involutive (s_errpaths st ++ [f_path f])).
        apply NoDup_rev. rewrite rev_app_distr. cbn. constructor; [rewrite <- in_rev; exact Hn|exact N].
      * rewrite Hfu, Hf. unfold vpaths. rewrite Hv, He, H1, H4. intros Hfalse g Hg.
        apply in_app_or in Hg. destruct Hg as [Hg|[<-|[]]].
        -- specialize (T Hfalse g Hg). unfold vpaths in T. apply in_app_or in T. apply in_or_app.
           destruct T; [now left|right; apply in_or_app; now left].
        -- apply in_or_app. right. apply in_or_app. right. now left.
      * intros p. unfold vpaths. rewrite Hv, H4. specialize (V p). unfold vpaths in V.
        rewrite filter_snoc, app_length. lia.
      * intros p. unfold vpaths. rewrite Hv, H4, He, H1, cnt_app, cnt_single.
        specialize (VE p). specialize (V p). unfold vpaths in VE, V. rewrite filter_snoc, app_length.
        destruct (str_eqb_spec (f_path f) p) as [Ep|Hne]; [|lia].
        unfold ok_with at 2. rewrite Ep, str_eqb_refl. cbn [andb].
        destruct (f_lstat_ok f) eqn:Hl; cbn [length]; [lia|].
        assert (He1 : err_with p f = true) by (unfold err_with; rewrite Ep, str_eqb_refl, Hl; reflexivity).
        specialize (Herr1 p He1).
        assert (Hc0 : cnt (s_errpaths st) p = 0%nat) by (apply cnt_notin; rewrite <- Ep, <- H1; exact Hn).
        lia.
  - (* the file is valid *)
    split; unfold add_valid, errs, vpaths in *; cbn [s_errpaths s_omitted s_invalid s_valid s_fuel];
      rewrite ?H1, ?H2, ?H3, ?H4, ?Hf; auto.
    + intros Hfalse g Hg. rewrite map_app. apply in_app_or in Hg. destruct Hg as [Hg|[<-|[]]].
      * specialize (T Hfalse g Hg). apply in_app_or in T. apply in_or_app.
        destruct T; [left; apply in_or_app; now left|now right].
      * apply in_or_app. left. apply in_or_app. right. now left.
    + intros p. rewrite map_app, cnt_app. cbn [map]. rewrite cnt_single, filter_snoc, app_length.
      specialize (V p). unfold ok_with at 2. rewrite Hl.
      destruct (str_eqb (f_path f) p); cbn [andb length]; lia.
    + intros p. rewrite map_app, cnt_app. cbn [map]. rewrite cnt_single, filter_snoc, app_length.
      specialize (VE p). unfold ok_with at 2. rewrite Hl.
      destruct (str_eqb (f_path f) p); cbn [andb length]; lia.
  - split; unfold errs, vpaths in *; rewrite ?H1, ?H2, ?H3, ?H4; auto.
    + congruence.
    + intros p. specialize (V p). rewrite filter_snoc, app_length. lia.
    + intros p. specialize (VE p). rewrite filter_snoc, app_length. lia.
Qed.

Lemma pass2_qinv ge have all : forall rest done st,
  (forall f, In f rest -> In f all) -> qinv all done st ->
  qinv all (done ++ rest) (pass2 ge have rest st).
Proof.
  induction rest as [|f rest IH]; intros done st Hsub Q.
  - now rewrite app_nil_r.
  - cbn [pass2 fold_left]. rewrite app_cons_assoc. apply IH; [intros g Hg; apply Hsub; now right|].
    apply step_qinv; [exact Q|apply Hsub; now left].
Qed.

Lemma pass1_qinv all : forall l st,
  (forall f, In f l -> In f all) ->
  qinv all [] st -> s_valid st = [] ->
  qinv all [] (pass1_errs l st) /\ s_valid (pass1_errs l st) = [].
Proof.
  induction l as [|f l IH]; intros st Hsub Q Hv; [split; assumption|].
  unfold pass1_errs in *. cbn [fold_left].
  destruct (gomod_named (f_path f) && negb (f_lstat_ok f)) eqn:E.
  2:{ apply IH; auto. intros g Hg. apply Hsub. now right. }
  apply IH; [intros g Hg; apply Hsub; now right| |].
  2:{ destruct (add_error_spec st (f_path f) false FE_Lstat) as [[_ ->]|(_ & _ & -> & _)]; exact Hv. }
  apply andb_true_iff in E. destruct E as [_ El]. apply negb_true_iff in El.
  destruct Q as [P N T V VE].
  destruct (add_error_spec st (f_path f) false FE_Lstat) as [[_ ->]|(Hn & He & Hv' & Hfu & _ & Hc)]; [split; assumption|].
  split.
  - apply errs_add_perm; assumption.
  - rewrite He. apply NoDup_rev in N. rewrite <- (rev_involutive (s_errpaths st ++ [f_path f])).
    apply NoDup_rev. rewrite rev_app_distr. cbn. constructor; [rewrite <- in_rev; exact Hn|exact N].
  - intros _ g [].
  - intros p. unfold vpaths. rewrite Hv', Hv. cbn. lia.
  - intros p. unfold vpaths. rewrite Hv', Hv, He, cnt_app, cnt_single. cbn [map filter length].
    specialize (VE p). unfold vpaths in VE. rewrite Hv in VE. cbn [map filter length] in VE.
    destruct (str_eqb_spec (f_path f) p) as [Ep|]; [|lia].
    assert (He1 : In f (filter (err_with p) all)).
    { apply filter_In. split; [apply Hsub; now left|]. unfold err_with. rewrite Ep, str_eqb_refl, El. reflexivity. }
    assert (Hc0 : cnt (s_errpaths st) p = 0%nat) by (apply cnt_notin; rewrite <- Ep; exact Hn).
    destruct (filter (err_with p) all); [contradiction|]. cbn [length cnt] in *. unfold cnt in *. cbn. lia.
Qed.

Lemma qinv0 all : qinv all [] cstate0.
Proof. split; cbn; auto; try constructor; try (intros _ ? []); intros p; unfold cnt; cbn; lia. Qed.

Lemma check_files_state_qinv ge files : qinv files files (check_files_state ge files).
Proof.
  unfold check_files_state.
  destruct (pass1_qinv files files cstate0 (fun f H => H) (qinv0 files) eq_refl) as [Q _].
  apply (pass2_qinv ge (have_gomod files) files files [] _ (fun f H => H) Q).
Qed.

Lemma items_of_head p d : check_file_path p = None -> In (p, d) (items_of p d).
Proof.
  intros H. unfold items_of.
  pose proof (chain_items_mem (split_on 47 p) (split_on 47 p) [] d (eq_sym (app_nil_r _)) (split_on_nonnil 47 p)) as K.
  rewrite join_split in K. exact K.
Qed.

Lemma vitems_nodup vs :
  coll_free (vitems vs) -> Forall (fun f => check_file_path (f_path f) = None) vs -> NoDup (map f_path vs).
Proof.
  induction vs as [|f vs IH]; intros F Hc; [constructor|].
  inversion Hc as [|? ? Hf Hr]; subst. unfold vitems in F. cbn [flat_map] in F. apply FOP_app in F.
  destruct F as (_ & F2 & F3). cbn [map]. constructor; [|apply IH; assumption].
  intros Hin. apply in_map_iff in Hin. destruct Hin as (g & Ep & Hg).
  rewrite Forall_forall in F3. specialize (F3 _ (items_of_head (f_path f) false Hf)).
  rewrite Forall_forall in F3.
  assert (Hgi : In (f_path g, false) (vitems vs)).
  { unfold vitems. apply in_flat_map. exists g. split; [exact Hg|]. apply items_of_head.
    rewrite Forall_forall in Hr. apply Hr. exact Hg. }
  specialize (F3 _ Hgi). rewrite Ep in F3. destruct (F3 eq_refl) as (_ & Hx & _). discriminate.
Qed.

Lemma count_filter_le (p : str) (files : list file) :
  (length (filter (ok_with p) files) + length (filter (err_with p) files) <= count_occ str_eq_dec (map f_path files) p)%nat.
Proof.
  induction files as [|f l IH]; cbn [filter map count_occ length]; [lia|].
  unfold ok_with at 1, err_with at 1.
  destruct (str_eq_dec (f_path f) p) as [->|Hn].
  - rewrite str_eqb_refl. cbn [andb]. destruct (f_lstat_ok f); cbn [negb length]; lia.
  - destruct (str_eqb_spec (f_path f) p); [contradiction|]. cbn [andb]. lia.
Qed.

(* Lists with repeated paths: every input path is reported; a path is never both omitted and
   invalid, and is listed at most once in each of Valid, Omitted, Invalid; a path that is valid
   and also reported as omitted or invalid occurs at least twice in the input. *)
Theorem classification_repeated ge files :
  let cf := check_files_with ge files in
  (forall p, In p (map f_path files) -> In p (listed cf)) /\
  NoDup (map fst (c_omitted cf) ++ map fst (c_invalid cf)) /\
  NoDup (c_valid cf) /\
  (forall p, In p (c_valid cf) -> In p (map fst (c_omitted cf) ++ map fst (c_invalid cf)) ->
             (2 <= count_occ str_eq_dec (map f_path files) p)%nat).
Proof.
  cbn zeta. pose proof (check_files_state_qinv ge files) as [P N T V VE].
  pose proof (check_files_state_vinv files ge) as [(items & R & F & Sub) Vv _].
  pose proof (check_files_no_fuel ge files) as Hfu.
  unfold check_files_with, checked_of, listed in *. cbn [c_valid c_omitted c_invalid c_fuel] in *.
  set (st := check_files_state ge files) in *.
  split; [|split; [|split]].
  - intros p Hp. apply in_map_iff in Hp. destruct Hp as (f & <- & Hf).
    specialize (T Hfu f Hf). apply in_app_or in T. apply in_or_app. destruct T as [T|T]; [now left|right].
    eapply Permutation_in; [exact P|exact T].
  - eapply Permutation_NoDup; [exact P|exact N].
  - apply vitems_nodup; [eapply FOP_sublist; eauto|].
    eapply Forall_impl; [|exact Vv]. intros f (_ & _ & _ & Hpre & _). apply (pre_class_none _ _ _ Hpre).
  - intros p Hv He.
    assert (He' : In p (s_errpaths st)) by (eapply Permutation_in; [apply Permutation_sym; exact P|exact He]).
    apply (count_occ_In str_eq_dec) in Hv, He'. specialize (VE p). unfold vpaths, cnt in VE.
    pose proof (count_filter_le p files). lia.
Qed.
