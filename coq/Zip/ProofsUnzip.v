(* zip.Unzip (Zip/Unzip.v): nothing is written before validation; every write is confined
   to the target directory.  Exported: unzip_validates_before_writing, under, clean_abs_dir,
   fs_lookup_set, fs_lookup_apply_events, apply_events_app, mkdir_all_under,
   mkdir_all_creates, extract_confined, unzip_confined. *)
From Verif.Base Require Import Bytes PathClean.
From Verif.Gen Require Import GenConsts.
From Verif.Module Require Import Path PathProofs.
From Verif.Zip Require Import Check Fs Unzip ProofsPath ProofsColl ProofsZip.


(* ---- no write before validation ---- *)

Theorem unzip_validates_before_writing s dir mp mv zs es cf e :
  check_zip mp mv zs es = (cf, Some e) ->
  exists k, unzip s dir mp mv zs es = (UzErr k, []).
Proof.
  intros H. unfold unzip. destruct (fs_has_children s dir); [eexists; reflexivity|].
  rewrite H. eexists; reflexivity.
Qed.

(* ---- confinement ---- *)

(* p lies strictly below dir: p = dir/rest with rest non-empty *)
Definition under (dir p : str) : Prop := exists rest, rest <> [] /\ p = dir ++ 47 :: rest.

Definition clean_abs_dir (dir : str) : Prop :=
  exists ds, ds <> [] /\ Forall good_elem ds /\ dir = abs_path ds.

Lemma under_neq dir p : under dir p -> p <> dir.
Proof.
  intros (rest & _ & ->) E. apply (f_equal (@length Z)) in E. rewrite app_length in E. cbn in E. lia.
Qed.

Lemma fs_lookup_set s q n p :
  fs_lookup (fs_set s q n) p = if str_eqb p q then Some n else fs_lookup s p.
Proof.
  induction s as [|[q' m] s IH]; cbn.
  - destruct (str_eqb_spec p q); reflexivity.
  - destruct (str_eqb_spec q q') as [->|Hq]; cbn.
    + destruct (str_eqb_spec p q'); reflexivity.
    + destruct (str_eqb_spec p q') as [->|Hp].
      * destruct (str_eqb_spec q' q); [congruence|reflexivity].
      * exact IH.
Qed.

Lemma fs_lookup_apply_event s ev p :
  ev_path ev <> p -> fs_lookup (apply_event s ev) p = fs_lookup s p.
Proof.
  intros H. destruct ev; cbn in *; rewrite fs_lookup_set;
    (destruct (str_eqb_spec p p0); [congruence|reflexivity]).
Qed.

Lemma fs_lookup_apply_events evs : forall s p,
  Forall (fun ev => ev_path ev <> p) evs -> fs_lookup (apply_events s evs) p = fs_lookup s p.
Proof.
  induction evs as [|ev evs IH]; intros s p H; [reflexivity|].
  inversion H; subst. unfold apply_events in *. cbn [fold_left]. rewrite IH by assumption.
  apply fs_lookup_apply_event. assumption.
Qed.

Lemma apply_events_app s a b : apply_events s (a ++ b) = apply_events (apply_events s a) b.
Proof. unfold apply_events. apply fold_left_app. Qed.

Lemma abs_path_app ds qs : ds <> [] -> qs <> [] -> abs_path (ds ++ qs) = abs_path ds ++ 47 :: join_slash qs.
Proof. intros Hd Hq. unfold abs_path. rewrite join_slash_app by assumption. reflexivity. Qed.

Lemma under_abs ds qs : ds <> [] -> qs <> [] -> Forall good_elem qs -> under (abs_path ds) (abs_path (ds ++ qs)).
Proof.
  intros Hd Hq Hg. exists (join_slash qs). split; [apply join_slash_nil_iff; assumption|].
  apply abs_path_app; assumption.
Qed.

(* MkdirAll below an existing directory creates directories below it only *)
Lemma mkdir_all_under ds s : ds <> [] -> Forall good_elem ds ->
  fs_lookup s (abs_path ds) = Some FDir ->
  forall fuel qs evs, Forall good_elem qs ->
  mkdir_all fuel s (abs_path (ds ++ qs)) = MkOk evs ->
  Forall (fun ev => under (abs_path ds) (ev_path ev)) evs.
Proof.
  intros Hd Hgd Hdir. induction fuel as [|fuel IH]; intros qs evs Hg H.
  - cbn in H. destruct (fs_lookup s (abs_path (ds ++ qs))) as [[c|]|]; try discriminate.
    + injection H as <-. constructor.
    + destruct (str_eqb _ _); [injection H as <-; constructor|discriminate].
  - cbn [mkdir_all] in H.
    destruct (fs_lookup s (abs_path (ds ++ qs))) as [[c|]|] eqn:L; try discriminate.
    + injection H as <-. constructor.
    + destruct (str_eqb _ _); [injection H as <-; constructor|].
      destruct (@exists_last _ qs) as (qs' & e & ->).
      { intros ->. rewrite app_nil_r in L. congruence. }
      apply Forall_app in Hg. destruct Hg as [Hg' He]. inversion He as [|? ? Hge _]; subst.
      rewrite app_assoc in H. rewrite path_dir_abs_snoc in H; [|apply Forall_app; split; assumption|exact Hge].
      destruct (mkdir_all fuel s (abs_path (ds ++ qs'))) as [evs'| |] eqn:M; try discriminate.
      injection H as <-. apply Forall_app. split; [apply (IH qs'); assumption|].
      constructor; [|constructor]. cbn [ev_path]. rewrite <- app_assoc.
      apply under_abs; [exact Hd|destruct qs'; discriminate|apply Forall_app; split; [exact Hg'|constructor; [exact Hge|constructor]]].
Qed.

Lemma abs_path_not_root ds : ds <> [] -> Forall good_elem ds -> str_eqb (abs_path ds) [47] = false.
Proof.
  intros Hd Hg. destruct (str_eqb_spec (abs_path ds) [47]) as [E|]; [|reflexivity].
  unfold abs_path in E. injection E as E. exfalso. eapply join_slash_nil_iff; eauto.
Qed.

(* after a successful MkdirAll the directory exists *)
Lemma mkdir_all_creates fuel s p evs :
  str_eqb p [47] = false -> mkdir_all fuel s p = MkOk evs ->
  fs_lookup (apply_events s evs) p = Some FDir.
Proof.
  intros Hr H. destruct fuel; cbn [mkdir_all] in H; rewrite Hr in H;
    destruct (fs_lookup s p) as [[c|]|] eqn:L; try discriminate.
  - injection H as <-. exact L.
  - injection H as <-. exact L.
  - destruct (mkdir_all fuel s (path_dir p)); try discriminate. injection H as <-.
    rewrite apply_events_app. cbn. rewrite fs_lookup_set, str_eqb_refl. reflexivity.
Qed.

Lemma has_suffix_slash_false_entry_name n : entry_is_dir n = false -> entry_name n = n.
Proof. unfold entry_name. intros ->. reflexivity. Qed.

(* the extraction loop writes below dir only *)
Lemma extract_confined ds prefix : ds <> [] -> Forall good_elem ds ->
  forall es s acc r evs,
  Forall (entry_ok prefix) es ->
  fs_lookup s (abs_path ds) = Some FDir ->
  extract_entries (abs_path ds) prefix es s acc = (r, evs) ->
  exists evs1, evs = acc ++ evs1 /\ Forall (fun ev => under (abs_path ds) (ev_path ev)) evs1.
Proof.
  intros Hd Hgd. induction es as [|e es IH]; intros s acc r evs Hok Hdir H.
  - cbn in H. injection H as _ <-. exists []. rewrite app_nil_r. split; [reflexivity|constructor].
  - cbn [extract_entries] in H. inversion Hok as [|? ? He Hes]; subst.
    destruct (is_nil_s (skipn (length prefix) (e_name e)) || has_suffix (skipn (length prefix) (e_name e)) [47]) eqn:Hskip.
    { apply (IH s acc r evs Hes Hdir H). }
    apply orb_false_iff in Hskip. destruct Hskip as [Hn Hs].
    destruct He as [_ [He|He]]; [unfold entry_rest in He; rewrite He in Hn; discriminate|].
    unfold entry_rest in He. cbn zeta in He.
    set (name := skipn (length prefix) (e_name e)) in *.
    change (has_suffix name [47]) with (entry_is_dir name) in Hs.
    rewrite (has_suffix_slash_false_entry_name name Hs) in He. destruct He as (Hcf & _ & _).
    destruct (check_file_path_elems name Hcf) as (ps & Hpne & Hname & Hgp & _).
    assert (Hdst : filepath_join (abs_path ds) name = abs_path (ds ++ ps)).
    { rewrite Hname. apply filepath_join_abs; assumption. }
    rewrite Hdst in H.
    destruct (@exists_last _ ps Hpne) as (ps' & pe & ->).
    apply Forall_app in Hgp. destruct Hgp as [Hgp' Hgpe]. inversion Hgpe as [|? ? Hge _]; subst.
    assert (Hpar : filepath_dir (abs_path (ds ++ ps' ++ [pe])) = abs_path (ds ++ ps')).
    { unfold filepath_dir. rewrite app_assoc. apply path_dir_abs_snoc; [apply Forall_app; split; assumption|exact Hge]. }
    rewrite Hpar in H.
    destruct (mkdir_all _ s (abs_path (ds ++ ps'))) as [mevs| |] eqn:M.
    2:{ injection H as _ <-. exists []. rewrite app_nil_r. split; [reflexivity|constructor]. }
    2:{ injection H as _ <-. exists []. rewrite app_nil_r. split; [reflexivity|constructor]. }
    pose proof (mkdir_all_under ds s Hd Hgd Hdir _ ps' mevs Hgp' M) as Hm.
    assert (Hu : under (abs_path ds) (abs_path (ds ++ ps' ++ [pe]))).
    { apply under_abs; [exact Hd|destruct ps'; discriminate|apply Forall_app; split; [exact Hgp'|constructor; [exact Hge|constructor]]]. }
    destruct (negb (create_excl_ok _ _)).
    { injection H as _ <-. exists mevs. split; [reflexivity|exact Hm]. }
    destruct (negb (_ =? _)).
    { injection H as _ <-. eexists.
      split; [rewrite <- app_assoc; reflexivity|]. apply Forall_app. split; [exact Hm|constructor; [|constructor]].
      cbn [ev_path]. rewrite <- ?app_assoc. exact Hu. }
    apply IH in H; [|exact Hes|].
    + destruct H as (evs1 & -> & H1). eexists.
      split; [rewrite <- !app_assoc; reflexivity|].
      apply Forall_app. split; [exact Hm|]. apply Forall_app. split; [|exact H1].
      constructor; [|constructor; [|constructor]]; cbn [ev_path]; rewrite <- ?app_assoc; exact Hu.
    + rewrite fs_lookup_apply_events.
      * rewrite fs_lookup_apply_events; [exact Hdir|].
        eapply Forall_impl; [|exact Hm]. intros ev Hev. apply under_neq. exact Hev.
      * constructor; [|constructor; [|constructor]]; cbn [ev_path]; rewrite <- ?app_assoc; apply under_neq; exact Hu.
Qed.

(* every event of Unzip, success or failure, is either one of the directory creations of
   MkdirAll(dir) or concerns a path strictly below dir *)
Theorem unzip_confined s dir mp mv zs es r evs :
  clean_abs_dir dir ->
  unzip s dir mp mv zs es = (r, evs) ->
  exists evs0 evs1, evs = evs0 ++ evs1 /\
    (evs0 = [] \/ mkdir_all (length dir) s dir = MkOk evs0) /\
    Forall (fun ev => under dir (ev_path ev)) evs1.
Proof.
  intros (ds & Hd & Hgd & ->) H. unfold unzip in H.
  destruct (fs_has_children s (abs_path ds)).
  { injection H as _ <-. exists [], []. repeat split; auto. }
  destruct (check_zip mp mv zs es) as [cf [e|]] eqn:Hz.
  { injection H as _ <-. exists [], []. repeat split; auto. }
  destruct (c_fuel cf).
  { injection H as _ <-. exists [], []. repeat split; auto. }
  destruct (mkdir_all _ s (abs_path ds)) as [evs0| |] eqn:M.
  2:{ injection H as _ <-. exists [], []. repeat split; auto. }
  2:{ injection H as _ <-. exists [], []. repeat split; auto. }
  destruct (checkzip_accepts_spec _ _ _ _ _ Hz) as (_ & _ & Hok & _).
  apply extract_confined in H; auto.
  - destruct H as (evs1 & -> & H1). exists evs0, evs1. repeat split; auto.
  - apply mkdir_all_creates with (fuel := length (abs_path ds)); [apply abs_path_not_root; assumption|exact M].
Qed.
