(* The abstract file system of the zip model: a finite map from clean absolute paths to
   File content | Dir, and the three operations Unzip performs on it (os.ReadDir,
   os.MkdirAll, os.OpenFile with O_CREATE|O_EXCL followed by writes), each described by the
   list of [event]s it causes.  Symbolic links, permissions, case-insensitive or normalising
   file systems are outside the model (DESIGN.md "Partial").

   Exported: fnode (FFile | FDir), fs, fs_lookup, event (EvMkdir | EvCreate | EvWrite),
   ev_path, apply_event, apply_events, fs_has_children, mk_result (MkOk | MkErr | MkFuel),
   mkdir_all, create_excl_ok *)
From Verif.Base Require Import Bytes PathClean.

Inductive fnode := FFile (content : str) | FDir.

Definition fs := list (str * fnode).

Fixpoint fs_lookup (s : fs) (p : str) : option fnode :=
  match s with
  | [] => None
  | (q, n) :: r => if str_eqb p q then Some n else fs_lookup r p
  end.

(* what happens to the file system *)
Inductive event :=
  | EvMkdir (p : str)                 (* a directory is created *)
  | EvCreate (p : str)                (* an empty regular file is created (O_CREATE|O_EXCL) *)
  | EvWrite (p : str) (data : str).   (* the file receives its complete content *)

Definition ev_path (e : event) : str :=
  match e with EvMkdir p => p | EvCreate p => p | EvWrite p _ => p end.

Fixpoint fs_set (s : fs) (p : str) (n : fnode) : fs :=
  match s with
  | [] => [(p, n)]
  | (q, m) :: r => if str_eqb p q then (q, n) :: r else (q, m) :: fs_set r p n
  end.

Definition apply_event (s : fs) (e : event) : fs :=
  match e with
  | EvMkdir p => fs_set s p FDir
  | EvCreate p => fs_set s p (FFile [])
  | EvWrite p d => fs_set s p (FFile d)
  end.

Definition apply_events (s : fs) (evs : list event) : fs := fold_left apply_event evs s.

(* len(os.ReadDir(dir)) > 0 (an error of ReadDir gives no entries) *)
Definition fs_has_children (s : fs) (dir : str) : bool :=
  existsb (fun qn => str_eqb (path_dir (fst qn)) dir && negb (str_eqb (fst qn) dir)) s.

Inductive mk_result := MkOk (evs : list event) | MkErr | MkFuel.

(* os.MkdirAll(p) for a clean absolute p: nothing to do for an existing directory, an error
   for an existing file, otherwise the parent first and then Mkdir(p).  "/" always exists. *)
Fixpoint mkdir_all (fuel : nat) (s : fs) (p : str) : mk_result :=
  match fs_lookup s p with
  | Some FDir => MkOk []
  | Some (FFile _) => MkErr
  | None =>
      if str_eqb p [47] then MkOk []
      else
        match fuel with
        | O => MkFuel
        | S fuel' =>
            match mkdir_all fuel' s (path_dir p) with
            | MkOk evs => MkOk (evs ++ [EvMkdir p])
            | r => r
            end
        end
  end.

(* os.OpenFile(p, O_WRONLY|O_CREATE|O_EXCL) succeeds: p does not exist, its parent is a
   directory *)
Definition create_excl_ok (s : fs) (p : str) : bool :=
  match fs_lookup s p with
  | Some _ => false
  | None => match fs_lookup s (path_dir p) with
            | Some FDir => true
            | _ => str_eqb (path_dir p) [47]
            end
  end.
