(* Executable model of the checking half of golang.org/x/mod/zip (zip/zip.go):
   strToFold, collisionChecker.check, isVendoredPackage, checkFiles / CheckFiles,
   checkZip / CheckZip, listFilesInDir, CheckDir.  Definitions only; proofs are in
   Zip/Proofs*.v.

   Outside the model (DESIGN.md "Partial"): the byte format of archive/zip and the operating
   system.  An archive is a list of [entry] (name, declared uncompressed size, content), the
   files given to CheckFiles/Create are [file] records (what Path, Lstat and Open return), a
   directory is a [tnode] tree.  The go version of a go.mod file is not parsed here: every
   file record carries [f_ge124], the truth value of
       version.Compare(version.Lang(parseGoVers("go.mod", data)), "go1.24") >= 0
   computed by the harness with the same library calls as zip.go; the model decides WHICH
   file's value is used ([root_gover]) and what it changes ([is_vendored_package]).

   Exported (stable names):
     fold_rune, str_to_fold
     coll, cc_lookup, cc_result (CCOk | CCErr e | CCFuel), cc_check
     index_sub, is_vendored_package, in_submodule
     fmode (MRegular | MDir | MSymlink | MOther), file (mkFile), ferr (FE_xxx), checked (mkChecked)
     gomod_named, have_gomod, root_gover, pass1_errs, pre_class, step, pass2,
     check_files_with, check_files, checked_of, cf_err, zerr (ZE_xxx)
     entry (mkEntry), zip_prefix, check_module, zstep, check_zip
     tnode (TFile | TDir), sort_tree, walk, list_files_in_dir, tree_gover, check_dir,
     mem_path, file_eqb, files_eqb, nodup_strs, ferr_code, pre_class_eqb, dir_list_condition *)
From Verif.Base Require Import Bytes Utf8 PathClean.
From Verif.Gen Require Import GenConsts GenUnicode.
From Verif.Semver Require Model.
From Verif.Module Require Import Path.

(* ---- strToFold ------------------------------------------------------------------------ *)

(* The inner loop of strToFold iterates unicode.SimpleFold until it wraps, which leaves the
   least rune of the orbit ([fold_min], from the regenerated orbit table); then A-Z => a-z. *)
Definition fold_rune (r : Z) : Z :=
  let m := fold_min r in
  if is_upper m then m + 32 else m.

Definition str_to_fold (s : str) : str :=
  if forallb (fun c => (c <? 128) && negb (is_upper c)) s then s   (* fast path *)
  else flat_map (fun r => encode (fold_rune r)) (runes s).

(* ---- collisionChecker ------------------------------------------------------------------- *)

(* map[string]pathInfo keyed by the folded path; values (original path, isDir) *)
Definition coll := list (str * (str * bool)).

Fixpoint cc_lookup (k : str) (cc : coll) : option (str * bool) :=
  match cc with
  | [] => None
  | (k', v) :: r => if str_eqb k k' then Some v else cc_lookup k r
  end.

Inductive ferr :=
  (* invalid *)
  | FE_NotClean | FE_NotRelative | FE_BadPath | FE_GoModCase | FE_Lstat
  | FE_CollCase | FE_CollFileDir | FE_CollMultiple | FE_GoModSize | FE_LicenseSize
  | FE_NoPrefix | FE_GoModNotRoot
  (* omitted *)
  | FE_Vendored | FE_SubmoduleFile | FE_HgArchival | FE_Symlink | FE_NotRegular
  | FE_VCS | FE_SubmoduleDir.

Inductive cc_result := CCOk | CCErr (e : ferr) | CCFuel.

(* collisionChecker.check.  The recursion on path.Dir(p) is fuelled; fuel S (length p) is
   enough for every path the callers pass (clean, accepted by CheckFilePath): Proofs. *)
Fixpoint cc_check (fuel : nat) (cc : coll) (p : str) (isdir : bool) : coll * cc_result :=
  match fuel with
  | O => (cc, CCFuel)
  | S fuel' =>
      let fold := str_to_fold p in
      let continue_with (cc' : coll) :=
        let parent := path_dir p in
        if str_eqb parent dot then (cc', CCOk) else cc_check fuel' cc' parent true in
      match cc_lookup fold cc with
      | Some (op, od) =>
          if negb (str_eqb p op) then (cc, CCErr FE_CollCase)
          else if negb (Bool.eqb isdir od) then (cc, CCErr FE_CollFileDir)
          else if negb isdir then (cc, CCErr FE_CollMultiple)
          else continue_with cc
      | None => continue_with ((fold, (p, isdir)) :: cc)
      end
  end.

(* ---- isVendoredPackage ------------------------------------------------------------------ *)

(* strings.Index *)
Fixpoint index_sub (sub s : str) : option nat :=
  if has_prefix s sub then Some O
  else match s with
       | [] => None
       | _ :: r => option_map S (index_sub sub r)
       end.

Definition is_vendored_package (name : str) (ge124 : bool) : bool :=
  if ge124 && str_eqb name (B "vendor/modules.txt") then true
  else if has_prefix name (B "vendor/") then contains_byte 47 (skipn 7 name)
  else match index_sub (B "/vendor/") name with
       | Some j =>
           let i := if ge124 then (j + 8)%nat else 8%nat in
           contains_byte 47 (skipn i name)
       | None => false
       end.

(* ---- checkFiles ----------------------------------------------------------------------- *)

Inductive fmode := MRegular | MDir | MSymlink | MOther.

(* What the File interface returns: Path(); Lstat() error or (Mode, Size); Open() error or
   the bytes read to EOF; and the go-version regime its content would select (see above).
   MDir: Mode().IsDir() (IsDir() agrees with Mode().IsDir(), as os.FileInfo promises);
   MSymlink: Mode()&ModeType == ModeSymlink; MOther: any other non-regular mode. *)
Record file := mkFile {
  f_path : str; f_lstat_ok : bool; f_mode : fmode; f_size : Z;
  f_open_ok : bool; f_content : str; f_ge124 : bool }.

Record checked := mkChecked {
  c_valid : list str;
  c_omitted : list (str * ferr);
  c_invalid : list (str * ferr);
  c_sizeerr : bool;
  c_fuel : bool       (* the fuel of cc_check ran out; excluded by theorem *)
}.

Definition is_regular (m : fmode) : bool := match m with MRegular => true | _ => false end.
Definition is_dir_mode (m : fmode) : bool := match m with MDir => true | _ => false end.

Definition go_mod : str := B "go.mod".

(* strings.EqualFold(base, "go.mod") for base of path.Split(p) *)
Definition gomod_named (p : str) : bool := equal_fold (snd (path_split p)) go_mod.

(* first loop: haveGoMod *)
Definition have_gomod (files : list file) : list str :=
  map (fun f => fst (path_split (f_path f)))
      (filter (fun f => gomod_named (f_path f) && f_lstat_ok f && is_regular (f_mode f)) files).

(* first loop: vers (as the go1.24 comparison it is used for); the last readable regular
   file named exactly "go.mod" decides; "" compares below go1.24 *)
Definition root_gover (files : list file) : bool :=
  fold_left (fun g f =>
               if str_eqb (f_path f) go_mod && f_lstat_ok f && is_regular (f_mode f) && f_open_ok f
               then f_ge124 f else g) files false.

(* loop state of checkFiles *)
Record cstate := mkCState {
  s_errpaths : list str;
  s_omitted : list (str * ferr);
  s_invalid : list (str * ferr);
  s_valid : list file;
  s_sizeerr : bool;
  s_maxsize : Z;
  s_coll : coll;
  s_fuel : bool }.

Definition cstate0 : cstate := mkCState [] [] [] [] false zip_MaxZipFile [] false.

Definition add_error (st : cstate) (p : str) (omitted : bool) (e : ferr) : cstate :=
  if existsb (str_eqb p) (s_errpaths st) then st
  else if omitted then
    mkCState (s_errpaths st ++ [p]) (s_omitted st ++ [(p, e)]) (s_invalid st) (s_valid st)
             (s_sizeerr st) (s_maxsize st) (s_coll st) (s_fuel st)
  else
    mkCState (s_errpaths st ++ [p]) (s_omitted st) (s_invalid st ++ [(p, e)]) (s_valid st)
             (s_sizeerr st) (s_maxsize st) (s_coll st) (s_fuel st).

Definition set_coll (st : cstate) (cc : coll) : cstate :=
  mkCState (s_errpaths st) (s_omitted st) (s_invalid st) (s_valid st)
           (s_sizeerr st) (s_maxsize st) cc (s_fuel st).

Definition set_fuel (st : cstate) : cstate :=
  mkCState (s_errpaths st) (s_omitted st) (s_invalid st) (s_valid st)
           (s_sizeerr st) (s_maxsize st) (s_coll st) true.

(* "if size >= 0 && size <= maxSize { maxSize -= size } else if cf.SizeError == nil {...}" *)
Definition account_size (st : cstate) (size : Z) : cstate :=
  if (0 <=? size) && (size <=? s_maxsize st) then
    mkCState (s_errpaths st) (s_omitted st) (s_invalid st) (s_valid st)
             (s_sizeerr st) (s_maxsize st - size) (s_coll st) (s_fuel st)
  else
    mkCState (s_errpaths st) (s_omitted st) (s_invalid st) (s_valid st)
             true (s_maxsize st) (s_coll st) (s_fuel st).

Definition add_valid (st : cstate) (f : file) : cstate :=
  mkCState (s_errpaths st) (s_omitted st) (s_invalid st) (s_valid st ++ [f])
           (s_sizeerr st) (s_maxsize st) (s_coll st) (s_fuel st).

(* first loop: Lstat errors of files named like go.mod are reported at once *)
Definition pass1_errs (files : list file) (st : cstate) : cstate :=
  fold_left (fun st f =>
               if gomod_named (f_path f) && negb (f_lstat_ok f)
               then add_error st (f_path f) false FE_Lstat else st) files st.

(* inSubmodule: the loop tests haveGoMod[p[:i+1]] for every '/' at i, last one first *)
Definition in_submodule (have : list str) (p : str) : bool :=
  existsb (fun d => existsb (str_eqb d) have) (slash_prefixes p).

(* ASCII letters to lower case, everything else unchanged.  strings.ToLower(p) == "go.mod"
   holds exactly when this maps p to "go.mod": no rune outside ASCII lower-cases to one of
   g o . m d (checked over all runes by the harness, oracle "tolower-preimage"). *)
Definition ascii_lower (s : str) : str := map (fun c => if is_upper c then c + 32 else c) s.

(* the decisions of the second loop that depend on the path alone (and on the go version and
   the go.mod directories): Some (omitted?, error) or None = go on to Lstat *)
Definition pre_class (ge124 : bool) (have : list str) (p : str) : option (bool * ferr) :=
  if negb (str_eqb p (path_clean p)) then Some (false, FE_NotClean)
  else if path_is_abs p then Some (false, FE_NotRelative)
  else if is_vendored_package p ge124 then Some (true, FE_Vendored)
  else if in_submodule have p then Some (true, FE_SubmoduleFile)
  else if str_eqb p (B ".hg_archival.txt") then Some (true, FE_HgArchival)
  else if negb (ok_b (check_file_path p)) then Some (false, FE_BadPath)
  else if str_eqb (ascii_lower p) go_mod && negb (str_eqb p go_mod) then Some (false, FE_GoModCase)
  else None.

(* one iteration of the second loop *)
Definition step (ge124 : bool) (have : list str) (st : cstate) (f : file) : cstate :=
  let p := f_path f in
  match pre_class ge124 have p with
  | Some (om, e) => add_error st p om e
  | None =>
      if negb (f_lstat_ok f) then add_error st p false FE_Lstat
      else
        let (cc', r) := cc_check (S (length p)) (s_coll st) p (is_dir_mode (f_mode f)) in
        let st := set_coll st cc' in
        match r with
        | CCFuel => set_fuel st
        | CCErr e => add_error st p false e
        | CCOk =>
            match f_mode f with
            | MSymlink => add_error st p true FE_Symlink
            | MDir | MOther => add_error st p true FE_NotRegular
            | MRegular =>
                let size := f_size f in
                let st := account_size st size in
                if str_eqb p go_mod && (zip_MaxGoMod <? size) then add_error st p false FE_GoModSize
                else if str_eqb p (B "LICENSE") && (zip_MaxLICENSE <? size)
                     then add_error st p false FE_LicenseSize
                else add_valid st f
            end
        end
  end.

Definition pass2 (ge124 : bool) (have : list str) (files : list file) (st : cstate) : cstate :=
  fold_left (step ge124 have) files st.

Definition checked_of (st : cstate) : checked :=
  mkChecked (map f_path (s_valid st)) (s_omitted st) (s_invalid st) (s_sizeerr st) (s_fuel st).

(* checkFiles with the go-version regime given *)
Definition check_files_state (ge124 : bool) (files : list file) : cstate :=
  pass2 ge124 (have_gomod files) files (pass1_errs files cstate0).

Definition check_files_with (ge124 : bool) (files : list file) : checked :=
  checked_of (check_files_state ge124 files).

(* checkFiles / CheckFiles *)
Definition check_files (files : list file) : checked :=
  check_files_with (root_gover files) files.

(* validFiles (validSizes are their f_size) *)
Definition valid_files (files : list file) : list file :=
  s_valid (check_files_state (root_gover files) files).

(* CheckedFiles.Err and the errors of Create/CheckZip/Unzip, as a class *)
Inductive zerr := ZE_NonCanonical | ZE_BadModule | ZE_Size | ZE_Invalid.

Definition cf_err (cf : checked) : option zerr :=
  if c_sizeerr cf then Some ZE_Size
  else match c_invalid cf with [] => None | _ :: _ => Some ZE_Invalid end.

(* ---- checkZip ------------------------------------------------------------------------- *)

(* one zip.File: Name, UncompressedSize64 (0 <= . < 2^64), the bytes Open() yields, and what
   the mode bits of its header say (0 nothing/regular, 1 directory, 2 symlink, 3 other).
   checkZip and Unzip decide "directory" by the trailing slash of the name alone; e_hmode is
   an input that nothing reads. *)
Record entry := mkEntry { e_name : str; e_usize : Z; e_content : str; e_hmode : Z }.

(* fmt.Sprintf("%s@%s/", m.Path, m.Version) *)
Definition zip_prefix (mp mv : str) : str := mp ++ 64 :: mv ++ [47].

(* the two checks on m that Create, checkZip (and so Unzip) start with *)
Definition check_module (mp mv : str) : option zerr :=
  if negb (str_eqb (Model.canonical_version mv) mv) then Some ZE_NonCanonical
  else match check mp mv with Some _ => Some ZE_BadModule | None => None end.

(* int64(zf.UncompressedSize64) *)
Definition to_int64 (u : Z) : Z := if u <? 9223372036854775808 then u else u - 18446744073709551616.

Record zstate := mkZState {
  z_valid : list str; z_invalid : list (str * ferr); z_sizeerr : bool; z_size : Z;
  z_coll : coll; z_fuel : bool }.

Definition zstate0 : zstate := mkZState [] [] false 0 [] false.

Definition z_add_invalid (st : zstate) (cc : coll) (n : str) (e : ferr) : zstate :=
  mkZState (z_valid st) (z_invalid st ++ [(n, e)]) (z_sizeerr st) (z_size st) cc (z_fuel st).

(* name = zf.Name[len(prefix):] with a trailing '/' removed *)
Definition entry_is_dir (name0 : str) : bool := has_suffix name0 [47].
Definition entry_name (name0 : str) : str :=
  if entry_is_dir name0 then removelast name0 else name0.

Definition zstep (prefix : str) (st : zstate) (e : entry) : zstate :=
  let zname := e_name e in
  let cc := z_coll st in
  if negb (has_prefix zname prefix) then z_add_invalid st cc zname FE_NoPrefix
  else
    let name0 := skipn (length prefix) zname in
    if is_nil_s name0 then st
    else
      let isdir := entry_is_dir name0 in
      let name := entry_name name0 in
      if negb (str_eqb (path_clean name) name) then z_add_invalid st cc zname FE_NotClean
      else if negb (ok_b (check_file_path name)) then z_add_invalid st cc zname FE_BadPath
      else
        let (cc', r) := cc_check (S (length name)) cc name isdir in
        match r with
        | CCFuel => mkZState (z_valid st) (z_invalid st) (z_sizeerr st) (z_size st) cc' true
        | CCErr err => z_add_invalid st cc' zname err
        | CCOk =>
            if isdir then
              mkZState (z_valid st) (z_invalid st) (z_sizeerr st) (z_size st) cc' (z_fuel st)
            else
              let base := path_base name in
              if equal_fold base go_mod && negb (str_eqb base name)
              then z_add_invalid st cc' zname FE_GoModNotRoot
              else if equal_fold base go_mod && negb (str_eqb name go_mod)
              then z_add_invalid st cc' zname FE_GoModCase
              else
                let sz := to_int64 (e_usize e) in
                let fits := (0 <=? sz) && (sz <=? zip_MaxZipFile - z_size st) in
                let size' := if fits then z_size st + sz else z_size st in
                let serr' := if fits then z_sizeerr st else true in
                let st' := mkZState (z_valid st) (z_invalid st) serr' size' cc' (z_fuel st) in
                if str_eqb name go_mod && (zip_MaxGoMod <? sz)
                then z_add_invalid st' cc' zname FE_GoModSize
                else if str_eqb name (B "LICENSE") && (zip_MaxLICENSE <? sz)
                then z_add_invalid st' cc' zname FE_LicenseSize
                else mkZState (z_valid st ++ [zname]) (z_invalid st) serr' size' cc' (z_fuel st)
        end.

Definition checked_empty : checked := mkChecked [] [] [] false false.

Definition checked_of_z (st : zstate) : checked :=
  mkChecked (z_valid st) [] (z_invalid st) (z_sizeerr st) (z_fuel st).

(* checkZip / CheckZip: the report and the class of the returned error.  zipsize is the
   size in bytes of the archive file (its encoding is outside the model). *)
Definition check_zip (mp mv : str) (zipsize : Z) (entries : list entry) : checked * option zerr :=
  match check_module mp mv with
  | Some e => (checked_empty, Some e)
  | None =>
      if zip_MaxZipFile <? zipsize then (mkChecked [] [] [] true false, Some ZE_Size)
      else
        let cf := checked_of_z (fold_left (zstep (zip_prefix mp mv)) entries zstate0) in
        (cf, cf_err cf)
  end.

(* ---- listFilesInDir, CheckDir ------------------------------------------------------------ *)

(* a directory entry: a non-directory (mode MRegular, MSymlink or MOther; content and
   go-version regime of a regular file) or a directory with named children *)
Inductive tnode :=
  | TFile (m : fmode) (content : str) (ge124 : bool)
  | TDir (children : list (str * tnode)).

Fixpoint insert_child (x : str * tnode) (l : list (str * tnode)) : list (str * tnode) :=
  match l with
  | [] => [x]
  | y :: r => if str_ltb (fst y) (fst x) then y :: insert_child x r else x :: l
  end.

(* filepath.Walk visits the entries of a directory in the order of sort.Strings *)
Fixpoint sort_tree (n : tnode) : tnode :=
  match n with
  | TFile m c g => TFile m c g
  | TDir ch =>
      TDir ((fix go (l : list (str * tnode)) : list (str * tnode) :=
               match l with
               | [] => []
               | (nm, c) :: r => insert_child (nm, sort_tree c) (go r)
               end) ch)
  end.

Definition child_path (rel nm : str) : str :=
  if is_nil_s rel then nm else rel ++ 47 :: nm.

Definition is_vcs_name (nm : str) : bool :=
  str_eqb nm (B ".bzr") || str_eqb nm (B ".git") || str_eqb nm (B ".hg") || str_eqb nm (B ".svn").

Fixpoint find_child (nm : str) (ch : list (str * tnode)) : option tnode :=
  match ch with
  | [] => None
  | (n, c) :: r => if str_eqb n nm then Some c else find_child nm r
  end.

(* os.Lstat(dir/go.mod) succeeds and is not a directory *)
Definition has_gomod_file (ch : list (str * tnode)) : bool :=
  match find_child go_mod ch with
  | Some (TFile _ _ _) => true
  | _ => false
  end.

(* the walk function of listFilesInDir on the entry called nm at slash path rel (not the
   root): (files, omitted), both in visiting order.  With prune = false nothing is
   skipped: that is the plain list of all regular files (used by dir_vs_list_agree). *)
Fixpoint walk (prune : bool) (ge124 : bool) (rel nm : str) (n : tnode) : list file * list (str * ferr) :=
  let walk_children (ch : list (str * tnode)) :=
    (fix go (l : list (str * tnode)) : list file * list (str * ferr) :=
       match l with
       | [] => ([], [])
       | (cn, c) :: r =>
           let (f1, o1) := walk prune ge124 (child_path rel cn) cn c in
           let (f2, o2) := go r in
           (f1 ++ f2, o1 ++ o2)
       end) ch in
  if prune && is_vendored_package rel ge124 then
    match n with
    | TFile _ _ _ => ([], [(rel, FE_Vendored)])
    | TDir ch => let (fs, om) := walk_children ch in (fs, (rel, FE_Vendored) :: om)
    end
  else
    match n with
    | TDir ch =>
        if prune && is_vcs_name nm then ([], [(rel, FE_VCS)])
        else if prune && has_gomod_file ch then ([], [(rel, FE_SubmoduleDir)])
        else walk_children ch
    | TFile MRegular content g =>
        ([mkFile rel true MRegular (len content) true content g], [])
    | TFile _ _ _ => if prune then ([], [(rel, FE_NotRegular)]) else ([], [])
    end.

Definition walk_root (prune : bool) (ge124 : bool) (ch : list (str * tnode)) : list file * list (str * ferr) :=
  (fix go (l : list (str * tnode)) : list file * list (str * ferr) :=
     match l with
     | [] => ([], [])
     | (cn, c) :: r =>
         let (f1, o1) := walk prune ge124 cn cn c in
         let (f2, o2) := go r in
         (f1 ++ f2, o1 ++ o2)
     end) ch.

(* vers of listFilesInDir: os.ReadFile(dir/go.mod).  A root go.mod that is not a regular
   file gives "" (the harness only creates dangling links there). *)
Definition tree_gover (ch : list (str * tnode)) : bool :=
  match find_child go_mod ch with
  | Some (TFile MRegular _ g) => g
  | _ => false
  end.

Definition sorted_children (ch : list (str * tnode)) : list (str * tnode) :=
  match sort_tree (TDir ch) with TDir ch' => ch' | TFile _ _ _ => [] end.

(* listFilesInDir on the directory with entries ch *)
Definition list_files_in_dir (ch : list (str * tnode)) : list file * list (str * ferr) :=
  walk_root true (tree_gover ch) (sorted_children ch).

(* every regular file of the tree in walking order, nothing skipped *)
Definition all_regular_files (ch : list (str * tnode)) : list file :=
  fst (walk_root false false (sorted_children ch)).

(* CheckDir: report with paths rewritten by filepath.Join(dir, .), and the error class *)
Definition check_dir (dir : str) (ch : list (str * tnode)) : checked * option zerr :=
  let (files, omitted) := list_files_in_dir ch in
  let cf := check_files files in
  let j := filepath_join dir in
  let cf' := mkChecked (map j (c_valid cf))
                       (map (fun pe => (j (fst pe), snd pe)) (c_omitted cf ++ omitted))
                       (map (fun pe => (j (fst pe), snd pe)) (c_invalid cf))
                       (c_sizeerr cf) (c_fuel cf) in
  (cf', cf_err cf').

(* ---- the decidable side condition of dir_vs_list_agree (Zip/ProofsDirList.v) ---------------

   For a directory tree, compare the pruned listing of listFilesInDir with the plain list of
   all regular files: the pruned list is the plain list minus some files; every dropped file is
   omitted by checkFiles before the collision check (vendored, in a nested module); for every
   kept file the path-only decisions are the same with the go.mod directories of either list;
   both lists select the same go version.  The condition is evaluated by the model on every
   generated tree (dispatcher function "zip.DirListCondition"). *)

Definition mem_path (l : list file) (f : file) : bool :=
  existsb (fun g => str_eqb (f_path g) (f_path f)) l.

Definition fmode_code (m : fmode) : Z :=
  match m with MRegular => 0 | MDir => 1 | MSymlink => 2 | MOther => 3 end.

Definition file_eqb (a b : file) : bool :=
  str_eqb (f_path a) (f_path b) && Bool.eqb (f_lstat_ok a) (f_lstat_ok b)
  && (fmode_code (f_mode a) =? fmode_code (f_mode b)) && (f_size a =? f_size b)
  && Bool.eqb (f_open_ok a) (f_open_ok b) && str_eqb (f_content a) (f_content b)
  && Bool.eqb (f_ge124 a) (f_ge124 b).

Fixpoint files_eqb (a b : list file) : bool :=
  match a, b with
  | [], [] => true
  | x :: a', y :: b' => file_eqb x y && files_eqb a' b'
  | _, _ => false
  end.

Fixpoint nodup_strs (l : list str) : bool :=
  match l with
  | [] => true
  | x :: r => negb (existsb (str_eqb x) r) && nodup_strs r
  end.

Definition ferr_code (e : ferr) : Z :=
  match e with
  | FE_NotClean => 0 | FE_NotRelative => 1 | FE_BadPath => 2 | FE_GoModCase => 3 | FE_Lstat => 4
  | FE_CollCase => 5 | FE_CollFileDir => 6 | FE_CollMultiple => 7 | FE_GoModSize => 8
  | FE_LicenseSize => 9 | FE_NoPrefix => 10 | FE_GoModNotRoot => 11 | FE_Vendored => 12
  | FE_SubmoduleFile => 13 | FE_HgArchival => 14 | FE_Symlink => 15 | FE_NotRegular => 16
  | FE_VCS => 17 | FE_SubmoduleDir => 18
  end.

Definition pre_class_eqb (a b : option (bool * ferr)) : bool :=
  match a, b with
  | None, None => true
  | Some (x, e), Some (y, e') => Bool.eqb x y && (ferr_code e =? ferr_code e')
  | _, _ => false
  end.

Definition dir_list_condition (ch : list (str * tnode)) : bool :=
  let fa := all_regular_files ch in
  let fl := fst (list_files_in_dir ch) in
  let ge := root_gover fa in
  files_eqb (filter (mem_path fl) fa) fl
  && nodup_strs (map f_path fa)
  && forallb f_lstat_ok fa
  && Bool.eqb (root_gover fl) ge
  && forallb (fun f =>
                if mem_path fl f
                then pre_class_eqb (pre_class ge (have_gomod fa) (f_path f))
                                   (pre_class ge (have_gomod fl) (f_path f))
                else match pre_class ge (have_gomod fa) (f_path f) with
                     | Some (true, _) => true
                     | _ => false
                     end) fa.
