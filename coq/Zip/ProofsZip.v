(* checkZip (Zip/Check.v check_zip): acceptance implies every restriction of the package
   documentation.  Exported: zclean, zstep_ok, zstep_clean, items_of, cc_check_items,
   entry_rest, entry_items, is_file_entry, file_entries, total_size, entry_ok, zinv,
   zstep_inv, zfold_inv, zinv0, zstep_fuel, check_zip_no_fuel, checkzip_accepts_spec. *)
From Verif.Base Require Import Bytes PathClean.
From Verif.Gen Require Import GenConsts.
From Verif.Module Require Import Path PathProofs.
From Verif.Zip Require Import Check ProofsPath ProofsColl.


Definition zclean (st : zstate) : Prop :=
  z_invalid st = [] /\ z_sizeerr st = false /\ z_fuel st = false.

Definition lic : str := B "LICENSE".

(* what an iteration of the loop of checkZip did if it reported nothing *)
Inductive zstep_ok (prefix : str) (st : zstate) (e : entry) (st' : zstate) : Prop :=
  | ZS_empty :
      skipn (length prefix) (e_name e) = [] -> st' = st -> zstep_ok prefix st e st'
  | ZS_dir :
      let name0 := skipn (length prefix) (e_name e) in
      let name := entry_name name0 in
      name0 <> [] -> entry_is_dir name0 = true ->
      path_clean name = name -> check_file_path name = None ->
      cc_check (S (length name)) (z_coll st) name true = (z_coll st', CCOk) ->
      z_valid st' = z_valid st -> z_size st' = z_size st ->
      zstep_ok prefix st e st'
  | ZS_file :
      let name0 := skipn (length prefix) (e_name e) in
      let name := entry_name name0 in
      let sz := to_int64 (e_usize e) in
      name0 <> [] -> entry_is_dir name0 = false ->
      path_clean name = name -> check_file_path name = None ->
      cc_check (S (length name)) (z_coll st) name false = (z_coll st', CCOk) ->
      (equal_fold (path_base name) go_mod = true -> name = go_mod) ->
      0 <= sz -> sz <= zip_MaxZipFile - z_size st ->
      (name = go_mod -> sz <= zip_MaxGoMod) -> (name = lic -> sz <= zip_MaxLICENSE) ->
      z_valid st' = z_valid st ++ [e_name e] -> z_size st' = z_size st + sz ->
      zstep_ok prefix st e st'.

Lemma snoc_not_nil (A : Type) (l : list A) x : l ++ [x] <> [].
Proof. destruct l; discriminate. Qed.

Lemma is_nil_s_false s : is_nil_s s = false -> s <> [].
Proof. destruct s; [discriminate|discriminate]. Qed.

Lemma ok_b_none' r : ok_b r = true -> r = None.
Proof. destruct r; [discriminate|reflexivity]. Qed.

Lemma zstep_clean prefix st e :
  zclean (zstep prefix st e) ->
  zclean st /\ has_prefix (e_name e) prefix = true /\ zstep_ok prefix st e (zstep prefix st e).
Proof.
  unfold zclean, zstep.
  destruct (has_prefix (e_name e) prefix) eqn:Hp; cbn [negb].
  2:{ cbn [z_valid z_invalid z_sizeerr z_size z_coll z_fuel z_add_invalid]. intros (H & _). exfalso. eapply snoc_not_nil; exact H. }
  destruct (is_nil_s (skipn (length prefix) (e_name e))) eqn:Hn.
  { intros H. split; [exact H|]. split; [reflexivity|]. apply ZS_empty; [|reflexivity].
    destruct (skipn _ _); [reflexivity|discriminate]. }
  apply is_nil_s_false in Hn.
  set (name0 := skipn (length prefix) (e_name e)) in *.
  set (name := entry_name name0) in *.
  destruct (str_eqb_spec (path_clean name) name) as [Hc|]; cbn [negb].
  2:{ cbn [z_valid z_invalid z_sizeerr z_size z_coll z_fuel z_add_invalid]. intros (H & _). exfalso. eapply snoc_not_nil; exact H. }
  destruct (ok_b (check_file_path name)) eqn:Hf; cbn [negb].
  2:{ cbn [z_valid z_invalid z_sizeerr z_size z_coll z_fuel z_add_invalid]. intros (H & _). exfalso. eapply snoc_not_nil; exact H. }
  apply ok_b_none' in Hf.
  pose proof (cc_check_no_fuel (z_coll st) name (entry_is_dir name0) Hf) as Hnf.
  destruct (cc_check (S (length name)) (z_coll st) name (entry_is_dir name0)) as [cc' r] eqn:Ecc.
  cbn [snd] in Hnf. destruct r as [|err|]; [| |contradiction].
  2:{ cbn [z_valid z_invalid z_sizeerr z_size z_coll z_fuel z_add_invalid]. intros (H & _). exfalso. eapply snoc_not_nil; exact H. }
  destruct (entry_is_dir name0) eqn:Hd.
  { cbn [z_valid z_invalid z_sizeerr z_size z_coll z_fuel z_add_invalid]. intros H. split; [exact H|]. split; [reflexivity|].
    eapply ZS_dir; try eassumption; try reflexivity. }
  destruct (equal_fold (path_base name) go_mod) eqn:Hg; cbn [andb].
  - destruct (str_eqb_spec (path_base name) name) as [Hb|]; cbn [negb].
    2:{ cbn [z_valid z_invalid z_sizeerr z_size z_coll z_fuel z_add_invalid]. intros (H & _). exfalso. eapply snoc_not_nil; exact H. }
    destruct (str_eqb_spec name go_mod) as [Hgm|]; cbn [negb].
    2:{ cbn [z_valid z_invalid z_sizeerr z_size z_coll z_fuel z_add_invalid]. intros (H & _). exfalso. eapply snoc_not_nil; exact H. }
    rewrite Hgm. change (str_eqb go_mod go_mod) with true. cbn [andb].
    change (str_eqb go_mod (B "LICENSE")) with false. cbn [andb].
    destruct (zip_MaxGoMod <? to_int64 (e_usize e)) eqn:Hs.
    { cbn [z_valid z_invalid z_sizeerr z_size z_coll z_fuel z_add_invalid]. intros (H & _). exfalso. eapply snoc_not_nil; exact H. }
    destruct ((0 <=? to_int64 (e_usize e)) && (to_int64 (e_usize e) <=? zip_MaxZipFile - z_size st)) eqn:Hfit.
    2:{ cbn [z_valid z_invalid z_sizeerr z_size z_coll z_fuel z_add_invalid]. intros (_ & H & _). discriminate. }
    cbn [z_valid z_invalid z_sizeerr z_size z_coll z_fuel z_add_invalid]. intros H. split; [exact H|]. split; [reflexivity|].
    apply andb_true_iff in Hfit. destruct Hfit as [H0 H1].
    apply Z.leb_le in H0. apply Z.leb_le in H1. try apply Z.ltb_ge in Hs.
    eapply ZS_file; try eassumption; try reflexivity; fold name0; fold name; try lia.
    + intros _. exact Hgm.
    + rewrite Hgm. intros Hx. discriminate Hx.
  - destruct (str_eqb_spec name go_mod) as [Hgm|Hngm]; cbn [andb].
    { exfalso. rewrite Hgm in Hg. vm_compute in Hg. discriminate. }
    destruct (str_eqb_spec name (B "LICENSE")) as [Hl|Hnl]; cbn [andb].
    + destruct (zip_MaxLICENSE <? to_int64 (e_usize e)) eqn:Hs.
      { cbn [z_valid z_invalid z_sizeerr z_size z_coll z_fuel z_add_invalid]. intros (H & _). exfalso. eapply snoc_not_nil; exact H. }
      destruct ((0 <=? to_int64 (e_usize e)) && (to_int64 (e_usize e) <=? zip_MaxZipFile - z_size st)) eqn:Hfit.
      2:{ cbn [z_valid z_invalid z_sizeerr z_size z_coll z_fuel z_add_invalid]. intros (_ & H & _). discriminate. }
      cbn [z_valid z_invalid z_sizeerr z_size z_coll z_fuel z_add_invalid]. intros H. split; [exact H|]. split; [reflexivity|].
      apply andb_true_iff in Hfit. destruct Hfit as [H0 H1].
      apply Z.leb_le in H0. apply Z.leb_le in H1. try apply Z.ltb_ge in Hs.
    apply Z.leb_le in H0. apply Z.leb_le in H1. try apply Z.ltb_ge in Hs.
      eapply ZS_file; try eassumption; try reflexivity; fold name0; fold name; try lia;
        intros Hx; first [contradiction | congruence].
    + destruct ((0 <=? to_int64 (e_usize e)) && (to_int64 (e_usize e) <=? zip_MaxZipFile - z_size st)) eqn:Hfit.
      2:{ cbn [z_valid z_invalid z_sizeerr z_size z_coll z_fuel z_add_invalid]. intros (_ & H & _). discriminate. }
      cbn [z_valid z_invalid z_sizeerr z_size z_coll z_fuel z_add_invalid]. intros H. split; [exact H|]. split; [reflexivity|].
      apply andb_true_iff in Hfit. destruct Hfit as [H0 H1].
      apply Z.leb_le in H0. apply Z.leb_le in H1. try apply Z.ltb_ge in Hs.
    apply Z.leb_le in H0. apply Z.leb_le in H1. try apply Z.ltb_ge in Hs.
      eapply ZS_file; try eassumption; try reflexivity; fold name0; fold name; try lia;
        intros Hx; first [contradiction | congruence].
Qed.

(* the registered paths of a valid path: itself and its ancestors *)
Definition items_of (p : str) (d : bool) : list item := chain_items (rev (split_on 47 p)) d.

Lemma cc_check_items cc p d :
  check_file_path p = None ->
  cc_check (S (length p)) cc p d = cc_chain cc (items_of p d).
Proof.
  intros H. destruct (cc_check_valid_path cc p d H) as (rels & Hne & Hg & Hp & ->).
  unfold items_of. rewrite Hp. rewrite split_join.
  - now rewrite rev_involutive.
  - intros E. apply Hne. rewrite <- (rev_involutive rels), E. reflexivity.
  - apply good_elem_no47. apply Forall_rev_good. exact Hg.
Qed.

Definition entry_rest (prefix : str) (e : entry) : str := skipn (length prefix) (e_name e).

Definition entry_items (prefix : str) (e : entry) : list item :=
  let name0 := entry_rest prefix e in
  if is_nil_s name0 then [] else items_of (entry_name name0) (entry_is_dir name0).

Definition is_file_entry (prefix : str) (e : entry) : bool :=
  let name0 := entry_rest prefix e in negb (is_nil_s name0) && negb (entry_is_dir name0).

Definition file_entries (prefix : str) (es : list entry) : list entry := filter (is_file_entry prefix) es.

Definition total_size (es : list entry) : Z := fold_right (fun e a => to_int64 (e_usize e) + a) 0 es.

(* the restrictions on one entry *)
Definition entry_ok (prefix : str) (e : entry) : Prop :=
  has_prefix (e_name e) prefix = true /\
  (entry_rest prefix e = [] \/
   (let name := entry_name (entry_rest prefix e) in
    check_file_path name = None /\ path_clean name = name /\
    (entry_is_dir (entry_rest prefix e) = false ->
       (equal_fold (path_base name) go_mod = true -> name = go_mod) /\
       0 <= to_int64 (e_usize e) /\
       (name = go_mod -> to_int64 (e_usize e) <= zip_MaxGoMod) /\
       (name = lic -> to_int64 (e_usize e) <= zip_MaxLICENSE)))).

Record zinv (prefix : str) (done : list entry) (st : zstate) : Prop := {
  zi_ok : Forall (entry_ok prefix) done;
  zi_repr : repr (z_coll st) (flat_map (entry_items prefix) done);
  zi_free : coll_free (flat_map (entry_items prefix) done);
  zi_size : z_size st = total_size (file_entries prefix done);
  zi_bound : 0 <= z_size st <= zip_MaxZipFile;
  zi_valid : z_valid st = map e_name (file_entries prefix done) }.

Lemma total_size_snoc l e : total_size (l ++ [e]) = total_size l + to_int64 (e_usize e).
Proof. unfold total_size. induction l as [|x l IH]; cbn [app fold_right] in *; lia. Qed.

Lemma zstep_inv prefix done st e :
  zinv prefix done st -> zclean (zstep prefix st e) -> zinv prefix (done ++ [e]) (zstep prefix st e).
Proof.
  intros [Ok R F Sz Bd V] Hc.
  destruct (zstep_clean prefix st e Hc) as (_ & Hp & Hs).
  assert (Hfe : forall b, is_file_entry prefix e = b ->
                file_entries prefix (done ++ [e]) = file_entries prefix done ++ (if b then [e] else [])).
  { intros b Hb. unfold file_entries. rewrite filter_app. cbn [filter]. rewrite Hb. destruct b; reflexivity. }
  destruct Hs as [Hn ->|name0 name Hn Hd Hcl Hf Hcc Hv Hsz|name0 name sz Hn Hd Hcl Hf Hcc Hg H0 H1 Hgm Hl Hv Hsz].
  - assert (Hi : entry_items prefix e = []) by (unfold entry_items, entry_rest; rewrite Hn; reflexivity).
    assert (Hb : is_file_entry prefix e = false) by (unfold is_file_entry, entry_rest; rewrite Hn; reflexivity).
    split; rewrite ?flat_map_app, ?(Hfe _ Hb); cbn [flat_map]; rewrite ?Hi, ?app_nil_r; auto.
    apply Forall_app. split; [exact Ok|]. constructor; [|constructor]. split; [exact Hp|left; exact Hn].
  - assert (Hi : entry_items prefix e = items_of name true).
    { unfold entry_items, entry_rest. fold name0. destruct name0; [contradiction|]. cbn [is_nil_s]. fold name. rewrite Hd. reflexivity. }
    assert (Hb : is_file_entry prefix e = false).
    { unfold is_file_entry, entry_rest. fold name0. rewrite Hd. apply andb_false_r. }
    rewrite cc_check_items in Hcc by exact Hf.
    destruct (cc_chain_ok _ _ _ _ R F Hcc) as [R' F'].
    split; rewrite ?flat_map_app, ?(Hfe _ Hb); cbn [flat_map]; rewrite ?Hi, ?app_nil_r; auto; try congruence.
    + apply Forall_app. split; [exact Ok|]. constructor; [|constructor]. split; [exact Hp|right].
      fold (entry_rest prefix e) in name0. fold name0. fold name. repeat split; auto; try (intros Hx; congruence).
  - assert (Hi : entry_items prefix e = items_of name false).
    { unfold entry_items, entry_rest. fold name0. destruct name0; [contradiction|]. cbn [is_nil_s]. fold name. rewrite Hd. reflexivity. }
    assert (Hb : is_file_entry prefix e = true).
    { unfold is_file_entry, entry_rest. fold name0. rewrite Hd. destruct name0; [contradiction|reflexivity]. }
    rewrite cc_check_items in Hcc by exact Hf.
    destruct (cc_chain_ok _ _ _ _ R F Hcc) as [R' F'].
    split; rewrite ?flat_map_app, ?(Hfe _ Hb); cbn [flat_map]; rewrite ?Hi, ?app_nil_r; auto.
    + apply Forall_app. split; [exact Ok|]. constructor; [|constructor]. split; [exact Hp|right].
      fold (entry_rest prefix e) in name0. fold name0. fold name. repeat split; auto.
    + rewrite Hsz, total_size_snoc, Sz. reflexivity.
    + rewrite Hsz. fold sz. lia.
    + rewrite Hv, map_app, V. reflexivity.
Qed.

Lemma zclean_back prefix es : forall st, zclean (fold_left (zstep prefix) es st) -> zclean st.
Proof.
  induction es as [|e es IH]; intros st H; [exact H|].
  cbn [fold_left] in H. apply IH in H. apply (zstep_clean prefix st e H).
Qed.

Lemma zfold_inv prefix es : forall done st,
  zinv prefix done st -> zclean (fold_left (zstep prefix) es st) ->
  zinv prefix (done ++ es) (fold_left (zstep prefix) es st).
Proof.
  induction es as [|e es IH]; intros done st I H.
  - rewrite app_nil_r. exact I.
  - cbn [fold_left] in *. rewrite app_cons_assoc. apply IH; [|exact H].
    apply zstep_inv; [exact I|]. eapply zclean_back. exact H.
Qed.

Lemma zinv0 prefix : zinv prefix [] zstate0.
Proof.
  split; cbn; auto.
  - apply repr_nil.
  - constructor.
  - unfold zip_MaxZipFile. lia.
Qed.

Lemma zstep_fuel prefix st e : z_fuel (zstep prefix st e) = z_fuel st.
Proof.
  unfold zstep.
  destruct (has_prefix _ _); cbn [negb]; [|reflexivity].
  destruct (is_nil_s _); [reflexivity|].
  destruct (str_eqb _ _); cbn [negb]; [|reflexivity].
  destruct (ok_b _) eqn:Hf; cbn [negb]; [|reflexivity].
  apply ok_b_none' in Hf.
  pose proof (cc_check_no_fuel (z_coll st) _ (entry_is_dir (skipn (length prefix) (e_name e))) Hf) as Hnf.
  destruct (cc_check _ _ _ _) as [cc' r]. cbn [snd] in Hnf.
  destruct r; [|reflexivity|contradiction].
  destruct (entry_is_dir _); [reflexivity|].
  destruct (_ && _); [reflexivity|]. destruct (_ && _); [reflexivity|].
  destruct (_ && _); [reflexivity|]. destruct (_ && _); reflexivity.
Qed.

Lemma zfold_fuel prefix es : forall st, z_fuel (fold_left (zstep prefix) es st) = z_fuel st.
Proof.
  induction es as [|e es IH]; intros st; [reflexivity|]. cbn [fold_left]. rewrite IH. apply zstep_fuel.
Qed.

Theorem check_zip_no_fuel mp mv zs es : c_fuel (fst (check_zip mp mv zs es)) = false.
Proof.
  unfold check_zip. destruct (check_module mp mv); [reflexivity|].
  destruct (_ <? _); [reflexivity|]. cbn [fst checked_of_z c_fuel]. apply zfold_fuel.
Qed.

(* everything the package documentation demands of an archive follows from acceptance *)
Theorem checkzip_accepts_spec mp mv zipsize es cf :
  check_zip mp mv zipsize es = (cf, None) ->
  let prefix := zip_prefix mp mv in
  check_module mp mv = None /\ zipsize <= zip_MaxZipFile /\
  Forall (entry_ok prefix) es /\
  coll_free (flat_map (entry_items prefix) es) /\
  0 <= total_size (file_entries prefix es) <= zip_MaxZipFile /\
  c_valid cf = map e_name (file_entries prefix es) /\ c_invalid cf = [] /\ c_sizeerr cf = false.
Proof.
  unfold check_zip. destruct (check_module mp mv) as [z|]; [discriminate|].
  destruct (zip_MaxZipFile <? zipsize) eqn:Hz; [discriminate|]. apply Z.ltb_ge in Hz.
  intros H. injection H as <- He. cbn zeta.
  set (st := fold_left (zstep (zip_prefix mp mv)) es zstate0) in *.
  assert (Hc : zclean st).
  { unfold cf_err, checked_of_z in He. cbn [c_sizeerr c_invalid] in He.
    destruct (z_sizeerr st) eqn:Hs; [discriminate|].
    destruct (z_invalid st) eqn:Hi; [|discriminate].
    repeat split; auto. unfold st. apply zfold_fuel. }
  pose proof (zfold_inv (zip_prefix mp mv) es [] zstate0 (zinv0 _) Hc) as I. cbn [app] in I. fold st in I.
  destruct I as [Ok R F Sz Bd V]. destruct Hc as (Hi & Hs & _).
  repeat split; auto; cbn [checked_of_z c_valid c_invalid c_sizeerr]; try (rewrite <- Sz; apply Bd); auto.
Qed.
