Require Extraction.
Require Import ExtrOcamlBasic.
From Verif.Base Require Import Bytes Wire.
From Verif.Zip Require Import DispatchZip.
Definition run (line : str) : str := run_line dispatch line.
Extraction "zip_model.ml" run.
