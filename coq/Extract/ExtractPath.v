Require Extraction.
Require Import ExtrOcamlBasic.
From Verif.Base Require Import Bytes Wire.
From Verif.Module Require Import DispatchPath.
Definition run (line : str) : str := run_line dispatch line.
Extraction "path_model.ml" run.
