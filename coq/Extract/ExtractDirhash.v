Require Extraction.
Require Import ExtrOcamlBasic.
From Verif.Base Require Import Bytes Wire.
From Verif.Dirhash Require Import Dispatch.
Definition run (line : str) : str := run_line dispatch line.
Extraction "dirhash_model.ml" run.
