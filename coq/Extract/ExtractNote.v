Require Extraction.
Require Import ExtrOcamlBasic.
From Verif.Base Require Import Bytes Wire.
From Verif.Note Require Import DispatchNote.
Definition run (line : str) : str := run_line dispatch line.
Extraction "note_model.ml" run.
