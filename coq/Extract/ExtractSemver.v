Require Extraction.
Require Import ExtrOcamlBasic.
From Verif.Base Require Import Bytes Wire.
From Verif.Semver Require Import Dispatch.
Definition run (line : str) : str := run_line dispatch line.
Extraction "semver_model.ml" run.
