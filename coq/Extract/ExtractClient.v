Require Extraction.
Require Import ExtrOcamlBasic.
From Verif.Base Require Import Bytes Wire.
From Verif.Client Require Import DispatchClient.
Definition run (line : str) : str := run_line dispatch line.
Extraction "client_model.ml" run.
