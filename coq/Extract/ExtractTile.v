Require Extraction.
Require Import ExtrOcamlBasic.
From Verif.Base Require Import Bytes Wire.
From Verif.Tlog Require Import DispatchTile.
Definition run (line : str) : str := run_line dispatch line.
Extraction "tile_model.ml" run.
