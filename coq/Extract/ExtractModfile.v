Require Extraction.
Require Import ExtrOcamlBasic.
From Verif.Base Require Import Bytes Wire.
From Verif.Modfile Require Import DispatchSyntax.
Definition run (line : str) : str := run_line dispatch line.
Extraction "modfile_model.ml" run.
