Require Extraction.
Require Import ExtrOcamlBasic.
From Verif.Base Require Import Bytes Wire.
From Verif.Base Require Import DispatchBase.
Definition run (line : str) : str := run_line dispatch line.
Extraction "base_model.ml" run.
