Require Extraction.
Require Import ExtrOcamlBasic.
From Verif.Base Require Import Bytes Wire.
From Verif.Client Require Import DispatchServer.
Definition run (line : str) : str := run_line dispatch line.
Extraction "server_model.ml" run.
