Require Extraction.
Require Import ExtrOcamlBasic.
From Verif.Base Require Import Bytes Wire.
From Verif.Client Require Import DispatchConc.
Definition run (line : str) : str := run_line dispatch line.
Extraction "conc_model.ml" run.
