Require Extraction.
Require Import ExtrOcamlBasic.
From Verif.Base Require Import Bytes Wire.
From Verif.Module Require Import DispatchEsc.
Definition run (line : str) : str := run_line dispatch line.
Extraction "esc_model.ml" run.
