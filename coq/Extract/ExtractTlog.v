Require Extraction.
Require Import ExtrOcamlBasic.
From Verif.Base Require Import Bytes Wire.
From Verif.Tlog Require Import DispatchTlog.
Definition run (line : str) : str := run_line dispatch line.
Extraction "tlog_model.ml" run.
