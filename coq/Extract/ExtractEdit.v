Require Extraction.
Require Import ExtrOcamlBasic.
From Verif.Base Require Import Bytes Wire.
From Verif.Modfile Require Import DispatchEdit.
Definition run (line : str) : str := run_line dispatch line.
Extraction "edit_model.ml" run.
