(* C09 — The log's tree hash and stored-hash layout are exactly RFC 6962 for every log.
   Property theorems only; each is closed by [exact] of a lemma proved in Tlog/Proofs*.v.
   All statements are parametric in the hash functions (no assumption on them).
   Model: Tlog/Index.v, Tlog/Tree.v, Tlog/Codec.v (tlog.go, tlog/note.go); specification:
   Tlog/Spec6962.v (mth = RFC 6962 MTH on the list of leaf hashes, store_of = the store
   obtained by writing the records one at a time with tlog.StoredHashes).
   Guard: sizes below 2^62 and indexes below 2^63 (Go uses int64; the model is unbounded). *)
From Verif.Base Require Import Bytes Base64Proofs.
From Verif.Gen Require Import GenConsts.
From Verif.Tlog Require Import Index Tree Codec Spec6962 ProofsIndex ProofsSpec ProofsTree ProofsStore ProofsCodec.

(* ---- the specification function is the RFC 6962 section 2.1 recursion ---- *)
Theorem C09_mth_is_rfc6962 : forall (node_hash : hash -> hash -> hash),
  mth node_hash [] = empty_hash /\
  (forall x, mth node_hash [x] = x) /\
  (forall l, 2 <= zlen l ->
     let k := Z.to_nat (split_point (zlen l)) in      (* largest power of two < length *)
     mth node_hash l = node_hash (mth node_hash (firstn k l)) (mth node_hash (skipn k l))) /\
  (forall n, 2 <= n -> 1 <= split_point n < n /\ n <= 2 * split_point n /\
                      exists j, split_point n = 2 ^ j).
Proof.
  intros node_hash. split; [reflexivity|]. split; [reflexivity|]. split.
  - exact (mth_split node_hash).
  - intros n Hn. pose proof (split_point_bounds n Hn). split; [tauto|]. split; [tauto|].
    eexists; reflexivity.
Qed.
Print Assumptions C09_mth_is_rfc6962.

(* ---- index arithmetic ---- *)
Theorem C09_index_formula : forall l n, 0 <= l -> 0 <= n ->
  let m := (n + 1) * 2 ^ l - 1 in
  stored_hash_index l n = 2 * m - popcount m + l.
Proof. exact index_formula. Qed.
Print Assumptions C09_index_formula.

(* SplitStoredHashIndex inverts StoredHashIndex … *)
Theorem C09_index_split_bijection_1 : forall l n,
  0 <= l -> 0 <= n -> stored_hash_index l n < 2 ^ 63 ->
  split_stored_hash_index (stored_hash_index l n) = Ok (l, n).
Proof. exact split_index. Qed.
Print Assumptions C09_index_split_bijection_1.

(* … and StoredHashIndex inverts SplitStoredHashIndex, which neither panics ("bad math") nor
   runs out of fuel on any non-negative int64 *)
Theorem C09_index_split_bijection_2 : forall i, 0 <= i < 2 ^ 63 ->
  exists l n, split_stored_hash_index i = Ok (l, n) /\ 0 <= l /\ 0 <= n /\
              stored_hash_index l n = i.
Proof. exact index_split. Qed.
Print Assumptions C09_index_split_bijection_2.

Theorem C09_stored_hash_count : forall n, 0 <= n < 2 ^ 63 ->
  stored_hash_count n = 2 * n - popcount n /\ stored_hash_count n = stored_hash_index 0 n.
Proof.
  intros n Hn. split; [apply stored_hash_count_spec; exact Hn|].
  apply stored_hash_count_first. exact Hn.
Qed.
Print Assumptions C09_stored_hash_count.

(* every intermediate value of StoredHashIndex(l, n) fits int64 when the subtree (l, n) lies
   within 2^62 records (DESIGN.md's bound l <= 62 - log2 (n+1) is off by one: see
   ProofsIndex.no_overflow_index_design_bound_refuted, witness l = 61, n = 2) *)
Theorem C09_no_overflow_index : forall l n,
  0 <= l -> 0 <= n -> (n + 1) * 2 ^ l <= 2 ^ 62 ->
  0 <= stored_hash_index l n < 2 ^ 63 /\
  (forall j, 0 <= j <= l -> 0 <= level_up j n < 2 ^ 62).
Proof. exact no_overflow_index. Qed.
Print Assumptions C09_no_overflow_index.

Theorem C09_no_overflow_index_log2 : forall l n,
  0 <= n -> 0 <= l <= 61 - Z.log2 (n + 1) -> 0 <= stored_hash_index l n < 2 ^ 63.
Proof. exact no_overflow_index_log2. Qed.
Print Assumptions C09_no_overflow_index_log2.

(* ---- the store ---- *)
Theorem C09_store_invariant : forall (leaf_hash : str -> hash) (node_hash : hash -> hash -> hash) recs,
  zlen recs < 2 ^ 62 ->
  let st := store_of leaf_hash node_hash recs in
  zlen st = stored_hash_count (zlen recs) /\
  forall l o, 0 <= l -> 0 <= o -> (o + 1) * 2 ^ l <= zlen recs ->
    nth_error st (Z.to_nat (stored_hash_index l o))
    = Some (mth node_hash (map leaf_hash (slice recs (o * 2 ^ l) (2 ^ l)))).
Proof. exact store_invariant. Qed.
Print Assumptions C09_store_invariant.

(* density: every position is the index of exactly one complete subtree of the log *)
Theorem C09_store_dense : forall (leaf_hash : str -> hash) (node_hash : hash -> hash -> hash) recs,
  zlen recs < 2 ^ 62 ->
  forall i, 0 <= i < zlen (store_of leaf_hash node_hash recs) ->
  exists l o, split_stored_hash_index i = Ok (l, o) /\ 0 <= l /\ 0 <= o /\
              (o + 1) * 2 ^ l <= zlen recs /\ stored_hash_index l o = i /\
              forall l' o', 0 <= l' -> 0 <= o' -> stored_hash_index l' o' = i -> l' = l /\ o' = o.
Proof. exact store_dense. Qed.
Print Assumptions C09_store_dense.

(* writing the next record never fails, appends 1 + (trailing ones of n) hashes *)
Theorem C09_stored_hashes_count_bound :
  forall (leaf_hash : str -> hash) (node_hash : hash -> hash -> hash) recs r,
  zlen (recs ++ [r]) < 2 ^ 62 ->
  exists hs, stored_hashes leaf_hash node_hash (zlen recs) r
               (reader_of (store_of leaf_hash node_hash recs)) = Ok hs /\
             store_of leaf_hash node_hash (recs ++ [r]) = store_of leaf_hash node_hash recs ++ hs /\
             zlen hs = 1 + tz (zlen recs + 1) /\ zlen hs <= 1 + Z.log2 (zlen recs + 1).
Proof. exact stored_hashes_ok. Qed.
Print Assumptions C09_stored_hashes_count_bound.

Theorem C09_tree_hash_is_MTH : forall (leaf_hash : str -> hash) (node_hash : hash -> hash -> hash) recs m,
  zlen recs < 2 ^ 62 -> 0 <= m <= zlen recs ->
  tree_hash node_hash m (reader_of (store_of leaf_hash node_hash recs))
  = Ok (mth node_hash (map leaf_hash (firstn (Z.to_nat m) recs))).
Proof. exact tree_hash_is_MTH. Qed.
Print Assumptions C09_tree_hash_is_MTH.

(* ---- text encodings ---- *)
Theorem C09_parse_format_tree : forall t,
  0 <= tN t < 2 ^ 63 -> Forall byte (tH t) /\ len (tH t) = tlog_HashSize ->
  parse_tree (format_tree t) = Ok t.
Proof. exact parse_format_tree. Qed.
Print Assumptions C09_parse_format_tree.

Theorem C09_parse_format_record : forall id text rest msg,
  - 2 ^ 63 <= id < 2 ^ 63 ->
  format_record id text = Ok msg ->
  parse_record (msg ++ rest) = Ok (id, text, rest).
Proof. exact parse_format_record. Qed.
Print Assumptions C09_parse_format_record.

Theorem C09_format_record_fails_iff_invalid : forall id text,
  ((exists msg, format_record id text = Ok msg) <-> is_valid_record_text text = true) /\
  (is_valid_record_text text = false -> format_record id text = Err EMalformed) /\
  (is_valid_record_text text = true ->
     exists t, text = t ++ [10] /\ nn_free 0 text).   (* ends in newline, no empty line inside *)
Proof.
  intros id text. split; [apply format_record_ok_iff|]. split; [apply format_record_err|].
  apply valid_text_bytes.
Qed.
Print Assumptions C09_format_record_fails_iff_invalid.

Theorem C09_parse_hash_string : forall h,
  Forall byte h /\ len h = tlog_HashSize -> parse_hash (hash_string h) = Ok h.
Proof. exact parse_hash_string. Qed.
Print Assumptions C09_parse_hash_string.

(* ---- non-vacuity: a concrete log with a toy hash ---- *)
Definition ex_leaf (d : str) : hash := 76 :: d.
Definition ex_node (a b : hash) : hash := 40 :: a ++ b ++ [41].
Definition ex_recs : list str := [B "a"; B "b"; B "c"; B "d"; B "e"].

Example C09_example_store :
  zlen ex_recs < 2 ^ 62 /\
  zlen (store_of ex_leaf ex_node ex_recs) = 8 /\
  tree_hash ex_node 5 (reader_of (store_of ex_leaf ex_node ex_recs))
  = Ok (B "(((LaLb)(LcLd))Le)") /\
  tree_hash ex_node 3 (reader_of (store_of ex_leaf ex_node ex_recs)) = Ok (B "((LaLb)Lc)") /\
  split_stored_hash_index 6 = Ok (2, 0) /\ stored_hash_index 2 0 = 6.
Proof. vm_compute. repeat split; reflexivity. Qed.

Example C09_example_codec :
  parse_tree (format_tree (Tree 12345 tlog_emptyHash)) = Ok (Tree 12345 tlog_emptyHash) /\
  format_record 7 (B "hello") = Err EMalformed /\
  (exists msg, format_record 7 (10 :: B "hello" ++ [10]) = Ok msg).
Proof. vm_compute. repeat split; try reflexivity. eexists; reflexivity. Qed.
