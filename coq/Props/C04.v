(* C04 — Version comparison is the SemVer 2.0.0 total preorder on the documented grammar.
   Property theorems only; each is closed by [exact] of a lemma proved elsewhere.
   The model (compare, canonical, is_valid, sort, ...) is Semver/Model.v; the declarative
   grammar (Version, render, numeral, val) and precedence (prec) are Semver/Spec.v.
   All statements quantify over ALL byte strings (str = list Z), without length bounds. *)
From Coq Require Import List ZArith.
From Verif.Base Require Import Bytes.
From Verif.Semver Require Import Model Spec Proofs ProofsCompare.

(* ---- 1. Compare is a total preorder ------------------------------------------------------ *)

Theorem C04_compare_refl : forall v, compare v v = 0.
Proof. exact compare_refl. Qed.
Print Assumptions C04_compare_refl.

Theorem C04_compare_total : forall v w, compare v w = -1 \/ compare v w = 0 \/ compare v w = 1.
Proof. exact compare_total. Qed.
Print Assumptions C04_compare_total.

Theorem C04_compare_antisym : forall v w, compare w v = - compare v w.
Proof. exact compare_antisym. Qed.
Print Assumptions C04_compare_antisym.

Theorem C04_compare_trans :
  forall a b c, compare a b <= 0 -> compare b c <= 0 -> compare a c <= 0.
Proof. exact compare_trans. Qed.
Print Assumptions C04_compare_trans.

Theorem C04_compare_eq_trans :
  forall a b c, compare a b = 0 -> compare b c = 0 -> compare a c = 0.
Proof. exact compare_eq_trans. Qed.
Print Assumptions C04_compare_eq_trans.

Theorem C04_compare_le_lt_trans :
  forall a b c, compare a b <= 0 -> compare b c < 0 -> compare a c < 0.
Proof. exact compare_le_lt_trans. Qed.
Print Assumptions C04_compare_le_lt_trans.

Theorem C04_compare_lt_le_trans :
  forall a b c, compare a b < 0 -> compare b c <= 0 -> compare a c < 0.
Proof. exact compare_lt_le_trans. Qed.
Print Assumptions C04_compare_lt_le_trans.

(* all invalid strings are equal, and below every valid one *)
Theorem C04_compare_invalid :
  forall v w,
    (is_valid v = false -> is_valid w = false -> compare v w = 0) /\
    (is_valid v = false -> is_valid w = true -> compare v w = -1 /\ compare w v = 1).
Proof. exact compare_invalid. Qed.
Print Assumptions C04_compare_invalid.

(* compareInt on numerals is the comparison of the numbers they denote: any length *)
Theorem C04_compare_int_numeric :
  forall x y, numeral x = true -> numeral y = true ->
              compare_int x y = Z_of_comparison (N.compare (val x) (val y)).
Proof. exact compare_int_numeric. Qed.
Print Assumptions C04_compare_int_numeric.

(* non-vacuity: 2^64 and 2^64-1 are numerals, compared correctly *)
Example C04_numeral_example :
  numeral (B "18446744073709551616") = true /\ numeral (B "18446744073709551615") = true /\
  val (B "18446744073709551616") = 18446744073709551616%N /\
  compare_int (B "18446744073709551616") (B "18446744073709551615") = 1.
Proof. repeat split; vm_compute; reflexivity. Qed.

Example C04_invalid_example :
  is_valid (B "v1.2") = true /\ is_valid (B "v1.02.3") = false /\ is_valid (B "1.2.3") = false.
Proof. repeat split; vm_compute; reflexivity. Qed.

(* ---- 2. Compare = 0 exactly for identical canonical forms ---------------------------------- *)

Theorem C04_compare_zero_iff_canonical :
  forall v w, compare v w = 0 <-> canonical v = canonical w.
Proof. exact compare_zero_iff_canonical. Qed.
Print Assumptions C04_compare_zero_iff_canonical.

Example C04_canonical_example :
  canonical (B "v1.2") = B "v1.2.0" /\ canonical (B "v1.2.0+meta") = B "v1.2.0" /\
  compare (B "v1.2") (B "v1.2.0+meta") = 0 /\ compare (B "v1.2.0-0") (B "v1.2") = -1.
Proof. repeat split; vm_compute; reflexivity. Qed.
