(* C04 — Version comparison is the SemVer 2.0.0 total preorder on the documented grammar.
   Property theorems only; each is closed by [exact] of a lemma proved elsewhere.
   The model (compare, canonical, is_valid, sort, ...) is Semver/Model.v; the declarative
   grammar (Version, render, numeral, val) and precedence (prec) are Semver/Spec.v.
   All statements quantify over ALL byte strings (str = list Z), without length bounds. *)
From Coq Require Import List ZArith Permutation Sorted.
From Verif.Base Require Import Bytes.
From Verif.Semver Require Import Model Spec Proofs ProofsCompare ProofsGrammar ProofsPrec ProofsSort.

(* ---- 1. Compare is a total preorder ------------------------------------------------------ *)

Theorem C04_compare_refl : forall v, compare v v = 0.
Proof. exact compare_refl. Qed.
Print Assumptions C04_compare_refl.

Theorem C04_compare_total : forall v w, compare v w = -1 \/ compare v w = 0 \/ compare v w = 1.
Proof. exact compare_total. Qed.
Print Assumptions C04_compare_total.

Theorem C04_compare_antisym : forall v w, compare w v = - compare v w.
Proof. exact compare_antisym. Qed.
Print Assumptions C04_compare_antisym.

Theorem C04_compare_trans :
  forall a b c, compare a b <= 0 -> compare b c <= 0 -> compare a c <= 0.
Proof. exact compare_trans. Qed.
Print Assumptions C04_compare_trans.

Theorem C04_compare_eq_trans :
  forall a b c, compare a b = 0 -> compare b c = 0 -> compare a c = 0.
Proof. exact compare_eq_trans. Qed.
Print Assumptions C04_compare_eq_trans.

Theorem C04_compare_le_lt_trans :
  forall a b c, compare a b <= 0 -> compare b c < 0 -> compare a c < 0.
Proof. exact compare_le_lt_trans. Qed.
Print Assumptions C04_compare_le_lt_trans.

Theorem C04_compare_lt_le_trans :
  forall a b c, compare a b < 0 -> compare b c <= 0 -> compare a c < 0.
Proof. exact compare_lt_le_trans. Qed.
Print Assumptions C04_compare_lt_le_trans.

(* all invalid strings are equal, and below every valid one *)
Theorem C04_compare_invalid :
  forall v w,
    (is_valid v = false -> is_valid w = false -> compare v w = 0) /\
    (is_valid v = false -> is_valid w = true -> compare v w = -1 /\ compare w v = 1).
Proof. exact compare_invalid. Qed.
Print Assumptions C04_compare_invalid.

(* compareInt on numerals is the comparison of the numbers they denote: any length *)
Theorem C04_compare_int_numeric :
  forall x y, numeral x = true -> numeral y = true ->
              compare_int x y = Z_of_comparison (N.compare (val x) (val y)).
Proof. exact compare_int_numeric. Qed.
Print Assumptions C04_compare_int_numeric.

(* non-vacuity: 2^64 and 2^64-1 are numerals, compared correctly *)
Example C04_numeral_example :
  numeral (B "18446744073709551616") = true /\ numeral (B "18446744073709551615") = true /\
  val (B "18446744073709551616") = 18446744073709551616%N /\
  compare_int (B "18446744073709551616") (B "18446744073709551615") = 1.
Proof. repeat split; vm_compute; reflexivity. Qed.

Example C04_invalid_example :
  is_valid (B "v1.2") = true /\ is_valid (B "v1.02.3") = false /\ is_valid (B "1.2.3") = false.
Proof. repeat split; vm_compute; reflexivity. Qed.

(* ---- 2. Compare = 0 exactly for identical canonical forms ---------------------------------- *)

Theorem C04_compare_zero_iff_canonical :
  forall v w, compare v w = 0 <-> canonical v = canonical w.
Proof. exact compare_zero_iff_canonical. Qed.
Print Assumptions C04_compare_zero_iff_canonical.

Example C04_canonical_example :
  canonical (B "v1.2") = B "v1.2.0" /\ canonical (B "v1.2.0+meta") = B "v1.2.0" /\
  compare (B "v1.2") (B "v1.2.0+meta") = 0 /\ compare (B "v1.2.0-0") (B "v1.2") = -1.
Proof. repeat split; vm_compute; reflexivity. Qed.

(* ---- 3. Validity is the documented grammar; accessors return the parts --------------------- *)

(* Version (Spec.v): three numerals, a form tag Full | ShortMinor | ShortMajor (short forms
   have minor/patch "0" and neither prerelease nor build), prerelease identifiers (non-empty
   over [0-9A-Za-z-], all-digit ones without leading zero), build identifiers. *)
Theorem C04_is_valid_iff_grammar :
  forall s, is_valid s = true <-> exists v : Version, render v = s.
Proof. exact is_valid_iff_grammar. Qed.
Print Assumptions C04_is_valid_iff_grammar.

Theorem C04_render_inj : forall v w : Version, render v = render w -> v = w.
Proof. exact render_inj. Qed.
Print Assumptions C04_render_inj.

Theorem C04_accessors_render :
  forall v : Version,
    major (render v) = render_major v /\
    major_minor (render v) = render_major_minor v /\
    prerelease (render v) = render_pre (v_pre v) /\
    build (render v) = render_build (v_build v) /\
    canonical (render v) = render_canonical v.
Proof. exact accessors_render. Qed.
Print Assumptions C04_accessors_render.

Theorem C04_accessors_invalid :
  forall s, is_valid s = false ->
    major s = [] /\ major_minor s = [] /\ prerelease s = [] /\ build s = [] /\ canonical s = []
    /\ canonical_version s = [].
Proof. exact accessors_invalid. Qed.
Print Assumptions C04_accessors_invalid.

Theorem C04_canonical_version_spec :
  forall v,
    (build v = B "+incompatible" -> canonical_version v = canonical v ++ B "+incompatible") /\
    (build v <> B "+incompatible" -> canonical_version v = canonical v).
Proof. exact canonical_version_spec. Qed.
Print Assumptions C04_canonical_version_spec.

Theorem C04_canonical_version_render :
  forall v : Version,
    canonical_version (render v) =
    render_canonical v ++ (if str_eqb (render_build (v_build v)) (B "+incompatible")
                           then B "+incompatible" else []).
Proof. exact canonical_version_render. Qed.
Print Assumptions C04_canonical_version_render.

(* non-vacuity: versions exist, in all three forms *)
Definition C04_v1 : Version :=
  mkVersion (mkV (B "1") (B "2") (B "3") Full [B "rc"; B "1"] [B "meta"; B "007"]) eq_refl.
Definition C04_v2 : Version := mkVersion (mkV (B "1") (B "2") (B "0") ShortMinor [] []) eq_refl.
Definition C04_v3 : Version := mkVersion (mkV (B "1") (B "0") (B "0") ShortMajor [] []) eq_refl.
Example C04_version_examples :
  render C04_v1 = B "v1.2.3-rc.1+meta.007" /\ render C04_v2 = B "v1.2" /\ render C04_v3 = B "v1" /\
  render_canonical C04_v2 = B "v1.2.0" /\ render_major_minor C04_v3 = B "v1.0".
Proof. repeat split; vm_compute; reflexivity. Qed.

(* ---- 4. Compare is SemVer 2.0.0 section 11 precedence ---------------------------------------- *)

Theorem C04_compare_spec :
  forall v w : Version, compare (render v) (render w) = Z_of_comparison (prec v w).
Proof. exact compare_spec. Qed.
Print Assumptions C04_compare_spec.

Example C04_prec_example :
  prec C04_v3 C04_v2 = Lt /\ prec C04_v1 C04_v2 = Gt /\
  prec (mkV (B "1") (B "0") (B "0") Full [B "alpha"; B "1"] [])
       (mkV (B "1") (B "0") (B "0") Full [B "alpha"; B "beta"] []) = Lt.
Proof. repeat split; vm_compute; reflexivity. Qed.

(* ---- 5. Sort ------------------------------------------------------------------------------------- *)

(* ByVersion.Less is a strict total order on ALL strings *)
Theorem C04_less_irrefl : forall a, less a a = false.
Proof. exact less_irrefl. Qed.
Print Assumptions C04_less_irrefl.

Theorem C04_less_trans : forall a b c, less a b = true -> less b c = true -> less a c = true.
Proof. exact less_trans. Qed.
Print Assumptions C04_less_trans.

Theorem C04_less_total : forall a b, a <> b -> less a b = true \/ less b a = true.
Proof. exact less_total. Qed.
Print Assumptions C04_less_total.

Theorem C04_sort_spec :
  forall l, Permutation l (sort l) /\ StronglySorted (fun a b => less b a = false) (sort l).
Proof. exact sort_spec. Qed.
Print Assumptions C04_sort_spec.

(* any sorted permutation of l is [sort l]: an unstable sorting algorithm has no freedom *)
Theorem C04_sort_unique :
  forall l l', Permutation l l' -> StronglySorted (fun a b => less b a = false) l' -> l' = sort l.
Proof. exact sort_unique. Qed.
Print Assumptions C04_sort_unique.

Example C04_sort_example :
  sort [B "v1.0.0"; B "bad"; B "v1.0"; B "v1.0.0-rc.1"; B "v0.9+x"]
  = [B "bad"; B "v0.9+x"; B "v1.0.0-rc.1"; B "v1.0"; B "v1.0.0"].
Proof. vm_compute; reflexivity. Qed.
