(* C04 — Version comparison is the SemVer 2.0.0 total preorder on the documented grammar.
   Property theorems only; each is closed by [exact] of a lemma proved elsewhere. *)
From Verif.Base Require Import Bytes.
From Verif.Semver Require Import Model Proofs.

Theorem C04_compare_refl : forall v, compare v v = 0.
Proof. exact compare_refl. Qed.
Print Assumptions C04_compare_refl.
