(* B01 — auxiliary check: the SERVER side of the checksum database (sumdb.Server over
   sumdb.TestServer) as modelled in Client/Server.v.  Property theorems only. *)
From Verif.Base Require Import Bytes.
From Verif.Gen Require Import GenRegex.
From Verif.Client Require Import Server.

Theorem B01_modVerRE_pinned :
  sumdb_modVerRE = B "^[^@]+@v[0-9]+\.[0-9]+\.[0-9]+(-[^@]*)?(\+incompatible)?$".
Proof. exact modVerRE_pinned. Qed.
Print Assumptions B01_modVerRE_pinned.
