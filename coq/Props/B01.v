(* B01 — auxiliary check: the SERVER side of the checksum database, sumdb.Server.ServeHTTP
   (server.go) over sumdb.TestServer (test.go), as modelled in Client/Server.v and tied to the
   implementation by the correspondence run of harness/props/b01.go (httptest, no network).
   Property theorems only; each is closed by [exact] of a lemma proved in Client/ServerProofs*.v.

   Reading guide
     serve ops st path         Server.ServeHTTP on r.URL.Path over abstract ServerOps with state st
     serve_test lh nh gosum sid Sg sgn st path    the same over TestServer (lh/nh = RecordHash/NodeHash,
                               gosum = the callback of NewTestServer, Sg/sgn = its note.Signer)
     HOk ct body | HStatus c | HPanic    200 + content type + body | an error status | the handler panicked
     HInv st                   the stored hashes of the TestServer are those of its records
     SInv st                   HInv and: every entry of the lookup table points to the record gosum gave
     tree_tile h N t           t is a tile (height h) of the tree of size N (NewTilesProofs.v)
     honest_tile T t           the true content of tile t for the range-hash function T (TileProofsHonest.v)
     range_hash lh nh recs     RFC 6962 hash of a range of the records (ProofsStore.v); mth = MTH (Spec6962.v) *)
From Coq Require Import List ZArith.
From Verif.Base Require Import Bytes Sha256 Strconv.
From Verif.Gen Require Import GenRegex.
From Verif.Tlog Require Import Index Tree Codec Tile TileReader Spec6962 ProofsStore ProofsCodec Sha.
From Verif.Tlog Require Import TileSpec TileProofsHonest TileProofsHonestRun TileProofsInst NewTilesProofs.
From Verif.Note Require Import Note.
From Verif.Module Require Import Escape.
From Verif.Client Require Import Seq SeqProofsSafe SeqProofsHonest.
From Verif.Client Require Import Server ServerProofs ServerProofsLookup ServerProofsWorld ServerProofsSha.

(* ---- 0. the regular expression the hand recogniser mod_ver_match implements ------------------- *)

Theorem B01_modVerRE_pinned :
  sumdb_modVerRE = B "^[^@]+@v[0-9]+\.[0-9]+\.[0-9]+(-[^@]*)?(\+incompatible)?$".
Proof. exact modVerRE_pinned. Qed.
Print Assumptions B01_modVerRE_pinned.

(* ---- 1. every path gets a response: ServeHTTP itself never panics --------------------------------- *)

Theorem B01_serve_total :
  forall (St : Type) (ops : server_ops St) (st : St) (path : str),
    (forall st, op_signed ops st <> OPanic) ->
    (forall st id n, op_read_records ops st id n <> OPanic) ->
    (forall st p v, fst (op_lookup ops st p v) <> OPanic) ->
    (forall st t, op_read_tile_data ops st t <> OPanic) ->
    fst (serve ops st path) <> HPanic.
Proof. intros St ops st path H1 H2 H3 H4. apply serve_total. repeat split; assumption. Qed.
Print Assumptions B01_serve_total.

(* ---- 2. the TestServer invariant ---------------------------------------------------------------------- *)

(* kept by every request; the log only grows, by at most one record per request *)
Theorem B01_serve_test_inv :
  forall leaf_hash node_hash gosum sid Sg sgn st path,
    SInv leaf_hash node_hash gosum st -> zlen (ts_records st) + 1 < 2 ^ 62 ->
    SInv leaf_hash node_hash gosum (snd (serve_test leaf_hash node_hash gosum sid Sg sgn st path)) /\
    (snd (serve_test leaf_hash node_hash gosum sid Sg sgn st path) = st \/
     exists data, ts_records (snd (serve_test leaf_hash node_hash gosum sid Sg sgn st path)) = ts_records st ++ [data]).
Proof. exact serve_test_inv. Qed.
Print Assumptions B01_serve_test_inv.

(* hence it holds in every state reachable from NewTestServer by serving requests *)
Theorem B01_reachable_inv :
  forall leaf_hash node_hash gosum sid Sg sgn st,
    reachable leaf_hash node_hash gosum sid Sg sgn st -> zlen (ts_records st) + 1 < 2 ^ 62 ->
    SInv leaf_hash node_hash gosum st.
Proof. exact reachable_inv. Qed.
Print Assumptions B01_reachable_inv.

(* ---- 3. tiles ------------------------------------------------------------------------------------------ *)

(* GET /<Tile.Path()> of any tile of the current tree returns exactly ReadTileData over the store of
   the current records, which is the honest tile content *)
Theorem B01_serve_tile_honest :
  forall leaf_hash node_hash gosum sid Sg sgn st h t,
    HInv leaf_hash node_hash st -> zlen (ts_records st) < 2 ^ 62 -> 1 <= h <= 30 ->
    tree_tile h (zlen (ts_records st)) t ->
    serve_test leaf_hash node_hash gosum sid Sg sgn st (47 :: tile_path t)
    = (HOk COctet (honest_tile (range_hash leaf_hash node_hash (ts_records st)) t), st) /\
    read_tile_data t (reader_of (store_of leaf_hash node_hash (ts_records st)))
    = TOk (honest_tile (range_hash leaf_hash node_hash (ts_records st)) t).
Proof. exact serve_tile_honest. Qed.
Print Assumptions B01_serve_tile_honest.

(* the same for every width the tree can supply (tiles planned for smaller signed sizes) *)
Theorem B01_serve_tile_servable :
  forall leaf_hash node_hash gosum sid Sg sgn st h t,
    HInv leaf_hash node_hash st -> zlen (ts_records st) < 2 ^ 62 -> 1 <= h <= 30 ->
    tH t = h -> 0 <= tL t -> 0 <= tN t -> 1 <= tW t <= 2 ^ h ->
    tN t * 2 ^ h + tW t <= zlen (ts_records st) / 2 ^ (h * tL t) ->
    serve_test leaf_hash node_hash gosum sid Sg sgn st (47 :: tile_path t)
    = (HOk COctet (honest_tile (range_hash leaf_hash node_hash (ts_records st)) t), st).
Proof.
  intros lh nh gosum sid Sg sgn st h t HI Hlen Hh A B C D E.
  apply (serve_tile_servable lh nh gosum sid Sg sgn st h t HI Hlen Hh). repeat split; assumption || apply D.
Qed.
Print Assumptions B01_serve_tile_servable.

(* with SHA-256: the server is a tile publisher for which the C10 tile hash reader succeeds with the
   true hashes, for every index of the current tree *)
Theorem B01_server_readers_succeed :
  forall gosum sid Sg sgn st h ix,
    HInv record_hash node_hash_sha st -> 0 < zlen (ts_records st) < 2 ^ 62 -> 1 <= h <= 30 ->
    Forall (fun x => 0 <= x < stored_hash_index 0 (zlen (ts_records st))) ix ->
    exists sv,
      tile_read_hashes node_hash_sha
        (zlen (ts_records st), mth node_hash_sha (map record_hash (ts_records st))) h ix
        (server_tile_reader gosum sid Sg sgn st)
      = (TOk (map (true_hash (sha_range (ts_records st))) ix), Some sv).
Proof. exact server_readers_succeed. Qed.
Print Assumptions B01_server_readers_succeed.

(* data tiles: the record texts, each followed by a newline *)
Theorem B01_serve_data_tile_honest :
  forall leaf_hash node_hash gosum sid Sg sgn st h n w,
    1 <= h <= 30 -> 0 <= n -> 1 <= w <= 2 ^ h -> n * 2 ^ h + w <= zlen (ts_records st) ->
    zlen (ts_records st) < 2 ^ 62 ->
    Forall (fun t => is_valid_record_text t = true) (slice (ts_records st) (n * 2 ^ h) w) ->
    serve_test leaf_hash node_hash gosum sid Sg sgn st (47 :: tile_path (mkTile h (-1) n w))
    = (HOk CText (concat (map (fun t => t ++ [10]) (slice (ts_records st) (n * 2 ^ h) w))), st).
Proof. exact serve_data_tile_honest. Qed.
Print Assumptions B01_serve_data_tile_honest.

(* FINDING (test server): a well-formed hash tile reaching outside the stored hashes makes
   TestServer.ReadTileData panic (testHashes.ReadHashes indexes its slice unchecked) *)
Theorem B01_serve_tile_out_of_range_panics :
  forall leaf_hash node_hash gosum sid Sg sgn st t,
    valid_tile t -> 0 <= tL t ->
    read_tile_data t (reader_of (ts_hashes st)) = TErr TEReader ->
    serve_test leaf_hash node_hash gosum sid Sg sgn st (47 :: tile_path t) = (HPanic, st).
Proof. exact serve_tile_out_of_range_panics. Qed.
Print Assumptions B01_serve_tile_out_of_range_panics.

Example B01_panic_example :
  serve_test record_hash node_hash_sha (fun _ _ => ONotExist) unit (fun _ _ => None)
             {| sg_name := B "s"; sg_hash := 1; sg_id := tt |} tstate0 (B "/tile/8/0/000")
  = (HPanic, tstate0).
Proof. vm_compute. reflexivity. Qed.

(* ---- 4. /latest and /lookup ------------------------------------------------------------------------------ *)

(* hypotheses on hashes and on the server's key pair, shared by the theorems below *)
Definition hashes_ok (leaf_hash : str -> hash) (node_hash : hash -> hash -> hash) : Prop :=
  (forall r, is_hash (leaf_hash r)) /\ (forall a b, is_hash (node_hash a b)).

Definition keypair_ok (sid : Type) (Sg : sid -> str -> option str) (sgn : signer sid)
           (vid : Type) (V : vid -> str -> str -> bool) (vs : verifiers vid) : Prop :=
  is_valid_name (sg_name sgn) = true /\ Forall (fun b => 32 <= b) (sg_name sgn) /\ 0 <= sg_hash sgn < 2 ^ 32 /\
  (forall text, exists sig, Sg (sg_id sgn) text = Some sig /\ sig <> [] /\ Forall (fun b => 0 <= b < 256) sig) /\
  (forall k l v, In (k, l) vs -> In v l -> (v_name v, v_hash v) = k) /\
  (exists ver, Note.lookup vid vs (sg_name sgn) (sg_hash sgn) = LUnique ver /\
               forall text sig, Sg (sg_id sgn) text = Some sig -> V (v_id ver) text sig = true).

(* GET /latest: a note that opens under the client's verifiers to FormatTree(size, MTH of the records),
   which parses back to that tree *)
Theorem B01_serve_latest_honest :
  forall leaf_hash node_hash gosum sid Sg sgn vid V vs st,
    hashes_ok leaf_hash node_hash -> keypair_ok sid Sg sgn vid V vs ->
    HInv leaf_hash node_hash st -> zlen (ts_records st) < 2 ^ 62 ->
    exists msg nt,
      serve_test leaf_hash node_hash gosum sid Sg sgn st (B "/latest") = (HOk CText msg, st) /\
      Note.open vid V msg vs = Note.Ok nt /\
      n_text nt = format_tree (Tree (zlen (ts_records st)) (mth node_hash (map leaf_hash (ts_records st)))) /\
      parse_tree (n_text nt) = Index.Ok (Tree (zlen (ts_records st)) (mth node_hash (map leaf_hash (ts_records st)))).
Proof.
  intros lh nh gosum sid Sg sgn vid V vs st [Hl Hn] (K1 & K2 & K3 & K4 & K5 & K6) HI Hlen.
  destruct (serve_latest_honest lh nh gosum sid Sg sgn vid V vs Hl Hn K1 K2 K3 K4 K5 K6 st HI Hlen)
    as (msg & E & nt & H1 & H2 & H3).
  exists msg, nt. auto.
Qed.
Print Assumptions B01_serve_latest_honest.

(* GET /lookup/EP@EV for a module version M@V that gosum knows (valid record text): the body is
   FormatRecord(id, text) ++ signed note; ParseRecord gives (id, text, note); text is gosum's data for M@V;
   the note opens to the tree head (size, MTH) of the records AFTER the request, which include the
   record (id < size, records[id] = text); the log grew by this record or not at all *)
Theorem B01_serve_lookup_honest :
  forall leaf_hash node_hash gosum sid Sg sgn vid V vs st ep ev M Vv text,
    hashes_ok leaf_hash node_hash -> keypair_ok sid Sg sgn vid V vs ->
    SInv leaf_hash node_hash gosum st -> zlen (ts_records st) + 1 < 2 ^ 62 ->
    ~ In 64 ep -> mod_ver_match (ep ++ 64 :: ev) = true ->
    unescape_path ep = EOk M -> unescape_version ev = EOk Vv ->
    gosum M Vv = OOk text -> is_valid_record_text text = true ->
    exists id st' signed nt,
      serve_test leaf_hash node_hash gosum sid Sg sgn st (B "/lookup/" ++ ep ++ 64 :: ev)
      = (HOk CText (format_int id ++ [10] ++ text ++ [10] ++ signed), st') /\
      SInv leaf_hash node_hash gosum st' /\
      (st' = st \/ ts_records st' = ts_records st ++ [text]) /\
      parse_record (format_int id ++ [10] ++ text ++ [10] ++ signed) = Index.Ok (id, text, signed) /\
      0 <= id < zlen (ts_records st') /\ nth_error (ts_records st') (Z.to_nat id) = Some text /\
      Note.open vid V signed vs = Note.Ok nt /\
      parse_tree (n_text nt) = Index.Ok (Tree (zlen (ts_records st')) (mth node_hash (map leaf_hash (ts_records st')))).
Proof.
  intros lh nh gosum sid Sg sgn vid V vs st ep ev M Vv text [Hl Hn] (K1 & K2 & K3 & K4 & K5 & K6)
         HI Hlen Hep Hm Hup Huv Hg Hvalid.
  destruct (serve_lookup_honest lh nh gosum sid Sg sgn vid V vs Hl Hn K1 K2 K3 K4 K5 K6
              st ep ev M Vv text HI Hlen Hep Hm Hup Huv Hg Hvalid)
    as (id & st' & signed & E & HI' & Hst & Hp & Hid & Hnth & nt & H1 & _ & H3).
  exists id, st', signed, nt. repeat (split; [assumption|]). exact H3.
Qed.
Print Assumptions B01_serve_lookup_honest.

(* ---- 5. composition with the sequential client model ------------------------------------------------------ *)

(* the world whose remote is the modelled server (with a gosum backend that knows no further
   modules, so that it answers from the fixed log of st) is an honest world of SeqProofsHonest.v *)
Theorem B01_frozen_world_honest :
  forall sha leaf_hash node_hash gosum sid Sg sgn V vs name st cfg h,
    hashes_ok leaf_hash node_hash -> keypair_ok sid Sg sgn str V vs ->
    SInv leaf_hash node_hash gosum st -> 0 < zlen (ts_records st) < 2 ^ 62 -> 1 <= h <= 30 ->
    (exists cm, assoc (latest_file name) cfg = Some cm /\
                honest_msg V (range_hash leaf_hash node_hash (ts_records st)) (zlen (ts_records st)) vs cm) ->
    (exists k hash key, assoc (B "key") cfg = Some k /\
       parse_verifier_key sha (trim_space k) = KOk (name, hash, key) /\
       verifier_list str [ {| v_name := name; v_hash := hash; v_id := key |} ] = vs) ->
    HonestWorld sha leaf_hash V (range_hash leaf_hash node_hash (ts_records st)) (zlen (ts_records st)) h vs name
                (frozen_world leaf_hash node_hash sid Sg sgn st cfg).
Proof.
  intros sha lh nh gosum sid Sg sgn V vs name st cfg h [Hl Hn] (K1 & K2 & K3 & K4 & K5 & K6).
  exact (frozen_world_honest sha lh nh gosum sid Sg sgn V vs name Hl Hn K1 K2 K3 K4 K5 K6 st cfg h).
Qed.
Print Assumptions B01_frozen_world_honest.

(* END TO END: Client.Lookup (Client/Seq.v) against Server.ServeHTTP over TestServer (Client/Server.v),
   with module.EscapePath/EscapeVersion as the client's escaping: never a security error; a lookup
   that is not memoised yields the go.sum lines of an honest record or a remote error; and when the
   server has the module version recorded (valid text, version accepted by modVerRE) it yields the lines *)
Theorem B01_client_over_server :
  forall sha leaf_hash node_hash gosum sid Sg sgn V vs name st cfg h skip c path vers r evs w' c',
    hashes_ok leaf_hash node_hash -> keypair_ok sid Sg sgn str V vs ->
    SInv leaf_hash node_hash gosum st -> 0 < zlen (ts_records st) < 2 ^ 62 -> 1 <= h <= 30 ->
    (exists cm, assoc (latest_file name) cfg = Some cm /\
                honest_msg V (range_hash leaf_hash node_hash (ts_records st)) (zlen (ts_records st)) vs cm) ->
    (exists k hash key, assoc (B "key") cfg = Some k /\
       parse_verifier_key sha (trim_space k) = KOk (name, hash, key) /\
       verifier_list str [ {| v_name := name; v_hash := hash; v_id := key |} ] = vs) ->
    let T := range_hash leaf_hash node_hash (ts_records st) in
    let N := zlen (ts_records st) in
    let esc_p := fun p => match escape_path p with EOk e => Some e | EErr _ => None end in
    let esc_v := fun v => match escape_version v with EOk e => Some e | EErr _ => None end in
    GoodClient leaf_hash V T N h vs name c ->
    Seq.lookup sha leaf_hash node_hash V esc_p esc_v skip
               (frozen_world leaf_hash node_hash sid Sg sgn st cfg) c path vers = (r, evs, w', c') ->
    r <> LErr ESecurity /\ Forall nosec evs /\
    HonestWorld sha leaf_hash V T N h vs name w' /\ GoodClient leaf_hash V T N h vs name c' /\
    forall ep ev, skip path = false -> escape_path path = EOk ep ->
      escape_version (trim_suffix vers go_mod_suffix) = EOk ev ->
      (c_init c = None \/ rec_find (name ++ B "/lookup/" ++ ep ++ [64] ++ ev) (c_records c) = None) ->
      ((exists data, r = LOk (result_lines path vers data) /\ honest_record leaf_hash V T N vs data) \/
       r = LErr ERemote) /\
      (forall id text, mod_ver_match (ep ++ 64 :: ev) = true ->
         find_key (version_string path (trim_suffix vers go_mod_suffix)) (ts_lookup st) = Some id ->
         nth_error (ts_records st) (Z.to_nat id) = Some text -> is_valid_record_text text = true ->
         exists data, r = LOk (result_lines path vers data) /\ honest_record leaf_hash V T N vs data).
Proof.
  intros sha lh nh gosum sid Sg sgn V vs name st cfg h skip c path vers r evs w' c' [Hl Hn] (K1 & K2 & K3 & K4 & K5 & K6).
  exact (client_over_server sha lh nh gosum sid Sg sgn V vs name Hl Hn K1 K2 K3 K4 K5 K6 st cfg h skip c path vers r evs w' c').
Qed.
Print Assumptions B01_client_over_server.

(* ---- 6. the hypotheses are satisfiable ---------------------------------------------------------------------- *)

(* SHA-256 record and node hashes *)
Example B01_hashes_ok_sha256 : hashes_ok record_hash node_hash_sha.
Proof. split; [exact record_hash_is_hash | exact node_hash_sha_is_hash]. Qed.

(* a (toy) key pair: one verifier registered under the signer's name and key hash, accepting its
   signatures *)
Example B01_keypair_ok_example :
  keypair_ok unit (fun _ _ => Some [1]) {| sg_name := B "s"; sg_hash := 7; sg_id := tt |}
             str (fun _ _ sig => str_eqb sig [1])
             (verifier_list str [ {| v_name := B "s"; v_hash := 7; v_id := [] |} ]).
Proof.
  unfold keypair_ok. cbn [sg_name sg_hash sg_id].
  split; [vm_compute; reflexivity|].
  split; [repeat constructor; vm_compute; discriminate|].
  split; [lia|].
  split; [intros text; exists [1]; split; [reflexivity|]; split; [discriminate|]; repeat constructor; lia|].
  split.
  - intros k l v Hin Hv. vm_compute in Hin. destruct Hin as [[= <- <-]|[]].
    destruct Hv as [<-|[]]. reflexivity.
  - eexists. split; [vm_compute; reflexivity|]. intros text sig [= <-]. reflexivity.
Qed.
