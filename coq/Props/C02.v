(* C02 — Formatting a go.mod/go.work file preserves its meaning and is idempotent.
   Property theorems only.

   [parse] is the model of the syntax-only parser, [format] of modfile.Format
   (Modfile/Print.v, byte-identical to the implementation on every correspondence case),
   [events s] the event stream of a tree (Modfile/ProofsRound.v): the statements in order,
   each with its tokens, interleaved with the comment texts after TrimSpace in the order
   the printer visits them.

   Proved for EVERY input (no bound on length or alphabet; the input may even contain
   numbers that are not bytes):
     C02_format_reparse_same, C02_format_idempotent   (Modfile/Round*.v)
   The proof goes through a position-free description of the parser: the token stream is
   cut into rows (RoundRows.v), [group] attaches every end-of-line comment to the node of
   its row, and C02_parse_is_group states that the parser of read.go with its comment
   assignment by byte position computes exactly that (on every input).

   format_preserves_directives is proved for go.mod (Parse) and go.work (ParseWork), without
   and with a version fixer (any fixer that is idempotent and does not accept a parenthesis
   or deliver an empty version): C02_format_preserves_directives,
   C02_format_preserves_directives_mod (fix == nil), C02_format_preserves_directives_work. *)
From Verif.Base Require Import Bytes Strconv QuoteProofs.
From Verif.Semver Require Import Model.
From Verif.Modfile Require Import Syntax Lex Parse Print Directives ProofsLexNoLF ProofsRound
  RoundRows RoundParse RoundLexPure4 RoundMain1 RoundMain3 RoundTree RoundQuote RoundDir1 RoundDir2 RoundDir3 RoundDir6
  RoundDir7 RoundDir13 RoundWork.

(* format_reparse_same: the formatted output of an accepted input is accepted again and
   has the same statements, tokens and comment texts in the same order *)
Theorem C02_format_reparse_same : forall data s, parse data = POk s ->
  exists s', parse (format s) = POk s' /\ events s' = events s.
Proof. exact format_reparse_same. Qed.
Print Assumptions C02_format_reparse_same.

(* format_idempotent: formatting the formatted output again changes nothing *)
Theorem C02_format_idempotent : forall data s s', parse data = POk s ->
  parse (format s) = POk s' -> format s' = format s.
Proof. exact format_idempotent. Qed.
Print Assumptions C02_format_idempotent.

(* the parser with its position-based comment assignment is the position-free [group] on
   the rows of the token stream: the tree without positions ([zfile]) is the embedding
   ([efile]) of what [group] delivers.  (This is why attachment can be reasoned about
   without byte offsets; RoundParse5.v, RoundMain1.v.) *)
Theorem C02_parse_is_group : forall data s, parse data = POk s ->
  exists ts a, lex data = (ts, LEnd) /\ group_file (arows [] ts) = Some a /\ zfile s = efile a.
Proof.
  intros data s H. destruct (parse_group data s H) as (ts & a & A & _ & _ & B & C). exists ts, a. auto.
Qed.
Print Assumptions C02_parse_is_group.

(* and conversely: whenever the rows of the token stream group, the parser accepts *)
Theorem C02_group_is_parse : forall data ts a, lex data = (ts, LEnd) ->
  group_file (arows [] ts) = Some a -> exists s, parse data = POk s /\ zfile s = efile a.
Proof. exact group_parse. Qed.
Print Assumptions C02_group_is_parse.

(* ---------------------------------------------------------------- directive values

   format_preserves_directives, for go.mod and fix == nil (Modfile/RoundQuote.v, RoundDir*.v):
   if the strict parser accepts data as f and the values of f are well formed,

     wf_file f :=  the module path, every require/exclude/replace/tool path p satisfies
                     path_ok p := p is a byte string, p <> "" and p is not a lone ( ) [ ] { } ,
                   every require/exclude version and every retract bound is a valid semver
                     (Semver.Model.is_valid), every replace version is "" or valid,

   then the strict parser accepts Format(f.Syntax) (the tree with the rewritten tokens:
   AutoQuote'd paths, canonical versions) and delivers the same values

     vals f := (module path, version, Deprecated; go; toolchain; godebug key/value;
                require path/version/Indirect; exclude; replace old/new path and version;
                retract low/high/Rationale; tool)       -- everything but the Syntax pointers.

   The comment-derived values (Indirect, Deprecated, Rationale) are included: the printer
   trims every comment, and RoundTrim2.v shows that neither strings.Fields nor TrimSpace
   of the comment body notices. *)
Theorem C02_format_preserves_directives_mod : forall data f,
  parse_to_file true None data = DOk f -> wf_file f ->
  exists f', parse_to_file true None (format (fd_syntax f)) = DOk f' /\ vals f' = vals f.
Proof. exact format_preserves_directives_mod. Qed.
Print Assumptions C02_format_preserves_directives_mod.

(* format_preserves_directives with a version fixer.  [fixer_ok fx] (RoundDir1.v): fx = nil, or
   fx can be applied to its own output (fix p x = y -> fix p y = y), never delivers an empty
   version and does not turn a parenthesis token into a version.
   - go.mod (Parse): every file, every such fixer.  Retract directives are read twice by
     parseToFile (File.add with dontFixRetract, then fixRetract through the Syntax pointers
     with the fixer); RoundDir8-13.v show that this is the statement loop with one combined
     step per retract line, for which the round trip is proved like for the other directives.
     wf_file f speaks of the final values only (the retract bounds after fixing).
   - go.work (ParseWork): every file, every such fixer.
       wf_work f := every use path is path_ok, every replace is well formed as above;
       valsW f   := go, toolchain, godebug, use path/module path, replace values. *)
Theorem C02_format_preserves_directives : forall fx data f, fixer_ok fx ->
  parse_to_file true fx data = DOk f -> wf_file f ->
  exists f', parse_to_file true fx (format (fd_syntax f)) = DOk f' /\ vals f' = vals f.
Proof. exact format_preserves_directives_mod_any. Qed.
Print Assumptions C02_format_preserves_directives.

Theorem C02_format_preserves_directives_work : forall fx data f, fixer_ok fx ->
  parse_work fx data = DOk f -> wf_work f ->
  exists f', parse_work fx (format (wf_syntax f)) = DOk f' /\ valsW f' = valsW f.
Proof. intros fx data f Hfx. exact (format_preserves_directives_work fx Hfx data f). Qed.
Print Assumptions C02_format_preserves_directives_work.

(* non-vacuity: a go.work file with a quoted directory, accepted and well formed; and a sane
   fixer other than nil: canonicalise valid versions, reject everything else *)
Example C02_work_example :
  exists f, parse_work None (B "go 1.21
use ""./my dir""
replace example.com/a => ../a
") = DOk f /\ length (wf_use f) = 1%nat /\ length (wf_replace f) = 1%nat.
Proof. eexists. split; [vm_compute; reflexivity|split; reflexivity]. Qed.

Definition canon_fixer : fixer :=
  Some (fun _ v => if Parse.is_nil (canonical_version v) then None else Some (canonical_version v)).

Example C02_canon_fixer_ok : fixer_ok canon_fixer.
Proof.
  split; cbn; intros p x y H.
  - destruct (Parse.is_nil (canonical_version x)) eqn:E; [discriminate|]. injection H as <-.
    rewrite RoundSemver.canonical_version_idem, E. reflexivity.
  - destruct (Parse.is_nil (canonical_version x)) eqn:E; [discriminate|]. injection H as <-.
    split; [|split].
    + destruct (is_lp x) eqn:El; [|reflexivity]. apply is_lp_eq in El. subst x. discriminate.
    + destruct (is_rp x) eqn:Er; [|reflexivity]. apply is_rp_eq in Er. subst x. discriminate.
    + destruct (canonical_version x); [discriminate|discriminate].
Qed.

(* ... and a go.mod file whose retract directives that fixer rewrites (a block, a quoted
   bound, an interval): accepted, with valid bounds *)
Example C02_fixer_retract_example :
  exists f, parse_to_file true canon_fixer (B "module example.com/m
retract (
	v1.0 // broken
	[""v1.1"", v1.2.0]
)
retract v2
") = DOk f /\
  map (fun r => (rt_low r, rt_high r)) (fd_retract f) =
    [(B "v1.0.0", B "v1.0.0"); (B "v1.1.0", B "v1.2.0"); (B "v2.0.0", B "v2.0.0")] /\
  forallb (fun r => is_valid (rt_low r) && is_valid (rt_high r)) (fd_retract f) = true.
Proof. eexists. split; [vm_compute; reflexivity|split; vm_compute; reflexivity]. Qed.

(* autoquote_is_one_token: for a byte string u that is not empty and not a lone punctuation
   character, AutoQuote(u) is the text of one token of the lexer that is not a parenthesis
   ([ltext]: it was delivered as a token in some context, hence is delivered again behind
   white space and in front of a space, line feed or closing bracket: RoundLexB2.relex_tok),
   and parseString reads u back from it and stores the same token again.  Uses
   strconv's unquote (quote u) = u and the shape of quote u (Base/QuoteProofs.v). *)
Theorem C02_autoquote_is_one_token : forall u, Forall byte u -> u <> [] -> not_lone u ->
  ltext (auto_quote u) /\ parse_string (auto_quote u) = Some (u, auto_quote u) /\
  is_lp (auto_quote u) = false /\ is_rp (auto_quote u) = false.
Proof. exact auto_quote_token. Qed.
Print Assumptions C02_autoquote_is_one_token.

(* non-vacuity: a file with quoted paths, a version to canonicalise, an indirect marker and
   a retract rationale is accepted and well formed *)
Example C02_directives_example :
  exists f, parse_to_file true None (B "module ""example.com/m""
require example.com/a v1.2 // indirect
retract v1.0.0 // broken
") = DOk f /\ length (fd_require f) = 1%nat /\ length (fd_retract f) = 1%nat.
Proof. eexists. split; [vm_compute; reflexivity|split; reflexivity]. Qed.

(* ... and it satisfies the hypotheses of the theorem *)
Example C02_directives_example_wf :
  exists f, parse_to_file true None (B "module ""example.com/m""
require example.com/a v1.2 // indirect
retract v1.0.0 // broken
") = DOk f /\ wf_file f.
Proof.
  eexists. split; [vm_compute; reflexivity|].
  assert (Hp : forall p, (2 <= length p)%nat -> Forall byte p -> path_ok p).
  { intros p Hl Hb. split; [exact Hb|]. split; [destruct p; [cbn in Hl; lia|discriminate]|].
    intros c E. rewrite E in Hl. cbn in Hl. lia. }
  unfold wf_file. cbn [fd_module fd_require fd_exclude fd_replace fd_retract fd_tool md_mod mv_path].
  split; [apply Hp; [cbn; lia|repeat constructor; unfold byte; lia]|].
  split; [constructor; [|constructor]; split; [apply Hp; [cbn; lia|repeat constructor; unfold byte; lia]|vm_compute; reflexivity]|].
  split; [constructor|]. split; [constructor|].
  split; [constructor; [|constructor]; split; vm_compute; reflexivity|constructor].
Qed.

(* the round trip on all short inputs, evaluated by the kernel (kept from the first
   build; now a special case of the two theorems above) *)
Theorem C02_format_round_trip_partial : forall data s,
  (length data <= 5)%nat -> Forall (fun c => In c small_alphabet) data ->
  parse data = POk s ->
  exists s', parse (format s) = POk s' /\ events s' = events s /\ format s' = format s.
Proof. exact format_round_trip_small. Qed.
Print Assumptions C02_format_round_trip_partial.

(* lex_tokens_no_lf: no identifier, string or punctuation token delivered by the lexer
   contains a line feed (so every Line of a parsed tree starts and ends on one line and the
   comment assignment never skips it; this is what failed before /repo a2ca708) *)
Theorem C02_lex_tokens_no_lf : forall data,
  Forall (fun t => line_token_kind (t_kind t) = true -> ~ In 10 (t_text t)) (fst (lex data)).
Proof. exact lex_tokens_no_lf. Qed.
Print Assumptions C02_lex_tokens_no_lf.

(* non-vacuity: a block with comments in every position is accepted, and formatting moves
   nothing: "x ( // a" LF "// b" LF "y // c" LF ") // d" LF *)
Example C02_round_trip_example :
  exists s, parse (B "x ( // a" ++ [10] ++ B "// b" ++ [10] ++ B "y // c" ++ [10] ++ B ") // d" ++ [10]) = POk s /\
            format s = B "x ( // a" ++ [10; 9] ++ B "// b" ++ [10; 9] ++ B "y // c" ++ [10] ++ B ") // d" ++ [10].
Proof. eexists. split; [vm_compute; reflexivity|vm_compute; reflexivity]. Qed.

(* the documented case in which attachment legitimately moves: in "x ( ) // c" the comment
   hangs on the block; after formatting ("x (" LF ") // c") it hangs on the closing
   parenthesis.  The event streams agree. *)
Example C02_attachment_moves :
  exists s s', parse (B "x ( ) // c") = POk s /\ parse (format s) = POk s' /\
    s' <> s /\ zfile s' <> zfile s /\ events s' = events s.
Proof.
  eexists. eexists. split; [vm_compute; reflexivity|]. split; [vm_compute; reflexivity|].
  split; [discriminate|]. split; [discriminate|]. vm_compute. reflexivity.
Qed.
