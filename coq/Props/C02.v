(* C02 — Formatting a go.mod/go.work file preserves its meaning and is idempotent.
   Property theorems only.

   [parse] is the model of the syntax-only parser, [format] of modfile.Format
   (Modfile/Print.v, byte-identical to the implementation on every correspondence case),
   [events s] the event stream of a tree (Modfile/ProofsRound.v): the statements in order,
   each with its tokens, interleaved with the comment texts after TrimSpace in the order
   the printer visits them.

   Proved for EVERY input (no bound on length or alphabet; the input may even contain
   numbers that are not bytes):
     C02_format_reparse_same, C02_format_idempotent   (Modfile/Round*.v)
   The proof goes through a position-free description of the parser: the token stream is
   cut into rows (RoundRows.v), [group] attaches every end-of-line comment to the node of
   its row, and C02_parse_is_group states that the parser of read.go with its comment
   assignment by byte position computes exactly that (on every input). *)
From Verif.Base Require Import Bytes.
From Verif.Modfile Require Import Syntax Lex Parse Print ProofsLexNoLF ProofsRound
  RoundRows RoundParse RoundLexPure4 RoundMain1 RoundMain3.

(* format_reparse_same: the formatted output of an accepted input is accepted again and
   has the same statements, tokens and comment texts in the same order *)
Theorem C02_format_reparse_same : forall data s, parse data = POk s ->
  exists s', parse (format s) = POk s' /\ events s' = events s.
Proof. exact format_reparse_same. Qed.
Print Assumptions C02_format_reparse_same.

(* format_idempotent: formatting the formatted output again changes nothing *)
Theorem C02_format_idempotent : forall data s s', parse data = POk s ->
  parse (format s) = POk s' -> format s' = format s.
Proof. exact format_idempotent. Qed.
Print Assumptions C02_format_idempotent.

(* the parser with its position-based comment assignment is the position-free [group] on
   the rows of the token stream: the tree without positions ([zfile]) is the embedding
   ([efile]) of what [group] delivers.  (This is why attachment can be reasoned about
   without byte offsets; RoundParse5.v, RoundMain1.v.) *)
Theorem C02_parse_is_group : forall data s, parse data = POk s ->
  exists ts a, lex data = (ts, LEnd) /\ group_file (arows [] ts) = Some a /\ zfile s = efile a.
Proof.
  intros data s H. destruct (parse_group data s H) as (ts & a & A & _ & _ & B & C). exists ts, a. auto.
Qed.
Print Assumptions C02_parse_is_group.

(* and conversely: whenever the rows of the token stream group, the parser accepts *)
Theorem C02_group_is_parse : forall data ts a, lex data = (ts, LEnd) ->
  group_file (arows [] ts) = Some a -> exists s, parse data = POk s /\ zfile s = efile a.
Proof. exact group_parse. Qed.
Print Assumptions C02_group_is_parse.

(* the round trip on all short inputs, evaluated by the kernel (kept from the first
   build; now a special case of the two theorems above) *)
Theorem C02_format_round_trip_partial : forall data s,
  (length data <= 5)%nat -> Forall (fun c => In c small_alphabet) data ->
  parse data = POk s ->
  exists s', parse (format s) = POk s' /\ events s' = events s /\ format s' = format s.
Proof. exact format_round_trip_small. Qed.
Print Assumptions C02_format_round_trip_partial.

(* lex_tokens_no_lf: no identifier, string or punctuation token delivered by the lexer
   contains a line feed (so every Line of a parsed tree starts and ends on one line and the
   comment assignment never skips it; this is what failed before /repo a2ca708) *)
Theorem C02_lex_tokens_no_lf : forall data,
  Forall (fun t => line_token_kind (t_kind t) = true -> ~ In 10 (t_text t)) (fst (lex data)).
Proof. exact lex_tokens_no_lf. Qed.
Print Assumptions C02_lex_tokens_no_lf.

(* non-vacuity: a block with comments in every position is accepted, and formatting moves
   nothing: "x ( // a" LF "// b" LF "y // c" LF ") // d" LF *)
Example C02_round_trip_example :
  exists s, parse (B "x ( // a" ++ [10] ++ B "// b" ++ [10] ++ B "y // c" ++ [10] ++ B ") // d" ++ [10]) = POk s /\
            format s = B "x ( // a" ++ [10; 9] ++ B "// b" ++ [10; 9] ++ B "y // c" ++ [10] ++ B ") // d" ++ [10].
Proof. eexists. split; [vm_compute; reflexivity|vm_compute; reflexivity]. Qed.

(* the documented case in which attachment legitimately moves: in "x ( ) // c" the comment
   hangs on the block; after formatting ("x (" LF ") // c") it hangs on the closing
   parenthesis.  The event streams agree. *)
Example C02_attachment_moves :
  exists s s', parse (B "x ( ) // c") = POk s /\ parse (format s) = POk s' /\
    s' <> s /\ zfile s' <> zfile s /\ events s' = events s.
Proof.
  eexists. eexists. split; [vm_compute; reflexivity|]. split; [vm_compute; reflexivity|].
  split; [discriminate|]. split; [discriminate|]. vm_compute. reflexivity.
Qed.
