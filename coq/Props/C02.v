(* C02 — Formatting a go.mod/go.work file preserves its meaning and is idempotent.
   Property theorems only.

   [parse] is the model of the syntax-only parser, [format] of modfile.Format
   (Modfile/Print.v, byte-identical to the implementation on every correspondence case),
   [events s] the event stream of a tree (Modfile/ProofsRound.v): the statements in order,
   each with its tokens, interleaved with the comment texts after TrimSpace in the order
   the printer visits them.

   The full statements, NOT proved in Coq (the comment re-assignment by byte position on the
   printed text was not closed; neither was the lexer round trip lex (print_tokens ts) = ts
   it rests on):

     Theorem C02_format_reparse_same : forall data s, parse data = POk s ->
       exists s', parse (format s) = POk s' /\ events s' = events s.

     Theorem C02_format_idempotent : forall data s s', parse data = POk s ->
       parse (format s) = POk s' -> format s' = format s.

     Theorem C02_format_preserves_directives : forall fix data f,
       parse_to_file true fix data = DOk f -> well_formed f ->
       exists f', parse_to_file true fix (format (fd_syntax f)) = DOk f' /\ values f' = values f.
       (and the same for parse_work)

   They are decided on the implementation by the Go oracles format-reparse-same-events,
   format-idempotent, format-preserves-directives and autoquote-is-one-token of
   harness/props/c02.go on every generated input the parsers accept; the statements are
   meaningful for every accepted input because since /repo a2ca708 no token of the lexer
   contains a line feed (before that commit both were false: finding K7, repaired).

   Proved: both round-trip statements for EVERY input of at most five bytes over the
   alphabet [small_alphabet] (the letter a, space, line feed, both parentheses, slash,
   double quote, comma) — 37449 inputs evaluated by the kernel. *)
From Verif.Base Require Import Bytes.
From Verif.Modfile Require Import Syntax Lex Parse Print ProofsLexNoLF ProofsRound.

Theorem C02_format_round_trip_partial : forall data s,
  (length data <= 5)%nat -> Forall (fun c => In c small_alphabet) data ->
  parse data = POk s ->
  exists s', parse (format s) = POk s' /\ events s' = events s /\ format s' = format s.
Proof. exact format_round_trip_small. Qed.
Print Assumptions C02_format_round_trip_partial.

(* lex_tokens_no_lf: no identifier, string or punctuation token delivered by the lexer
   contains a line feed (so every Line of a parsed tree starts and ends on one line and the
   comment assignment never skips it; this is what failed before /repo a2ca708) *)
Theorem C02_lex_tokens_no_lf : forall data,
  Forall (fun t => line_token_kind (t_kind t) = true -> ~ In 10 (t_text t)) (fst (lex data)).
Proof. exact lex_tokens_no_lf. Qed.
Print Assumptions C02_lex_tokens_no_lf.

(* non-vacuity: a five-byte (empty) block is in the domain and is accepted *)
Example C02_round_trip_example :
  exists s, parse [97; 40; 10; 41; 10] = POk s /\ format s = [97; 32; 40; 10; 41; 10].
Proof. eexists. split; [vm_compute; reflexivity|vm_compute; reflexivity]. Qed.
