(* C02 — Formatting a go.mod/go.work file preserves its meaning and is idempotent.
   Property theorems only. *)
From Verif.Base Require Import Bytes.
From Verif.Modfile Require Import Syntax Lex Parse Print.
