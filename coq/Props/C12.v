(* C12 — property theorems only (see DESIGN.md); each closed by [exact] of a lemma proved in Zip/Proofs*.v. *)
From Verif.Base Require Import Bytes PathClean.
From Verif.Zip Require Import Check ProofsClass.

Theorem C12_placeholder_same_lists_refl : forall a, same_lists a a.
Proof. exact same_lists_refl. Qed.
Print Assumptions C12_placeholder_same_lists_refl.
