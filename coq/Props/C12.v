(* C12 — Extraction enforces every zip restriction and never writes outside its directory.
   Property theorems only; each is closed by [exact] of a lemma proved in Zip/Proofs*.v.

   Vocabulary (definitions in Zip/Check.v, Zip/Fs.v, Zip/Unzip.v, Zip/ProofsZip.v):
     check_zip mp mv zipsize entries = (report, error class)      zip.CheckZip / checkZip
     unzip fs dir mp mv zipsize entries = (outcome, events)       zip.Unzip; events are the
                                                                  file-system writes in order
     entry_rest prefix e      e.Name without the prefix "<mp>@<mv>/"
     entry_name n / entry_is_dir n    n without a trailing '/', and whether it had one
     entry_items prefix e     the paths collisionChecker registers for e: the entry's path and
                              every ancestor directory of it, as (path, is-directory) pairs
     file_entries prefix es   the entries that are files (non-empty rest, no trailing '/')
     abs_path ds              "/" ++ ds1 ++ "/" ++ ... ++ dsn
     good_elem e              e is non-empty, has no '/', and is neither "." nor ".." *)
From Verif.Base Require Import Bytes PathClean.
From Verif.Gen Require Import GenConsts.
From Verif.Module Require Import Path.
From Verif.Zip Require Import Check Fs Unzip ProofsPath ProofsColl ProofsZip ProofsUnzip ProofsUnzipTree.

(* If the zip check rejects the archive, Unzip fails and performs no file-system write. *)
Theorem C12_unzip_validates_before_writing :
  forall (s : fs) (dir mp mv : str) (zipsize : Z) (entries : list entry) (cf : checked) (e : zerr),
    check_zip mp mv zipsize entries = (cf, Some e) ->
    exists k, unzip s dir mp mv zipsize entries = (UzErr k, []).
Proof. exact unzip_validates_before_writing. Qed.
Print Assumptions C12_unzip_validates_before_writing.

(* Whether Unzip succeeds or fails, for a clean absolute target directory dir (other than
   "/"), the events split into the directory creations of MkdirAll(dir) (dir itself and its
   missing ancestors; none when dir exists) and events whose path is dir ++ "/" ++ rest with
   rest non-empty: nothing is created or written outside dir. *)
Theorem C12_unzip_confined :
  forall (s : fs) (dir mp mv : str) (zipsize : Z) (entries : list entry) (r : uz_result) (evs : list event),
    (exists ds, ds <> [] /\ Forall good_elem ds /\ dir = abs_path ds) ->
    unzip s dir mp mv zipsize entries = (r, evs) ->
    exists evs0 evs1, evs = evs0 ++ evs1 /\
      (evs0 = [] \/ mkdir_all (length dir) s dir = MkOk evs0) /\
      Forall (fun ev => exists rest, rest <> [] /\ ev_path ev = dir ++ 47 :: rest) evs1.
Proof. exact unzip_confined. Qed.
Print Assumptions C12_unzip_confined.

(* the fact behind confinement: an accepted file path joins below a clean absolute directory
   without escaping it *)
Theorem C12_check_file_path_no_escape :
  forall dir p,
    (exists ds, ds <> [] /\ Forall good_elem ds /\ dir = abs_path ds) ->
    check_file_path p = None ->
    filepath_join dir p = dir ++ 47 :: p.
Proof. exact check_file_path_no_escape. Qed.
Print Assumptions C12_check_file_path_no_escape.

(* Acceptance by the zip check implies every restriction of the property statement: the module
   path/version are valid and canonical, the archive file is within MaxZipFile, every entry
   has the module prefix and (unless it is the prefix alone) a path accepted by
   module.CheckFilePath that is clean; any two registered paths (entries and their ancestor
   directories) that are equal under case folding are the same directory (so: no two files
   equal under folding, no file that is also a directory); a file whose base name folds to
   go.mod is exactly "go.mod" at the root; declared sizes are non-negative, go.mod and LICENSE
   are within their limits, the total is within MaxZipFile; and Valid lists the file entries. *)
Theorem C12_checkzip_accepts_spec :
  forall (mp mv : str) (zipsize : Z) (es : list entry) (cf : checked),
    check_zip mp mv zipsize es = (cf, None) ->
    let prefix := zip_prefix mp mv in
    check_module mp mv = None /\ zipsize <= zip_MaxZipFile /\
    Forall (fun e =>
              has_prefix (e_name e) prefix = true /\
              (entry_rest prefix e = [] \/
               (let name := entry_name (entry_rest prefix e) in
                check_file_path name = None /\ path_clean name = name /\
                (entry_is_dir (entry_rest prefix e) = false ->
                   (equal_fold (path_base name) go_mod = true -> name = go_mod) /\
                   0 <= to_int64 (e_usize e) /\
                   (name = go_mod -> to_int64 (e_usize e) <= zip_MaxGoMod) /\
                   (name = B "LICENSE" -> to_int64 (e_usize e) <= zip_MaxLICENSE))))) es /\
    ForallOrdPairs (fun a b : str * bool =>
                      str_to_fold (fst a) = str_to_fold (fst b) ->
                      fst a = fst b /\ snd a = true /\ snd b = true)
                   (flat_map (entry_items prefix) es) /\
    0 <= total_size (file_entries prefix es) <= zip_MaxZipFile /\
    c_valid cf = map e_name (file_entries prefix es) /\ c_invalid cf = [] /\ c_sizeerr cf = false.
Proof. exact checkzip_accepts_spec. Qed.
Print Assumptions C12_checkzip_accepts_spec.

(* the fuel of the collision checker never runs out in checkZip *)
Theorem C12_check_zip_no_fuel :
  forall mp mv zipsize es, c_fuel (fst (check_zip mp mv zipsize es)) = false.
Proof. exact check_zip_no_fuel. Qed.
Print Assumptions C12_check_zip_no_fuel.

(* For a clean absolute target directory that is absent or empty (nothing exists below it;
   os.ReadDir reports no entries) and whose creation by MkdirAll is possible, extraction
   succeeds exactly when the zip check accepts the archive and every file entry's content has
   the size its header declares. *)
Theorem C12_unzip_ok_iff :
  forall (s : fs) (dir mp mv : str) (zipsize : Z) (es : list entry),
    (exists ds, ds <> [] /\ Forall good_elem ds /\ dir = abs_path ds) ->
    (forall q, (exists rest, rest <> [] /\ q = dir ++ 47 :: rest) -> fs_lookup s q = None) ->
    fs_has_children s dir = false ->
    (exists evs0, mkdir_all (length dir) s dir = MkOk evs0) ->
    ((exists evs, unzip s dir mp mv zipsize es = (UzOk, evs)) <->
     ((exists cf, check_zip mp mv zipsize es = (cf, None)) /\
      Forall (fun e => len (e_content e) = e_usize e) (file_entries (zip_prefix mp mv) es))).
Proof. exact unzip_ok_iff. Qed.
Print Assumptions C12_unzip_ok_iff.

(* On success the extracted tree equals the entries: dir is a directory; every file entry
   (prefix stripped) is a file below dir with the entry's content; every file below dir is such
   an entry; the directories below dir are exactly the proper ancestors of file entries
   (directory entries of the archive create nothing). *)
Theorem C12_unzip_tree_is_entries :
  forall (s : fs) (dir mp mv : str) (zipsize : Z) (es : list entry) (evs : list event),
    (exists ds, ds <> [] /\ Forall good_elem ds /\ dir = abs_path ds) ->
    (forall q, (exists rest, rest <> [] /\ q = dir ++ 47 :: rest) -> fs_lookup s q = None) ->
    fs_has_children s dir = false ->
    (exists evs0, mkdir_all (length dir) s dir = MkOk evs0) ->
    unzip s dir mp mv zipsize es = (UzOk, evs) ->
    let prefix := zip_prefix mp mv in
    let s' := apply_events s evs in
    fs_lookup s' dir = Some FDir /\
    (forall e, In e (file_entries prefix es) ->
       fs_lookup s' (dir ++ 47 :: entry_rest prefix e) = Some (FFile (e_content e))) /\
    (forall q c, (exists rest, rest <> [] /\ q = dir ++ 47 :: rest) -> fs_lookup s' q = Some (FFile c) ->
       exists e, In e (file_entries prefix es) /\ q = dir ++ 47 :: entry_rest prefix e /\ c = e_content e) /\
    (forall q, (exists rest, rest <> [] /\ q = dir ++ 47 :: rest) -> fs_lookup s' q = Some FDir ->
       exists e a b, In e (file_entries prefix es) /\ split_on 47 (entry_rest prefix e) = a ++ b /\
                     a <> [] /\ b <> [] /\ q = dir ++ 47 :: join_slash a) /\
    (forall e a b, In e (file_entries prefix es) -> split_on 47 (entry_rest prefix e) = a ++ b ->
       a <> [] -> b <> [] -> fs_lookup s' (dir ++ 47 :: join_slash a) = Some FDir).
Proof. exact unzip_tree_is_entries. Qed.
Print Assumptions C12_unzip_tree_is_entries.

(* non-vacuity of the hypotheses: an empty file system with only the root *)
Example C12_hypotheses_satisfiable :
  let s : fs := [(B "/", FDir)] in
  let dir := B "/w/t" in
  (exists ds, ds <> [] /\ Forall good_elem ds /\ dir = abs_path ds) /\
  fs_has_children s dir = false /\
  (exists evs0, mkdir_all (length dir) s dir = MkOk evs0) /\
  fst (unzip s dir (B "example.com/m") (B "v1.0.0") 100
         [mkEntry (B "example.com/m@v1.0.0/go.mod") 3 (B "abc") 0;
          mkEntry (B "example.com/m@v1.0.0/a/b.go") 2 (B "xy") 0]) = UzOk.
Proof.
  cbn zeta. split; [|split; [|split]].
  - exists [B "w"; B "t"]. split; [discriminate|]. split; [|reflexivity].
    repeat constructor; try discriminate; intros H; cbn in H; intuition discriminate.
  - vm_compute. reflexivity.
  - eexists. vm_compute. reflexivity.
  - vm_compute. reflexivity.
Qed.
