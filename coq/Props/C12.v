(* C12 — Extraction enforces every zip restriction and never writes outside its directory.
   Property theorems only; each is closed by [exact] of a lemma proved in Zip/Proofs*.v.

   Vocabulary (definitions in Zip/Check.v, Zip/Fs.v, Zip/Unzip.v, Zip/ProofsZip.v):
     check_zip mp mv zipsize entries = (report, error class)      zip.CheckZip / checkZip
     unzip fs dir mp mv zipsize entries = (outcome, events)       zip.Unzip; events are the
                                                                  file-system writes in order
     entry_rest prefix e      e.Name without the prefix "<mp>@<mv>/"
     entry_name n / entry_is_dir n    n without a trailing '/', and whether it had one
     entry_items prefix e     the paths collisionChecker registers for e: the entry's path and
                              every ancestor directory of it, as (path, is-directory) pairs
     file_entries prefix es   the entries that are files (non-empty rest, no trailing '/')
     abs_path ds              "/" ++ ds1 ++ "/" ++ ... ++ dsn
     good_elem e              e is non-empty, has no '/', and is neither "." nor ".." *)
From Verif.Base Require Import Bytes PathClean.
From Verif.Gen Require Import GenConsts.
From Verif.Module Require Import Path.
From Verif.Zip Require Import Check Fs Unzip ProofsPath ProofsColl ProofsZip ProofsUnzip.

(* If the zip check rejects the archive, Unzip fails and performs no file-system write. *)
Theorem C12_unzip_validates_before_writing :
  forall (s : fs) (dir mp mv : str) (zipsize : Z) (entries : list entry) (cf : checked) (e : zerr),
    check_zip mp mv zipsize entries = (cf, Some e) ->
    exists k, unzip s dir mp mv zipsize entries = (UzErr k, []).
Proof. exact unzip_validates_before_writing. Qed.
Print Assumptions C12_unzip_validates_before_writing.

(* Whether Unzip succeeds or fails, for a clean absolute target directory dir (other than
   "/"), the events split into the directory creations of MkdirAll(dir) (dir itself and its
   missing ancestors; none when dir exists) and events whose path is dir ++ "/" ++ rest with
   rest non-empty: nothing is created or written outside dir. *)
Theorem C12_unzip_confined :
  forall (s : fs) (dir mp mv : str) (zipsize : Z) (entries : list entry) (r : uz_result) (evs : list event),
    (exists ds, ds <> [] /\ Forall good_elem ds /\ dir = abs_path ds) ->
    unzip s dir mp mv zipsize entries = (r, evs) ->
    exists evs0 evs1, evs = evs0 ++ evs1 /\
      (evs0 = [] \/ mkdir_all (length dir) s dir = MkOk evs0) /\
      Forall (fun ev => exists rest, rest <> [] /\ ev_path ev = dir ++ 47 :: rest) evs1.
Proof. exact unzip_confined. Qed.
Print Assumptions C12_unzip_confined.

(* the fact behind confinement: an accepted file path joins below a clean absolute directory
   without escaping it *)
Theorem C12_check_file_path_no_escape :
  forall dir p,
    (exists ds, ds <> [] /\ Forall good_elem ds /\ dir = abs_path ds) ->
    check_file_path p = None ->
    filepath_join dir p = dir ++ 47 :: p.
Proof. exact check_file_path_no_escape. Qed.
Print Assumptions C12_check_file_path_no_escape.

(* Acceptance by the zip check implies every restriction of the property statement: the module
   path/version are valid and canonical, the archive file is within MaxZipFile, every entry
   has the module prefix and (unless it is the prefix alone) a path accepted by
   module.CheckFilePath that is clean; any two registered paths (entries and their ancestor
   directories) that are equal under case folding are the same directory (so: no two files
   equal under folding, no file that is also a directory); a file whose base name folds to
   go.mod is exactly "go.mod" at the root; declared sizes are non-negative, go.mod and LICENSE
   are within their limits, the total is within MaxZipFile; and Valid lists the file entries. *)
Theorem C12_checkzip_accepts_spec :
  forall (mp mv : str) (zipsize : Z) (es : list entry) (cf : checked),
    check_zip mp mv zipsize es = (cf, None) ->
    let prefix := zip_prefix mp mv in
    check_module mp mv = None /\ zipsize <= zip_MaxZipFile /\
    Forall (fun e =>
              has_prefix (e_name e) prefix = true /\
              (entry_rest prefix e = [] \/
               (let name := entry_name (entry_rest prefix e) in
                check_file_path name = None /\ path_clean name = name /\
                (entry_is_dir (entry_rest prefix e) = false ->
                   (equal_fold (path_base name) go_mod = true -> name = go_mod) /\
                   0 <= to_int64 (e_usize e) /\
                   (name = go_mod -> to_int64 (e_usize e) <= zip_MaxGoMod) /\
                   (name = B "LICENSE" -> to_int64 (e_usize e) <= zip_MaxLICENSE))))) es /\
    ForallOrdPairs (fun a b : str * bool =>
                      str_to_fold (fst a) = str_to_fold (fst b) ->
                      fst a = fst b /\ snd a = true /\ snd b = true)
                   (flat_map (entry_items prefix) es) /\
    0 <= total_size (file_entries prefix es) <= zip_MaxZipFile /\
    c_valid cf = map e_name (file_entries prefix es) /\ c_invalid cf = [] /\ c_sizeerr cf = false.
Proof. exact checkzip_accepts_spec. Qed.
Print Assumptions C12_checkzip_accepts_spec.

(* the fuel of the collision checker never runs out in checkZip *)
Theorem C12_check_zip_no_fuel :
  forall mp mv zipsize es, c_fuel (fst (check_zip mp mv zipsize es)) = false.
Proof. exact check_zip_no_fuel. Qed.
Print Assumptions C12_check_zip_no_fuel.
