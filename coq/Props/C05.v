(* C05 — A created module zip always extracts to exactly the files that belong in it.
   Property theorems only; each is closed by [exact] of a lemma proved in Zip/Proofs*.v.

   Vocabulary (Zip/Check.v, Zip/Create.v, Zip/ProofsZip.v):
     create mp mv files = CrOk entries | CrErr class          zip.Create
     check_files files                                        zip.CheckFiles (report)
     valid_files files                                        the files behind report.Valid
     cf_err report                                            CheckedFiles.Err() as a class
     check_module mp mv = None                                module.Check accepts, version canonical
     check_zip mp mv zipsize entries = (report, error class)  zip.CheckZip
     entry_rest / entry_name / entry_is_dir / entry_items / file_entries: see Props/C12.v *)
From Verif.Base Require Import Bytes PathClean.
From Verif.Gen Require Import GenConsts.
From Verif.Module Require Import Path.
From Verif.Zip Require Import Check Create Fs Unzip ProofsPath ProofsColl ProofsZip ProofsUnzip ProofsCreate ProofsCreateZip ProofsCreateUnzip.

(* Given a valid module path with a matching canonical version and valid files that can be
   opened and whose content has the size they report, creation succeeds exactly when the file
   check reports no error. *)
Theorem C05_create_ok_iff_checkfiles_ok :
  forall (mp mv : str) (files : list file),
    check_module mp mv = None ->
    Forall (fun f => f_open_ok f = true /\ len (f_content f) = f_size f) (valid_files files) ->
    ((exists z, create mp mv files = CrOk z) <-> cf_err (check_files files) = None).
Proof. exact create_ok_iff_checkfiles_ok. Qed.
Print Assumptions C05_create_ok_iff_checkfiles_ok.

(* without those assumptions one direction remains: Create never succeeds when the module is
   rejected or the file check reports an error *)
Theorem C05_create_ok_only_if :
  forall (mp mv : str) (files : list file) (z : list entry),
    create mp mv files = CrOk z -> check_module mp mv = None /\ cf_err (check_files files) = None.
Proof. exact create_ok_only_if. Qed.
Print Assumptions C05_create_ok_only_if.

(* Whenever creation succeeds, the archive passes the zip check with no invalid entry and no
   size error, and Valid lists every entry (zipsize, the size of the encoded archive file, is
   outside the model and assumed to be within MaxZipFile: see checks/C05.json). *)
Theorem C05_create_then_checkzip_ok :
  forall (mp mv : str) (files : list file) (z : list entry) (zipsize : Z),
    create mp mv files = CrOk z -> zipsize <= zip_MaxZipFile ->
    check_zip mp mv zipsize z = (mkChecked (map e_name z) [] [] false false, None).
Proof. exact create_then_checkzip_ok. Qed.
Print Assumptions C05_create_then_checkzip_ok.

(* Every produced archive obeys the documented restrictions: its entries are exactly the valid
   files of the file check under the prefix "<mp>@<mv>/", in order, with the files' contents;
   every entry is a file with a path accepted by module.CheckFilePath that is clean; registered
   paths equal under case folding are the same directory (no two files fold-equal, no file
   that is also a directory); a base name that folds to go.mod is "go.mod" at the root; go.mod
   and LICENSE are within their limits and the total size within MaxZipFile. *)
Theorem C05_created_zip_restrictions :
  forall (mp mv : str) (files : list file) (z : list entry),
    create mp mv files = CrOk z ->
    let prefix := zip_prefix mp mv in
    check_module mp mv = None /\
    map e_name z = map (fun p => prefix ++ p) (c_valid (check_files files)) /\
    map e_content z = map f_content (valid_files files) /\
    Forall (fun e =>
              has_prefix (e_name e) prefix = true /\
              (entry_rest prefix e = [] \/
               (let name := entry_name (entry_rest prefix e) in
                check_file_path name = None /\ path_clean name = name /\
                (entry_is_dir (entry_rest prefix e) = false ->
                   (equal_fold (path_base name) go_mod = true -> name = go_mod) /\
                   0 <= to_int64 (e_usize e) /\
                   (name = go_mod -> to_int64 (e_usize e) <= zip_MaxGoMod) /\
                   (name = B "LICENSE" -> to_int64 (e_usize e) <= zip_MaxLICENSE))))) z /\
    ForallOrdPairs (fun a b : str * bool =>
                      str_to_fold (fst a) = str_to_fold (fst b) ->
                      fst a = fst b /\ snd a = true /\ snd b = true)
                   (flat_map (entry_items prefix) z) /\
    0 <= total_size (file_entries prefix z) <= zip_MaxZipFile /\
    file_entries prefix z = z.
Proof. exact created_zip_restrictions. Qed.
Print Assumptions C05_created_zip_restrictions.

(* Whenever creation succeeds, extracting the archive into a clean absolute directory that is
   absent or empty succeeds, and the extracted files are exactly the files reported as valid by
   the file check, byte for byte, and nothing else (zipsize: see above). *)
Theorem C05_create_then_unzip_tree :
  forall (mp mv : str) (files : list file) (z : list entry) (s : fs) (dir : str) (zipsize : Z),
    create mp mv files = CrOk z -> zipsize <= zip_MaxZipFile ->
    (exists ds, ds <> [] /\ Forall good_elem ds /\ dir = abs_path ds) ->
    (forall q, (exists rest, rest <> [] /\ q = dir ++ 47 :: rest) -> fs_lookup s q = None) ->
    fs_has_children s dir = false ->
    (exists evs0, mkdir_all (length dir) s dir = MkOk evs0) ->
    exists evs, unzip s dir mp mv zipsize z = (UzOk, evs) /\
      let s' := apply_events s evs in
      (forall f, In f (valid_files files) ->
         fs_lookup s' (dir ++ 47 :: f_path f) = Some (FFile (f_content f))) /\
      (forall q c, (exists rest, rest <> [] /\ q = dir ++ 47 :: rest) -> fs_lookup s' q = Some (FFile c) ->
         exists f, In f (valid_files files) /\ q = dir ++ 47 :: f_path f /\ c = f_content f).
Proof. exact create_then_unzip_tree. Qed.
Print Assumptions C05_create_then_unzip_tree.

(* non-vacuity: a list Create accepts *)
Example C05_create_succeeds :
  exists z, create (B "example.com/m") (B "v1.0.0")
              [mkFile (B "go.mod") true MRegular 9 true (B "module m" ++ [10]) false;
               mkFile (B "a/b.go") true MRegular 2 true (B "xy") false;
               mkFile (B "vendor/x/y.go") true MRegular 1 true (B "z") false] = CrOk z /\ length z = 2%nat.
Proof. eexists. vm_compute. split; reflexivity. Qed.
