(* C15 — The parsed file structure and its syntax tree never diverge under edits.
   Property theorems only; each is closed by [exact] of a lemma proved in Modfile/EditProofs*.v.
   Model: Modfile/EditModel.v (state, read.go helpers), Modfile/EditOps.v (operations),
   spec: Modfile/EditSpec.v.

   [Coherent f] (EditSpec.v): the syntax tree is well shaped (every line occurs once, its
   InBlock flag says where it sits, block headers have one token), every live typed entry
   has a line and every cleared one has none, and the live lines of the tree — each as
   (line id, verb, normalised arguments incl. the "// indirect" marking) — are, as a
   multiset, exactly the live typed entries rendered the same way ([tree_view] is a
   permutation of [typed_view]).  The harness evaluates [coherentb] on the parse of every
   starting file and after every operation of every generated sequence (function EditInv). *)
From Coq Require Import Permutation.
From Verif.Base Require Import Bytes.
From Verif.Modfile Require Import EditModel EditOps EditSpec EditProofsTyped EditProofsCoherent EditProofsCleanup.

(* After File.Cleanup no typed list holds a cleared placeholder entry. *)
Theorem C15_no_placeholders_after_cleanup : forall f,
  Forall (fun g => gd_key g <> []) (f_godebug (cleanup f)) /\
  Forall (fun r => rq_path r <> []) (f_require (cleanup f)) /\
  Forall (fun x => ex_path x <> []) (f_exclude (cleanup f)) /\
  Forall (fun r => rp_op r <> []) (f_replace (cleanup f)) /\
  Forall (fun r => rt_lo r <> [] \/ rt_hi r <> []) (f_retract (cleanup f)) /\
  Forall (fun t => tl_path t <> []) (f_tool (cleanup f)).
Proof. exact no_placeholders_after_cleanup. Qed.
Print Assumptions C15_no_placeholders_after_cleanup.

(* The same for WorkFile.Cleanup (Godebug, Use, Replace). *)
Theorem C15_work_no_placeholders_after_cleanup : forall f,
  Forall (fun g => gd_key g <> []) (f_godebug (w_cleanup f)) /\
  Forall (fun u => us_path u <> []) (f_use (w_cleanup f)) /\
  Forall (fun r => rp_op r <> []) (f_replace (w_cleanup f)).
Proof. exact w_no_placeholders_after_cleanup. Qed.
Print Assumptions C15_work_no_placeholders_after_cleanup.

(* coherent_invariant, the part that is proved: Cleanup (incl. the collapse of one-line
   blocks, which keeps the identity of the line the typed entry points to), every Drop*
   operation, AddComment. *)
Theorem C15_coherent_cleanup : forall f, Coherent f -> Coherent (cleanup f).
Proof. exact cleanup_coherent. Qed.
Print Assumptions C15_coherent_cleanup.

Theorem C15_coherent_work_cleanup : forall f, Coherent f -> Coherent (w_cleanup f).
Proof. exact w_cleanup_coherent. Qed.
Print Assumptions C15_coherent_work_cleanup.

Theorem C15_coherent_drop_godebug : forall f key f', Coherent f -> drop_godebug f key = Some f' -> Coherent f'.
Proof. exact drop_godebug_coherent. Qed.
Print Assumptions C15_coherent_drop_godebug.
Theorem C15_coherent_drop_require : forall f p f', Coherent f -> drop_require f p = Some f' -> Coherent f'.
Proof. exact drop_require_coherent. Qed.
Print Assumptions C15_coherent_drop_require.
Theorem C15_coherent_drop_exclude : forall f p v f', Coherent f -> drop_exclude f p v = Some f' -> Coherent f'.
Proof. exact drop_exclude_coherent. Qed.
Print Assumptions C15_coherent_drop_exclude.
Theorem C15_coherent_drop_replace : forall f op ov f', Coherent f -> drop_replace f op ov = Some f' -> Coherent f'.
Proof. exact drop_replace_coherent. Qed.
Print Assumptions C15_coherent_drop_replace.
Theorem C15_coherent_drop_retract : forall f lo hi f', Coherent f -> drop_retract f lo hi = Some f' -> Coherent f'.
Proof. exact drop_retract_coherent. Qed.
Print Assumptions C15_coherent_drop_retract.
Theorem C15_coherent_drop_tool : forall f p f', Coherent f -> drop_tool f p = Some f' -> Coherent f'.
Proof. exact drop_tool_coherent. Qed.
Print Assumptions C15_coherent_drop_tool.
Theorem C15_coherent_drop_use : forall f p f', Coherent f -> drop_use f p = Some f' -> Coherent f'.
Proof. exact drop_use_coherent. Qed.
Print Assumptions C15_coherent_drop_use.
Theorem C15_coherent_drop_go_stmt : forall f f', Coherent f -> drop_go_stmt f = ROk f' -> Coherent f'.
Proof. exact drop_go_stmt_coherent. Qed.
Print Assumptions C15_coherent_drop_go_stmt.
Theorem C15_coherent_drop_toolchain_stmt : forall f f', Coherent f -> drop_toolchain_stmt f = ROk f' -> Coherent f'.
Proof. exact drop_toolchain_stmt_coherent. Qed.
Print Assumptions C15_coherent_drop_toolchain_stmt.
Theorem C15_coherent_add_comment : forall f t, Coherent f -> Coherent (add_comment f t).
Proof. exact add_comment_coherent. Qed.
Print Assumptions C15_coherent_add_comment.

(* NOT PROVED (the full target):

   coherent_invariant : forall o f f', Coherent f -> valid_args o = true ->
                        apply o f = ROk f' -> Coherent f'
     is open for the operations that add or rewrite lines (Add*, Set*, SortBlocks): they need
     the case analysis of addLine (five placements, line->block conversion) on [tree_view].
     It is evaluated on every generated case instead (EditInv: coherentb after each
     operation; 0 failures).

   typed_equals_reparse needs the parser/printer round trip (C02/C20, other files). *)
