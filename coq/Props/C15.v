(* C15 — The parsed file structure and its syntax tree never diverge under edits.
   Property theorems only; each is closed by [exact] of a lemma proved in Modfile/EditProofs*.v.
   Model: Modfile/EditModel.v (state, read.go helpers), Modfile/EditOps.v (operations),
   spec: Modfile/EditSpec.v.

   [Coherent f] (EditSpec.v): the syntax tree is well shaped (every line occurs once, its
   InBlock flag says where it sits, block headers have one token), every live typed entry
   has a line and every cleared one has none, and the live lines of the tree — each as
   (line id, verb, normalised arguments incl. the "// indirect" marking) — are, as a
   multiset, exactly the live typed entries rendered the same way ([tree_view] is a
   permutation of [typed_view]).  The harness evaluates [coherentb] on the parse of every
   starting file and after every operation of every generated sequence (function EditInv). *)
From Coq Require Import Permutation.
From Verif.Base Require Import Bytes.
From Verif.Modfile Require Import Syntax Print Directives RoundLexPure3 RoundDir2 Reparse2 Reparse3 Reparse5 Reparse7 Reparse9 Reparse10 Reparse11 Reparse12 Reparse13 Reparse14 Reparse15 Reparse16 Reparse17 Reparse18 Reparse19.
From Verif.Modfile Require Import EditModel EditOps EditSpec EditProofsTyped EditProofsCoherent EditProofsCleanup EditProofsAddLine EditProofsAdd EditProofsUpsert EditProofsSeq EditProofsBlocks EditProofsSetRequire EditProofsExact EditProofs2Blocks EditProofs2Settable EditProofs2Sri EditProofs2Inv EditProofs2Check.

(* After File.Cleanup no typed list holds a cleared placeholder entry. *)
Theorem C15_no_placeholders_after_cleanup : forall f,
  Forall (fun g => gd_key g <> []) (f_godebug (cleanup f)) /\
  Forall (fun r => rq_path r <> []) (f_require (cleanup f)) /\
  Forall (fun x => ex_path x <> []) (f_exclude (cleanup f)) /\
  Forall (fun r => rp_op r <> []) (f_replace (cleanup f)) /\
  Forall (fun r => rt_lo r <> [] \/ rt_hi r <> []) (f_retract (cleanup f)) /\
  Forall (fun t => tl_path t <> []) (f_tool (cleanup f)).
Proof. exact no_placeholders_after_cleanup. Qed.
Print Assumptions C15_no_placeholders_after_cleanup.

(* The same for WorkFile.Cleanup (Godebug, Use, Replace). *)
Theorem C15_work_no_placeholders_after_cleanup : forall f,
  Forall (fun g => gd_key g <> []) (f_godebug (w_cleanup f)) /\
  Forall (fun u => us_path u <> []) (f_use (w_cleanup f)) /\
  Forall (fun r => rp_op r <> []) (f_replace (w_cleanup f)).
Proof. exact w_no_placeholders_after_cleanup. Qed.
Print Assumptions C15_work_no_placeholders_after_cleanup.

(* coherent_invariant, the part that is proved: Cleanup (incl. the collapse of one-line
   blocks, which keeps the identity of the line the typed entry points to), every Drop*
   operation, AddComment. *)
Theorem C15_coherent_cleanup : forall f, Coherent f -> Coherent (cleanup f).
Proof. exact cleanup_coherent. Qed.
Print Assumptions C15_coherent_cleanup.

Theorem C15_coherent_work_cleanup : forall f, Coherent f -> Coherent (w_cleanup f).
Proof. exact w_cleanup_coherent. Qed.
Print Assumptions C15_coherent_work_cleanup.

Theorem C15_coherent_drop_godebug : forall f key f', Coherent f -> drop_godebug f key = Some f' -> Coherent f'.
Proof. exact drop_godebug_coherent. Qed.
Print Assumptions C15_coherent_drop_godebug.
Theorem C15_coherent_drop_require : forall f p f', Coherent f -> drop_require f p = Some f' -> Coherent f'.
Proof. exact drop_require_coherent. Qed.
Print Assumptions C15_coherent_drop_require.
Theorem C15_coherent_drop_exclude : forall f p v f', Coherent f -> drop_exclude f p v = Some f' -> Coherent f'.
Proof. exact drop_exclude_coherent. Qed.
Print Assumptions C15_coherent_drop_exclude.
Theorem C15_coherent_drop_replace : forall f op ov f', Coherent f -> drop_replace f op ov = Some f' -> Coherent f'.
Proof. exact drop_replace_coherent. Qed.
Print Assumptions C15_coherent_drop_replace.
Theorem C15_coherent_drop_retract : forall f lo hi f', Coherent f -> drop_retract f lo hi = Some f' -> Coherent f'.
Proof. exact drop_retract_coherent. Qed.
Print Assumptions C15_coherent_drop_retract.
Theorem C15_coherent_drop_tool : forall f p f', Coherent f -> drop_tool f p = Some f' -> Coherent f'.
Proof. exact drop_tool_coherent. Qed.
Print Assumptions C15_coherent_drop_tool.
Theorem C15_coherent_drop_use : forall f p f', Coherent f -> drop_use f p = Some f' -> Coherent f'.
Proof. exact drop_use_coherent. Qed.
Print Assumptions C15_coherent_drop_use.
Theorem C15_coherent_drop_go_stmt : forall f f', Coherent f -> drop_go_stmt f = ROk f' -> Coherent f'.
Proof. exact drop_go_stmt_coherent. Qed.
Print Assumptions C15_coherent_drop_go_stmt.
Theorem C15_coherent_drop_toolchain_stmt : forall f f', Coherent f -> drop_toolchain_stmt f = ROk f' -> Coherent f'.
Proof. exact drop_toolchain_stmt_coherent. Qed.
Print Assumptions C15_coherent_drop_toolchain_stmt.
Theorem C15_coherent_add_comment : forall f t, Coherent f -> Coherent (add_comment f t).
Proof. exact add_comment_coherent. Qed.
Print Assumptions C15_coherent_add_comment.

(* addLine itself (all hint cases, incl. the conversion of a line into a block): the tree
   stays well shaped and gains exactly the one new directive. *)
Theorem C15_add_line_adds_one_directive : forall s hint verb args,
  SyntaxOk s -> args <> [] ->
  SyntaxOk (fst (add_line s hint verb args)) /\
  Permutation (tree_view (fst (add_line s hint verb args)))
              ((length (heap s), verb, norm_args verb args dead_line) :: tree_view s).
Proof. exact add_line_syntax. Qed.
Print Assumptions C15_add_line_adds_one_directive.

Theorem C15_coherent_add_exclude : forall f (p v : str) f',
  p <> [] -> Coherent f -> add_exclude f p v = ROk f' -> Coherent f'.
Proof. exact add_exclude_coherent. Qed.
Print Assumptions C15_coherent_add_exclude.
Theorem C15_coherent_add_retract : forall f (lo hi rat : str) f',
  Coherent f -> add_retract f lo hi rat = ROk f' -> Coherent f'.
Proof. exact add_retract_coherent. Qed.
Print Assumptions C15_coherent_add_retract.
Theorem C15_coherent_add_new_use : forall f (p m : str), p <> [] -> Coherent f -> Coherent (add_new_use f p m).
Proof. exact add_new_use_coherent. Qed.
Print Assumptions C15_coherent_add_new_use.
Theorem C15_coherent_add_go_stmt : forall f (v : str) f', Coherent f -> add_go_stmt f v = ROk f' -> Coherent f'.
Proof. exact add_go_stmt_coherent. Qed.
Print Assumptions C15_coherent_add_go_stmt.
Theorem C15_coherent_add_toolchain_stmt : forall f (v : str) f',
  Coherent f -> add_toolchain_stmt f v = ROk f' -> Coherent f'.
Proof. exact add_toolchain_stmt_coherent. Qed.
Print Assumptions C15_coherent_add_toolchain_stmt.
Theorem C15_coherent_add_module_stmt : forall f (p : str) f',
  Coherent f -> add_module_stmt f p = Some f' -> Coherent f'.
Proof. exact add_module_stmt_coherent. Qed.
Print Assumptions C15_coherent_add_module_stmt.

(* the "set the first line for the key, remove the others, else add a line" operations *)
Theorem C15_coherent_add_godebug : forall f (key v : str) f',
  key <> [] -> Coherent f -> add_godebug f key v = Some f' -> Coherent f'.
Proof. exact add_godebug_coherent. Qed.
Print Assumptions C15_coherent_add_godebug.
Theorem C15_coherent_add_require : forall f (p v : str) f',
  p <> [] -> Coherent f -> add_require f p v = Some f' -> Coherent f'.
Proof. exact add_require_coherent. Qed.
Print Assumptions C15_coherent_add_require.
Theorem C15_coherent_add_new_require : forall f (p v : str) ind,
  p <> [] -> Coherent f -> Coherent (add_new_require f p v ind).
Proof. exact add_new_require_coherent. Qed.
Print Assumptions C15_coherent_add_new_require.
Theorem C15_coherent_add_use : forall f (p m : str) f',
  p <> [] -> Coherent f -> add_use f p m = Some f' -> Coherent f'.
Proof. exact add_use_coherent. Qed.
Print Assumptions C15_coherent_add_use.
Theorem C15_coherent_add_replace : forall f (op ov np nv : str) f',
  op <> [] -> Coherent f -> add_replace f op ov np nv = Some f' -> Coherent f'.
Proof. exact add_replace_coherent. Qed.
Print Assumptions C15_coherent_add_replace.

(* SortBlocks = removeDups + stable sort of every block; AddTool; SetUse; the WorkFile
   statements that insert a line by position. *)
Theorem C15_coherent_sort_blocks : forall f, Coherent f -> Coherent (sort_blocks f).
Proof. exact sort_blocks_coherent. Qed.
Print Assumptions C15_coherent_sort_blocks.
Theorem C15_coherent_work_sort_blocks : forall f, Coherent f -> Coherent (w_sort_blocks f).
Proof. exact w_sort_blocks_coherent. Qed.
Print Assumptions C15_coherent_work_sort_blocks.
Theorem C15_coherent_add_tool : forall f (p : str),
  p <> [] -> must_quote p = false -> Coherent f -> Coherent (add_tool f p).
Proof. exact add_tool_coherent. Qed.
Print Assumptions C15_coherent_add_tool.
Theorem C15_coherent_set_use : forall f (l : list (str * str)) f',
  distinct_paths (map fst l) = true -> Coherent f -> set_use f l = Some f' -> Coherent f'.
Proof. exact set_use_coherent. Qed.
Print Assumptions C15_coherent_set_use.

(* Coherent ALONE (no side condition) is preserved by every operation except SetRequire and
   SetRequireSeparateIndirect ([coh_op2]), and by every sequence of such operations. *)
Theorem C15_coherent_alone_invariant : forall o f f',
  coh_op2 o = true -> valid_args o = true -> Coherent f ->
  apply o f = ROk f' \/ apply o f = RErr f' -> Coherent f'.
Proof. exact coherent_invariant_but_set_require. Qed.
Print Assumptions C15_coherent_alone_invariant.

Theorem C15_coherent_alone_invariant_sequences : forall ops f errs f',
  Coherent f ->
  Forall (fun o => coh_op2 o = true /\ valid_args o = true) ops ->
  run_ops ops f = RunOk errs f' -> Coherent f'.
Proof. exact run_ops_coherent_but_set_require. Qed.
Print Assumptions C15_coherent_alone_invariant_sequences.

(* SetRequire, outside one corner.  [RequireSettable f]: on the line of every live require
   entry, setIndirect reaches whichever marking is requested. *)
Theorem C15_coherent_set_require : forall f l f',
  distinct_paths (map req_path l) = true -> Coherent f -> RequireSettable f ->
  set_require f l = Some f' -> Coherent f'.
Proof. exact set_require_coherent. Qed.
Print Assumptions C15_coherent_set_require.

(* The corner is real: "require a.b/c v1.0.0 // indirect; indirect; x", SetRequire with
   indirect = false: the typed entry says direct, the line still says indirect.  Replayed on
   the implementation (finding K9, notes/replays/K9.json). *)
Theorem C15_coherent_set_require_refuted :
  coherentb corner_file = true /\
  exists f', set_require corner_file [(B "a.b/c", B "v1.0.0", false)] = Some f' /\ coherentb f' = false
             /\ k_require (abs f') = [(B "a.b/c", B "v1.0.0", false)]
             /\ is_indirect (sget (fsyn f') 0%nat) = true.
Proof. exact set_require_coherent_refuted. Qed.
Print Assumptions C15_coherent_set_require_refuted.

(* SetRequireSeparateIndirect (block discovery, insertBlock / ensureBlock incl. the conversion
   of a line into a block, the rewriting loop with moveReq, the new requirements, SortBlocks).
   Two side conditions besides [RequireSettable]:
   [BlockIdsOk s] (Modfile/EditProofs2Blocks.v): the identities [hb_id] of the blocks of the
   tree are pairwise different and below the allocation counter [nbid s].  The model addresses
   blocks by identity where Go compares *LineBlock pointers; Go's pointers are distinct by
   construction, the decoder of the correspondence run numbers the blocks 0,1,2,... *)
Theorem C15_coherent_set_require_separate_indirect : forall f l f',
  distinct_paths (map req_path l) = true -> Coherent f -> BlockIdsOk (fsyn f) -> RequireSettable f ->
  set_require_separate_indirect f l = Some f' -> Coherent f'.
Proof. exact set_require_separate_indirect_coherent. Qed.
Print Assumptions C15_coherent_set_require_separate_indirect.

(* The side conditions are invariants themselves.  [HeapSettable s]: for EVERY line of the heap,
   written on its end-of-line comments only ([suf l] = the Suffix comment texts of l):
   setIndirect, applied to these comments, yields the marking it is asked for
   ([suf_settable], [is_ind_suf] / [set_ind_suf] = isIndirect / setIndirect on the comment list).
   It implies RequireSettable, and setIndirect preserves it: *)
Theorem C15_set_indirect_keeps_settable : forall sfx b,
  (forall b', is_ind_suf (set_ind_suf sfx b') = b') ->
  (forall b', is_ind_suf (set_ind_suf (set_ind_suf sfx b) b') = b').
Proof. exact suf_settable_set. Qed.
Print Assumptions C15_set_indirect_keeps_settable.

Theorem C15_settable_is_about_suffix_comments : forall l,
  (forall v b, is_indirect (set_indirect_line (set_version_line l v) b) = b) <->
  (forall b, is_ind_suf (set_ind_suf (c_suffix (hl_com l)) b) = b).
Proof. exact settable_iff. Qed.
Print Assumptions C15_settable_is_about_suffix_comments.

(* coherent_invariant: ALL 37 operations of File and WorkFile.  The invariant is Coherent
   together with the two side conditions; an operation that returns (nil or an error) from a
   state satisfying it ends in a state satisfying it. *)
Theorem C15_coherent_invariant : forall o f f',
  valid_args o = true ->
  Coherent f -> BlockIdsOk (fsyn f) -> HeapSettable (fsyn f) ->
  apply o f = ROk f' \/ apply o f = RErr f' ->
  Coherent f' /\ BlockIdsOk (fsyn f') /\ HeapSettable (fsyn f').
Proof. exact coherent_invariant. Qed.
Print Assumptions C15_coherent_invariant.

(* ... hence every sequence of operations with valid arguments that does not panic. *)
Theorem C15_coherent_invariant_sequences : forall ops f errs f',
  Coherent f -> BlockIdsOk (fsyn f) -> HeapSettable (fsyn f) ->
  Forall (fun o => valid_args o = true) ops ->
  run_ops ops f = RunOk errs f' ->
  Coherent f' /\ BlockIdsOk (fsyn f') /\ HeapSettable (fsyn f').
Proof. exact run_ops_coherent. Qed.
Print Assumptions C15_coherent_invariant_sequences.

(* The executable check [coherentb] that the correspondence run evaluates on the parse of
   every starting file and after every operation is sound for Coherent; [block_ids_okb] and
   [heap_settableb] are executable mirrors of the side conditions. *)
Theorem C15_coherentb_sound : forall f, coherentb f = true -> Coherent f.
Proof. exact coherentb_sound. Qed.
Print Assumptions C15_coherentb_sound.

Theorem C15_side_conditions_checkable : forall s,
  (block_ids_okb s = true -> BlockIdsOk s) /\ (heap_settableb s = true -> HeapSettable s).
Proof. intros s. split; [apply block_ids_okb_sound | apply heap_settableb_sound]. Qed.
Print Assumptions C15_side_conditions_checkable.

(* The hypotheses are satisfiable (a file with a duplicated requirement), and the file of
   finding K9 is coherent but not HeapSettable: the side condition excludes exactly that corner. *)
Example C15_invariant_nonvacuous :
  Coherent example_dup_file /\ BlockIdsOk (fsyn example_dup_file) /\ HeapSettable (fsyn example_dup_file).
Proof. destruct edit_inv_example as [A Bq C]. auto. Qed.
Example C15_k9_file_excluded : heap_settableb (fsyn corner_file) = false /\ coherentb corner_file = true.
Proof. exact corner_file_not_settable. Qed.

(* ---------------------------------------------------------------- typed_equals_reparse

   Composition with the parser/printer round trip of C02 (Modfile/Reparse1-10.v).  One state f
   of the edit model; [to_syntax name (fsyn f)] is its tree as a FileSyntax, [format] the model
   of modfile.Format, [parse_to_file true None] the model of modfile.Parse (strict, no
   version fixer), [abs f] the typed lists of f without cleared entries.  Hypotheses:

   - Coherent f (the C15 invariant above);
   - Printable known_mod_block (fsyn f)  (Reparse9.v, Reparse2.v, Reparse7.v), about the tree only:
       ComsOk: every comment text starts with "//" and has no line feed (before a line of a block
         or before ")" also the blank-line marker, never two in a row, not first in the block), at
         most one end-of-line comment per node, the comment slots no parser output uses are empty
         (After, LParen.Before, FileSyntax.Comments), a comment block is not empty;
       stmt_ready: every line of the tree is live (what Cleanup establishes), its end-of-line
         comments are ASCII (the edit model transcribes strings.Fields for ASCII white space
         only), every block header is one of the block verbs of go.mod;
   - tis_ok (typed_items f): every live typed entry is a VALID item ([item_ok], Reparse5.v):
       paths are byte strings, not empty, not a lone punctuation character; require/exclude
       versions are canonical semver matching the path's major-version suffix; replace as
       parseReplace demands; retract bounds valid semver; go / toolchain / godebug values match
       their syntax and are written as one plain token ([plain]: MustQuote is false).  These are
       the values the strict parser itself delivers; the operations do not validate most of them
       (AddRequire writes any version string, AddToolchainStmt accepts "go1. x y").

   Conclusion: the formatted tree is accepted, and module path, go, toolchain are equal and
   godebug, require (with the indirect flag), exclude, replace, retract intervals, tool are equal
   AS MULTISETS to the typed lists. *)
Theorem C15_typed_equals_reparse_state : forall name f,
  Coherent f -> Printable known_mod_block (fsyn f) -> tis_ok (typed_items f) ->
  exists f', parse_to_file true None (format (to_syntax name (fsyn f))) = DOk f' /\
    option_map (fun m => mv_path (md_mod m)) (fd_module f') = k_module (abs f) /\
    option_map go_version (fd_go f') = k_go (abs f) /\
    option_map tc_name (fd_toolchain f') = k_toolchain (abs f) /\
    Permutation (map (fun g => (Directives.gd_key g, gd_value g)) (fd_godebug f')) (k_godebug (abs f)) /\
    Permutation (map (fun r => (mv_path (rq_mod r), mv_version (rq_mod r), rq_indirect r)) (fd_require f')) (k_require (abs f)) /\
    Permutation (map (fun r => (mv_path (ex_mod r), mv_version (ex_mod r))) (fd_exclude f')) (k_exclude (abs f)) /\
    Permutation (map rep_vals (fd_replace f')) (k_replace (abs f)) /\
    Permutation (map (fun r => (rt_low r, rt_high r)) (fd_retract f'))
                (map (fun x => (fst (fst x), snd (fst x))) (k_retract (abs f))) /\
    Permutation (map Directives.tl_path (fd_tool f')) (k_tool (abs f)).
Proof. exact typed_equals_reparse_mod. Qed.
Print Assumptions C15_typed_equals_reparse_state.

(* The same for go.work ([parse_work None] = modfile.ParseWork without fixer).  Use.ModulePath is
   never written to the file (TODO(#45713) in work.go): the use list is compared by path. *)
Theorem C15_typed_equals_reparse_work_state : forall name f,
  Coherent f -> PrintableW (fsyn f) -> tis_okW (typed_items f) ->
  exists f', parse_work None (format (to_syntax name (fsyn f))) = DOk f' /\
    option_map go_version (wf_go f') = k_go (abs f) /\
    option_map tc_name (wf_toolchain f') = k_toolchain (abs f) /\
    Permutation (map (fun g => (Directives.gd_key g, gd_value g)) (wf_godebug f')) (k_godebug (abs f)) /\
    Permutation (map Directives.us_path (wf_use f')) (map fst (k_use (abs f))) /\
    Permutation (map rep_vals (wf_replace f')) (k_replace (abs f)).
Proof. exact typed_equals_reparse_work. Qed.
Print Assumptions C15_typed_equals_reparse_work_state.

(* The comment-derived values.  [TextOk f] (Reparse12.v): for every module / retract entry, the
   typed text (Module.Deprecated, Retract.Rationale) is what the directive layer reads from the
   comments of the entry's line in the tree (its own Before and Suffix comments, or those of the
   enclosing block when it has none).  Under this hypothesis they are equal too. *)
Theorem C15_typed_equals_reparse_text_state : forall name f,
  Coherent f -> Printable known_mod_block (fsyn f) -> tis_ok (typed_items f) -> TextOk f ->
  exists f', parse_to_file true None (format (to_syntax name (fsyn f))) = DOk f' /\
    option_map (fun m => (mv_path (md_mod m), md_deprecated m)) (fd_module f') =
      option_map (fun m => (mo_path m, mo_depr m)) (f_module f) /\
    Permutation (map (fun r => (rt_low r, rt_high r, rt_rationale r)) (fd_retract f')) (k_retract (abs f)).
Proof. exact typed_equals_reparse_text. Qed.
Print Assumptions C15_typed_equals_reparse_text_state.

(* Without TextOk the clause is false: finding K6, both replays of notes/replays/K6.json evaluated
   in the model.  (a) AddRetract with an empty rationale into a retract block that has leading
   comments: typed Rationale "", re-parse "c2".  (b) Cleanup collapses a one-line retract block
   and merges the block comments into the line: typed "c6\nc7", re-parse "c5\nc6\nc7".  In both
   the states satisfy every other hypothesis (C15_k6_states_satisfy_other_hypotheses). *)
Theorem C15_typed_equals_reparse_rationale_refuted :
  exists errs, run_ops k6a_ops k6a_file = RunOk errs k6a_final /\
  k_retract (abs k6a_final) =
    [(B "v1.0.0", B "v1.0.0", B "c3"); (B "v1.2.3", B "v1.2.3", B "c4"); (B "v1.9.0", B "v1.9.0", [])] /\
  exists parsed, parse_to_file true None (format (to_syntax [] (fsyn k6a_final))) = DOk parsed /\
    map (fun r => (rt_low r, rt_high r, rt_rationale r)) (fd_retract parsed) =
    [(B "v1.0.0", B "v1.0.0", B "c3"); (B "v1.2.3", B "v1.2.3", B "c4"); (B "v1.9.0", B "v1.9.0", B "c2")].
Proof. exact typed_equals_reparse_rationale_refuted. Qed.
Print Assumptions C15_typed_equals_reparse_rationale_refuted.

Theorem C15_typed_equals_reparse_rationale_refuted_collapse :
  coherentb k6b_file = true /\ printableb known_mod_block (fsyn k6b_file) = true /\ tis_okb (typed_items k6b_file) = true /\
  coherentb (cleanup k6b_file) = true /\ printableb known_mod_block (fsyn (cleanup k6b_file)) = true /\
  k_retract (abs (cleanup k6b_file)) = [(B "v1.0.0", B "v1.2.3", B "c6" ++ [10] ++ B "c7")] /\
  exists parsed, parse_to_file true None (format (to_syntax [] (fsyn (cleanup k6b_file)))) = DOk parsed /\
    map (fun r => (rt_low r, rt_high r, rt_rationale r)) (fd_retract parsed) =
    [(B "v1.0.0", B "v1.2.3", B "c5" ++ [10] ++ B "c6" ++ [10] ++ B "c7")].
Proof. exact typed_equals_reparse_rationale_refuted_collapse. Qed.
Print Assumptions C15_typed_equals_reparse_rationale_refuted_collapse.

Theorem C15_k6_states_satisfy_other_hypotheses :
  Coherent k6a_file /\ Printable known_mod_block (fsyn k6a_file) /\ tis_ok (typed_items k6a_file) /\
  Coherent k6a_final /\ Printable known_mod_block (fsyn k6a_final) /\ tis_ok (typed_items k6a_final).
Proof. exact k6a_hyps. Qed.
Print Assumptions C15_k6_states_satisfy_other_hypotheses.

(* ---------------------------------------------------------------- the hypotheses are invariants

   [SynGood known s] (Reparse15.v), about the tree only: every line of the heap has Before
   comments that are "//" comments without line feed (no blank-line marker), at most one
   end-of-line comment, which is such a comment and ASCII, no After comments; the own comments of
   blocks and comment blocks likewise (before ")" blank-line markers are allowed, never two in a
   row); a block header is one token and a block verb of the file kind, unless nothing stands before
   ")".  It is preserved by all 37 operations and every sequence; the only condition on the
   arguments is that the text of AddComment is a "//" comment without line feed. *)
Theorem C15_syn_good_invariant : forall known o f f',
  comment_arg_ok o -> SynGood known (fsyn f) -> apply o f = ROk f' \/ apply o f = RErr f' -> SynGood known (fsyn f').
Proof. exact syn_good_step. Qed.
Print Assumptions C15_syn_good_invariant.

Theorem C15_syn_good_invariant_sequences : forall known ops f k er errs f',
  Forall comment_arg_ok ops -> SynGood known (fsyn f) -> run_from k er ops f = RunOk errs f' -> SynGood known (fsyn f').
Proof. exact syn_good_run. Qed.
Print Assumptions C15_syn_good_invariant_sequences.

(* what Cleanup establishes, and with it Printable: every line of the tree is live, no block is
   empty, a block of one line has comments before its ")" *)
Theorem C15_cleanup_cleans : forall s, Cleaned (syn_cleanup s).
Proof. exact syn_cleanup_cleaned. Qed.
Print Assumptions C15_cleanup_cleans.

Theorem C15_good_cleaned_is_printable : forall f,
  Coherent f -> Forall (fun x => mod_item (snd x)) (typed_items f) ->
  SynGood known_mod_block (fsyn f) -> Cleaned (fsyn f) -> Printable known_mod_block (fsyn f).
Proof. exact printable_mod. Qed.
Print Assumptions C15_good_cleaned_is_printable.

(* the validity of the typed entries is a property of the keyed collections [KOk P (abs f)], and
   the documented steps preserve it when the arguments are valid items ([strict_args P o]: e.g.
   AddRequire p v needs pv_ok p v; AddGodebug k v a plain token "k=v"; Drop* nothing) *)
Theorem C15_valid_entries_invariant : forall (P : item -> Prop) ops k errs_rev,
  Forall (strict_args P) ops -> KOk P k -> KOk P (fst (krun ops k errs_rev)).
Proof. exact krun_ok. Qed.
Print Assumptions C15_valid_entries_invariant.

(* ---------------------------------------------------------------- typed_equals_reparse, end to end

   For every starting state f that satisfies the C15 invariant (Coherent, BlockIdsOk,
   HeapSettable: finding K9 excluded), whose tree is SynGood and whose typed entries are valid
   items of go.mod ([Pmod it] = item_ok it and it is not a use directive), for every sequence of
   operations with valid arguments ([valid_args]: keys not empty ...; [strict_args Pmod]: the
   added values are valid items; AddComment's text is a comment) that does not panic, followed by
   Cleanup: Format of the final tree is accepted by the strict parser, and its directives are, as
   multisets, the typed lists of the final state.
   Not covered (outside the hypotheses): starting files with a blank line directly before a line
   inside a block (the parser records it as a blank-line marker in the line's Before comments;
   harmless for the directive values, but the tree after Cleanup may not be one the round-trip
   theorems of C02 speak about), non-ASCII end-of-line comments, finding K6 for the two text
   values (see above), finding K9 (HeapSettable). *)
Theorem C15_typed_equals_reparse : forall name ops f errs f',
  Coherent f -> BlockIdsOk (fsyn f) -> HeapSettable (fsyn f) -> SynGood known_mod_block (fsyn f) -> KOk Pmod (abs f) ->
  Forall (fun o => valid_args o = true) ops -> Forall comment_arg_ok ops -> Forall (strict_args Pmod) ops ->
  run_ops (ops ++ [Cleanup]) f = RunOk errs f' ->
  exists parsed, parse_to_file true None (format (to_syntax name (fsyn f'))) = DOk parsed /\
    option_map (fun m => mv_path (md_mod m)) (fd_module parsed) = k_module (abs f') /\
    option_map go_version (fd_go parsed) = k_go (abs f') /\
    option_map tc_name (fd_toolchain parsed) = k_toolchain (abs f') /\
    Permutation (map (fun g => (Directives.gd_key g, gd_value g)) (fd_godebug parsed)) (k_godebug (abs f')) /\
    Permutation (map (fun r => (mv_path (rq_mod r), mv_version (rq_mod r), rq_indirect r)) (fd_require parsed)) (k_require (abs f')) /\
    Permutation (map (fun r => (mv_path (ex_mod r), mv_version (ex_mod r))) (fd_exclude parsed)) (k_exclude (abs f')) /\
    Permutation (map rep_vals (fd_replace parsed)) (k_replace (abs f')) /\
    Permutation (map (fun r => (rt_low r, rt_high r)) (fd_retract parsed))
                (map (fun x => (fst (fst x), snd (fst x))) (k_retract (abs f'))) /\
    Permutation (map Directives.tl_path (fd_tool parsed)) (k_tool (abs f')).
Proof. exact typed_equals_reparse. Qed.
Print Assumptions C15_typed_equals_reparse.

Theorem C15_typed_equals_reparse_work : forall name ops f errs f',
  Coherent f -> BlockIdsOk (fsyn f) -> HeapSettable (fsyn f) -> SynGood known_work_block (fsyn f) -> KOk Pwork (abs f) ->
  Forall (fun o => valid_args o = true) ops -> Forall comment_arg_ok ops -> Forall (strict_args Pwork) ops ->
  run_ops (ops ++ [WCleanup]) f = RunOk errs f' ->
  exists parsed, parse_work None (format (to_syntax name (fsyn f'))) = DOk parsed /\
    option_map go_version (wf_go parsed) = k_go (abs f') /\
    option_map tc_name (wf_toolchain parsed) = k_toolchain (abs f') /\
    Permutation (map (fun g => (Directives.gd_key g, gd_value g)) (wf_godebug parsed)) (k_godebug (abs f')) /\
    Permutation (map Directives.us_path (wf_use parsed)) (map fst (k_use (abs f'))) /\
    Permutation (map rep_vals (wf_replace parsed)) (k_replace (abs f')).
Proof. exact typed_equals_reparse_w. Qed.
Print Assumptions C15_typed_equals_reparse_work.

(* The same without any hypothesis on the tree of the STARTING state, when the tree of the FINAL
   state is printable (a decidable condition, [printableb]); this form covers starting files with
   blank lines inside blocks as long as no blank-line marker ends up before a top-level line or
   first in a block. *)
Theorem C15_typed_equals_reparse_if_printable : forall name ops f errs f',
  Coherent f -> BlockIdsOk (fsyn f) -> HeapSettable (fsyn f) ->
  Forall (fun o => valid_args o = true) ops -> Forall (strict_args Pmod) ops -> KOk Pmod (abs f) ->
  run_ops ops f = RunOk errs f' -> Printable known_mod_block (fsyn f') ->
  exists parsed, parse_to_file true None (format (to_syntax name (fsyn f'))) = DOk parsed /\
    (option_map (fun m => mv_path (md_mod m)) (fd_module parsed) = k_module (abs f') /\
     option_map go_version (fd_go parsed) = k_go (abs f') /\
     option_map tc_name (fd_toolchain parsed) = k_toolchain (abs f') /\
     Permutation (map (fun g => (Directives.gd_key g, gd_value g)) (fd_godebug parsed)) (k_godebug (abs f')) /\
     Permutation (map (fun r => (mv_path (rq_mod r), mv_version (rq_mod r), rq_indirect r)) (fd_require parsed)) (k_require (abs f')) /\
     Permutation (map (fun r => (mv_path (ex_mod r), mv_version (ex_mod r))) (fd_exclude parsed)) (k_exclude (abs f')) /\
     Permutation (map rep_vals (fd_replace parsed)) (k_replace (abs f')) /\
     Permutation (map (fun r => (rt_low r, rt_high r)) (fd_retract parsed))
                 (map (fun x => (fst (fst x), snd (fst x))) (k_retract (abs f'))) /\
     Permutation (map Directives.tl_path (fd_tool parsed)) (k_tool (abs f'))) /\
    krun ops (abs f) [] = (abs f', errs).
Proof. exact reparse_run_mod. Qed.
Print Assumptions C15_typed_equals_reparse_if_printable.

Theorem C15_typed_equals_reparse_work_if_printable : forall name ops f errs f',
  Coherent f -> BlockIdsOk (fsyn f) -> HeapSettable (fsyn f) ->
  Forall (fun o => valid_args o = true) ops -> Forall (strict_args Pwork) ops -> KOk Pwork (abs f) ->
  run_ops ops f = RunOk errs f' -> PrintableW (fsyn f') ->
  exists parsed, parse_work None (format (to_syntax name (fsyn f'))) = DOk parsed /\
    (option_map go_version (wf_go parsed) = k_go (abs f') /\
     option_map tc_name (wf_toolchain parsed) = k_toolchain (abs f') /\
     Permutation (map (fun g => (Directives.gd_key g, gd_value g)) (wf_godebug parsed)) (k_godebug (abs f')) /\
     Permutation (map Directives.us_path (wf_use parsed)) (map fst (k_use (abs f'))) /\
     Permutation (map rep_vals (wf_replace parsed)) (k_replace (abs f'))) /\
    krun ops (abs f) [] = (abs f', errs).
Proof. exact reparse_run_work. Qed.
Print Assumptions C15_typed_equals_reparse_work_if_printable.

(* ... and the two text values when the final state satisfies TextOk *)
Theorem C15_typed_equals_reparse_with_text : forall name ops f errs f',
  Coherent f -> BlockIdsOk (fsyn f) -> HeapSettable (fsyn f) -> SynGood known_mod_block (fsyn f) -> KOk Pmod (abs f) ->
  Forall (fun o => valid_args o = true) ops -> Forall comment_arg_ok ops -> Forall (strict_args Pmod) ops ->
  run_ops (ops ++ [Cleanup]) f = RunOk errs f' -> TextOk f' ->
  exists parsed, parse_to_file true None (format (to_syntax name (fsyn f'))) = DOk parsed /\
    option_map (fun m => (mv_path (md_mod m), md_deprecated m)) (fd_module parsed) =
      option_map (fun m => (mo_path m, mo_depr m)) (f_module f') /\
    Permutation (map (fun r => (rt_low r, rt_high r, rt_rationale r)) (fd_retract parsed)) (k_retract (abs f')).
Proof. exact typed_equals_reparse_with_text. Qed.
Print Assumptions C15_typed_equals_reparse_with_text.

(* every hypothesis on the starting state has a sound executable mirror, and they are satisfiable:
   the starting state and the operation of finding K6 (a) *)
Theorem C15_reparse_hypotheses_checkable : forall known s k,
  (syn_goodb known s = true -> SynGood known s) /\ (printableb known s = true -> Printable known s) /\
  (kokb pmodb k = true -> KOk Pmod k) /\ (kokb pworkb k = true -> KOk Pwork k).
Proof.
  intros known s k. split; [apply syn_goodb_ok|]. split; [apply printableb_ok|].
  split; [apply kokb_ok; exact pmodb_ok|apply kokb_ok; exact pworkb_ok].
Qed.
Print Assumptions C15_reparse_hypotheses_checkable.

Example C15_typed_equals_reparse_nonvacuous :
  Coherent k6a_file /\ BlockIdsOk (fsyn k6a_file) /\ HeapSettable (fsyn k6a_file) /\
  SynGood known_mod_block (fsyn k6a_file) /\ KOk Pmod (abs k6a_file) /\
  Forall (fun o => valid_args o = true) [AddRetract (B "v1.9.0") (B "v1.9.0") []] /\
  Forall comment_arg_ok [AddRetract (B "v1.9.0") (B "v1.9.0") []] /\
  Forall (strict_args Pmod) [AddRetract (B "v1.9.0") (B "v1.9.0") []] /\
  exists errs, run_ops ([AddRetract (B "v1.9.0") (B "v1.9.0") []] ++ [Cleanup]) k6a_file = RunOk errs k6a_final.
Proof. exact end_to_end_nonvacuous. Qed.

Example C15_typed_equals_reparse_work_nonvacuous :
  Coherent work_example /\ BlockIdsOk (fsyn work_example) /\ HeapSettable (fsyn work_example) /\
  SynGood known_work_block (fsyn work_example) /\ KOk Pwork (abs work_example) /\
  Forall (fun o => valid_args o = true) [WAddUse (B "./b") []] /\
  Forall comment_arg_ok [WAddUse (B "./b") []] /\
  Forall (strict_args Pwork) [WAddUse (B "./b") []] /\
  exists errs f', run_ops ([WAddUse (B "./b") []] ++ [WCleanup]) work_example = RunOk errs f' /\
    exists parsed, parse_work None (format (to_syntax [] (fsyn f'))) = DOk parsed /\
      map Directives.us_path (wf_use parsed) = [B "./a"; B "./b"].
Proof. exact end_to_end_work_nonvacuous. Qed.
