(* C15 — The parsed file structure and its syntax tree never diverge under edits.
   Property theorems only; each is closed by [exact] of a lemma proved in Modfile/EditProofs*.v.
   Model: Modfile/EditModel.v (state, read.go helpers), Modfile/EditOps.v (operations),
   spec: Modfile/EditSpec.v (Coherent, abs, kstep). *)
From Verif.Base Require Import Bytes.
From Verif.Modfile Require Import EditModel EditOps EditSpec EditProofsTyped.

(* After File.Cleanup no typed list holds a cleared placeholder entry. *)
Theorem C15_no_placeholders_after_cleanup : forall f,
  Forall (fun g => gd_key g <> []) (f_godebug (cleanup f)) /\
  Forall (fun r => rq_path r <> []) (f_require (cleanup f)) /\
  Forall (fun x => ex_path x <> []) (f_exclude (cleanup f)) /\
  Forall (fun r => rp_op r <> []) (f_replace (cleanup f)) /\
  Forall (fun r => rt_lo r <> [] \/ rt_hi r <> []) (f_retract (cleanup f)) /\
  Forall (fun t => tl_path t <> []) (f_tool (cleanup f)).
Proof. exact no_placeholders_after_cleanup. Qed.
Print Assumptions C15_no_placeholders_after_cleanup.

(* The same for WorkFile.Cleanup (Godebug, Use, Replace). *)
Theorem C15_work_no_placeholders_after_cleanup : forall f,
  Forall (fun g => gd_key g <> []) (f_godebug (w_cleanup f)) /\
  Forall (fun u => us_path u <> []) (f_use (w_cleanup f)) /\
  Forall (fun r => rp_op r <> []) (f_replace (w_cleanup f)).
Proof. exact w_no_placeholders_after_cleanup. Qed.
Print Assumptions C15_work_no_placeholders_after_cleanup.
