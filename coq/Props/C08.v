(* C08 — go.mod and go.work edit operations do what a simple set/map model says.
   Property theorems only.  Keyed model: [kstate]/[kstep] in Modfile/EditSpec.v, written from
   the doc comments of the operations; [abs f] = the typed lists of f without cleared
   entries.  Proofs: Modfile/EditProofsTyped.v, EditProofsComments.v. *)
From Verif.Base Require Import Bytes.
From Coq Require Import Permutation.
From Verif.Modfile Require Import Syntax Print Directives RoundDir2 Reparse3 Reparse5 Reparse7 Reparse9 Reparse11 Reparse12 Reparse15 Reparse16 Reparse18.
From Verif.Modfile Require Import EditModel EditOps EditSpec EditProofsTyped EditProofsHeap EditProofsComments EditProofsSeq EditProofsBlocks EditProofsSetRequire EditProofs2Blocks EditProofs2Inv EditProofs2Refine.

(* Every operation that does not sort blocks refines its documented step on the keyed
   collections: same error result, and the abstraction of the new typed lists is the step
   applied to the abstraction of the old ones.  No hypothesis on the file. *)
Theorem C08_edits_refine_keyed_spec_simple : forall o f,
  simple_op o = true -> valid_args o = true ->
  match apply o f with
  | ROk f' => kstep o (abs f) = (abs f', false)
  | RErr f' => f' = f /\ snd (kstep o (abs f)) = true
  | RPanic => True
  end.
Proof. exact apply_refines_simple. Qed.
Print Assumptions C08_edits_refine_keyed_spec_simple.

(* SortBlocks (File and WorkFile): the documented de-duplication, provided live exclude /
   replace / tool entries have lines of their own ([DedupWf], part of coherence). *)
Theorem C08_sort_blocks_refines : forall f,
  DedupWf f -> abs (sort_blocks f) = fst (kstep SortBlocks (abs f)).
Proof. exact sort_blocks_abs. Qed.
Print Assumptions C08_sort_blocks_refines.

Theorem C08_work_sort_blocks_refines : forall f,
  DedupWf f -> abs (w_sort_blocks f) = fst (kstep WSortBlocks (abs f)).
Proof. exact w_sort_blocks_abs. Qed.
Print Assumptions C08_work_sort_blocks_refines.

(* ... and under the C15 invariant, which provides DedupWf: *)
Theorem C08_sort_blocks_refines_coherent : forall f,
  Coherent f -> abs (sort_blocks f) = fst (kstep SortBlocks (abs f)).
Proof. exact sort_blocks_refines_coherent. Qed.
Print Assumptions C08_sort_blocks_refines_coherent.

(* The three bulk setters refine their documented step: kept entries are the first entry of
   every requested key, with the requested values, in their old order; the others are removed;
   the requested keys that were missing follow (in key order); then the de-duplication of
   SortBlocks.  Side conditions: the C15 invariant (Props/C15.v). *)
Theorem C08_set_require_refines : forall f l f',
  distinct_paths (map req_path l) = true -> Coherent f -> RequireSettable f ->
  set_require f l = Some f' -> abs f' = fst (kstep (SetRequire l) (abs f)).
Proof. exact set_require_refines. Qed.
Print Assumptions C08_set_require_refines.

Theorem C08_set_require_separate_indirect_refines : forall f l f',
  distinct_paths (map req_path l) = true -> Coherent f -> BlockIdsOk (fsyn f) -> RequireSettable f ->
  set_require_separate_indirect f l = Some f' -> abs f' = fst (kstep (SetRequireSeparateIndirect l) (abs f)).
Proof. exact set_require_separate_refines. Qed.
Print Assumptions C08_set_require_separate_indirect_refines.

Theorem C08_set_use_refines : forall f (l : list (str * str)) f',
  distinct_paths (map fst l) = true -> Coherent f ->
  set_use f l = Some f' -> abs f' = fst (kstep (WSetUse l) (abs f)).
Proof. exact set_use_refines. Qed.
Print Assumptions C08_set_use_refines.

(* edits_refine_keyed_spec, one step: EVERY operation (all 37) applied to a state satisfying the
   C15 invariant (Coherent, distinct block identities, no line with the comment shape of
   finding K9) refines its documented step on the keyed collections. *)
Theorem C08_edits_refine_keyed_spec_step : forall o f,
  valid_args o = true -> Coherent f -> BlockIdsOk (fsyn f) -> HeapSettable (fsyn f) ->
  match apply o f with
  | ROk f' => kstep o (abs f) = (abs f', false)
  | RErr f' => f' = f /\ snd (kstep o (abs f)) = true
  | RPanic => True
  end.
Proof. intros o f Hv Hc Hb Hs. exact (apply_refines_inv o f Hv (Build_EditInv f Hc Hb Hs)). Qed.
Print Assumptions C08_edits_refine_keyed_spec_step.

(* ... without the two side conditions for every operation other than the bulk setters *)
Theorem C08_edits_refine_keyed_spec_step_coherent_only : forall o f,
  ref_op o = true -> valid_args o = true -> Coherent f ->
  match apply o f with
  | ROk f' => kstep o (abs f) = (abs f', false)
  | RErr f' => f' = f /\ snd (kstep o (abs f)) = true
  | RPanic => True
  end.
Proof. exact apply_refines_coherent. Qed.
Print Assumptions C08_edits_refine_keyed_spec_step_coherent_only.

(* edits_refine_keyed_spec: every sequence of operations with valid arguments that does not
   panic, from a state satisfying the invariant, ends in such a state, and its per-operation
   errors and final typed lists are exactly those of the keyed model. *)
Theorem C08_edits_refine_keyed_spec : forall ops f errs f',
  Coherent f -> BlockIdsOk (fsyn f) -> HeapSettable (fsyn f) ->
  Forall (fun o => valid_args o = true) ops ->
  run_ops ops f = RunOk errs f' ->
  (Coherent f' /\ BlockIdsOk (fsyn f') /\ HeapSettable (fsyn f')) /\ krun ops (abs f) [] = (abs f', errs).
Proof. exact run_ops_refines_all. Qed.
Print Assumptions C08_edits_refine_keyed_spec.

(* A later operation sees what an earlier one did: e.g. dropping the retraction that was
   just added leaves no entry for it. *)
Theorem C08_later_op_sees_earlier : forall f (lo hi rat : str) f1 f2,
  add_retract f lo hi rat = ROk f1 -> drop_retract f1 lo hi = Some f2 ->
  ~ In (lo, hi, rat) (k_retract (abs f2)).
Proof. exact later_op_sees_earlier. Qed.
Print Assumptions C08_later_op_sees_earlier.

(* Comments.  [keeps_except T s s']: every line that exists in s and is not in T has in s'
   the comments it had in s, possibly extended at the outside by the comments of a
   one-line block that Cleanup collapsed ([com_le]).  [targets o f] are the lines of the
   typed entries that o addresses by key. *)
Theorem C08_untargeted_lines_keep_comments : forall o f,
  match apply o f with
  | ROk f' | RErr f' => keeps_except (targets o f) (fsyn f) (fsyn f')
  | RPanic => True
  end.
Proof. exact comments_kept_op. Qed.
Print Assumptions C08_untargeted_lines_keep_comments.

(* ... and for whole sequences: only lines addressed by some operation of the sequence
   (in the state it was applied to) can lose or change a comment. *)
Theorem C08_untargeted_lines_keep_comments_run : forall ops f errs f',
  run_ops ops f = RunOk errs f' ->
  keeps_except (seq_targets ops f) (fsyn f) (fsyn f').
Proof. exact comments_kept_run_ops. Qed.
Print Assumptions C08_untargeted_lines_keep_comments_run.

(* ---------------------------------------------------------------- result_parses_strictly

   Composition with the parser/printer round trip of C02 and the C15 invariants
   (Modfile/Reparse1-19.v; the hypotheses are explained in Props/C15.v).  For every starting state
   that satisfies the C15 invariant, whose tree is SynGood and whose typed entries are valid
   items, and every sequence of operations with valid arguments that does not panic, followed by
   Cleanup: Format of the final tree is accepted by the strict parser (modfile.Parse without
   fixer / modfile.ParseWork), and the directives it delivers are, as multisets, EXACTLY the
   prediction [krun] of the keyed model (the text values Deprecated / Rationale aside, finding
   K6), with the predicted per-operation errors. *)
Theorem C08_result_parses_strictly : forall name ops f errs f',
  Coherent f -> BlockIdsOk (fsyn f) -> HeapSettable (fsyn f) -> SynGood known_mod_block (fsyn f) -> KOk Pmod (abs f) ->
  Forall (fun o => valid_args o = true) ops -> Forall comment_arg_ok ops -> Forall (strict_args Pmod) ops ->
  run_ops (ops ++ [Cleanup]) f = RunOk errs f' ->
  exists parsed, parse_to_file true None (format (to_syntax name (fsyn f'))) = DOk parsed /\
    (let k := fst (krun (ops ++ [Cleanup]) (abs f) []) in
     option_map (fun m => mv_path (md_mod m)) (fd_module parsed) = k_module k /\
     option_map go_version (fd_go parsed) = k_go k /\
     option_map tc_name (fd_toolchain parsed) = k_toolchain k /\
     Permutation (map (fun g => (Directives.gd_key g, gd_value g)) (fd_godebug parsed)) (k_godebug k) /\
     Permutation (map (fun r => (mv_path (rq_mod r), mv_version (rq_mod r), rq_indirect r)) (fd_require parsed)) (k_require k) /\
     Permutation (map (fun r => (mv_path (ex_mod r), mv_version (ex_mod r))) (fd_exclude parsed)) (k_exclude k) /\
     Permutation (map rep_vals (fd_replace parsed)) (k_replace k) /\
     Permutation (map (fun r => (rt_low r, rt_high r)) (fd_retract parsed))
                 (map (fun x => (fst (fst x), snd (fst x))) (k_retract k)) /\
     Permutation (map Directives.tl_path (fd_tool parsed)) (k_tool k)) /\
    snd (krun (ops ++ [Cleanup]) (abs f) []) = errs.
Proof. exact result_parses_strictly_mod. Qed.
Print Assumptions C08_result_parses_strictly.

Theorem C08_result_parses_strictly_work : forall name ops f errs f',
  Coherent f -> BlockIdsOk (fsyn f) -> HeapSettable (fsyn f) -> SynGood known_work_block (fsyn f) -> KOk Pwork (abs f) ->
  Forall (fun o => valid_args o = true) ops -> Forall comment_arg_ok ops -> Forall (strict_args Pwork) ops ->
  run_ops (ops ++ [WCleanup]) f = RunOk errs f' ->
  exists parsed, parse_work None (format (to_syntax name (fsyn f'))) = DOk parsed /\
    (let k := fst (krun (ops ++ [WCleanup]) (abs f) []) in
     option_map go_version (wf_go parsed) = k_go k /\
     option_map tc_name (wf_toolchain parsed) = k_toolchain k /\
     Permutation (map (fun g => (Directives.gd_key g, gd_value g)) (wf_godebug parsed)) (k_godebug k) /\
     Permutation (map Directives.us_path (wf_use parsed)) (map fst (k_use k)) /\
     Permutation (map rep_vals (wf_replace parsed)) (k_replace k)) /\
    snd (krun (ops ++ [WCleanup]) (abs f) []) = errs.
Proof. exact result_parses_strictly_work. Qed.
Print Assumptions C08_result_parses_strictly_work.

(* the state-level form: ANY coherent state whose tree is printable and whose typed entries are
   valid is formatted to a file the strict parser accepts (no hypothesis on how it was reached) *)
Theorem C08_printable_state_parses_strictly : forall name f,
  Coherent f -> Printable known_mod_block (fsyn f) -> tis_ok (typed_items f) ->
  exists f', parse_to_file true None (format (to_syntax name (fsyn f))) = DOk f'.
Proof. intros name f Hc Hp Ht. destruct (typed_equals_reparse_mod name f Hc Hp Ht) as (f' & H & _). exists f'. exact H. Qed.
Print Assumptions C08_printable_state_parses_strictly.

(* The hypothesis strict_args is needed: the operations do not validate what they write.
   AddToolchainStmt accepts every name matching ToolchainRE = ^default$|^go1($|\.) and writes it
   unquoted; "go1. x y" is accepted by the operation and by the keyed model, and the formatted
   file does not parse (confirmed on the implementation, .work/reparse-scratch/tc_test.go). *)
Example C08_result_parses_strictly_needs_strict_args :
  exists f', add_toolchain_stmt (mkEFile (mkSyn [] 0 no_coms []) None None None [] [] [] [] [] [] []) (B "go1. x y") = ROk f' /\
  k_toolchain (abs f') = Some (B "go1. x y") /\
  exists errs, parse_to_file true None (format (to_syntax [] (fsyn f'))) = DErrs errs.
Proof. eexists. split; [vm_compute; reflexivity|]. split; [vm_compute; reflexivity|]. eexists. vm_compute. reflexivity. Qed.

(* NOT PROVED here:
   "an untargeted line stays in the tree": follows from C15 coherence (the line of a live entry
     is a live line of the tree), not stated separately. *)
