(* C08 — go.mod and go.work edit operations do what a simple set/map model says.
   Property theorems only.  Keyed model: [kstate]/[kstep] in Modfile/EditSpec.v. *)
From Verif.Base Require Import Bytes.
From Verif.Modfile Require Import EditModel EditOps EditSpec EditProofsTyped.

(* Every operation other than the ones that sort blocks refines its documented step on
   the keyed collections: same error result, and the abstraction of the new typed lists
   is the step applied to the abstraction of the old ones. *)
Theorem C08_edits_refine_keyed_spec_simple : forall o f,
  simple_op o = true -> valid_args o = true ->
  match apply o f with
  | ROk f' => kstep o (abs f) = (abs f', false)
  | RErr f' => f' = f /\ snd (kstep o (abs f)) = true
  | RPanic => True
  end.
Proof. exact apply_refines_simple. Qed.
Print Assumptions C08_edits_refine_keyed_spec_simple.
