(* C07 — A signed note opens only with verified signatures over exactly its text.
   Property theorems only; each is closed by [exact] of a lemma proved elsewhere. *)
From Verif.Base Require Import Bytes.
From Verif.Note Require Import Note.
