(* C07 — A signed note opens only with verified signatures over exactly its text.
   Property theorems only; each is closed by [exact] of a lemma proved elsewhere.
   Model: Note/Note.v (note.go); V = Verifier.Verify, Sg = Signer.Sign, sha = SHA-256 are
   arbitrary functions (Section variables of the model), so every theorem holds for every
   signature scheme, every signer and every table of known verifiers. *)
From Verif.Base Require Import Bytes Utf8 Base64.
From Verif.Gen Require Import GenConsts.
From Verif.Note Require Import Note NoteProofs NoteProofsRT.

(* A successful Open: at least one verified signature; the message is the returned text, a
   blank line and a signature block; the text ends in newline and the split is at the LAST
   blank line; every verified signature is a line of the block whose key has exactly one
   known verifier, and that verifier accepted the signature bytes over exactly the returned
   text; every unverified signature is a line of the block whose key is unknown. *)
Theorem C07_open_sound :
  forall (vid : Type) (V : vid -> str -> str -> bool) msg known n,
    open vid V msg known = Ok n ->
    n_sigs n <> [] /\
    (exists sigblock,
        msg = n_text n ++ [10] ++ sigblock /\ last (n_text n) 0 = 10 /\
        (forall j, (length (n_text n) <= j)%nat -> has_prefix (skipn j msg) note_sigSplit = false) /\
        (forall s, In s (n_sigs n) ->
           exists v line line',
             lookup vid known (s_name s) (s_hash s) = LUnique v /\
             v_name v = s_name s /\ v_hash v = s_hash s /\
             V (v_id v) (n_text n) (sig_bytes s) = true /\
             In line (sig_lines sigblock) /\
             parse_sig_line line = Some (line', s_name s, s_hash s, sig_bytes s, s_b64 s)) /\
        (forall s, In s (n_unverified n) ->
           lookup vid known (s_name s) (s_hash s) = LUnknown /\
           exists line line', In line (sig_lines sigblock) /\
             parse_sig_line line = Some (line', s_name s, s_hash s, sig_bytes s, s_b64 s))).
Proof. exact open_sound. Qed.
Print Assumptions C07_open_sound.

(* A known key with a bad signature makes opening fail: if the first signature line for a
   key with exactly one known verifier is rejected by that verifier (over the text Open
   would return), Open returns an error, and not the "merely unverified" one. *)
Theorem C07_open_bad_known_sig_fails :
  forall (vid : Type) (V : vid -> str -> str -> bool)
         msg known split pre line post line' name hash sig b64 v,
    last_index note_sigSplit msg = Some split ->
    sig_lines (skipn (S (S split)) msg) = pre ++ line :: post ->
    (forall l l' n' h' s' b', In l pre -> parse_sig_line l = Some (l', n', h', s', b') ->
                              (n', h') <> (name, hash)) ->
    parse_sig_line line = Some (line', name, hash, sig, b64) ->
    lookup vid known name hash = LUnique v ->
    V (v_id v) (firstn (S split) msg) sig = false ->
    match open vid V msg known with
    | Ok _ => False
    | Err (Unverified _) => False
    | Err _ => True
    end.
Proof. exact open_bad_known_sig_fails. Qed.
Print Assumptions C07_open_bad_known_sig_fails.

(* Tampering: whenever a message is accepted, it contains a signature line for a uniquely
   known key whose verifier accepts those signature bytes for exactly the returned text.
   So a message whose returned text differs from what was signed is accepted only if it
   carries a signature valid for the different text (a forgery of the scheme). *)
Theorem C07_open_text_tamper :
  forall (vid : Type) (V : vid -> str -> str -> bool) msg' known n',
    open vid V msg' known = Ok n' ->
    exists v name hash sig sigblock line line' b64,
      msg' = n_text n' ++ [10] ++ sigblock /\
      In line (sig_lines sigblock) /\ parse_sig_line line = Some (line', name, hash, sig, b64) /\
      lookup vid known name hash = LUnique v /\
      V (v_id v) (n_text n') sig = true.
Proof. exact open_text_tamper. Qed.
Print Assumptions C07_open_text_tamper.

(* NewVerifier binds the key hash to name and key. *)
Theorem C07_verifier_key_binding :
  forall (sha : str -> str) k name h key,
    parse_verifier_key sha k = KOk (name, h, key) -> h = key_hash sha name key.
Proof. exact verifier_key_binding. Qed.
Print Assumptions C07_verifier_key_binding.

(* Tables built by VerifierList never trigger the mismatched-verifier error. *)
Theorem C07_verifier_list_keyed :
  forall (vid : Type) (l : list (verifier vid)) name hash v,
    lookup vid (verifier_list vid l) name hash = LUnique v -> v_name v = name /\ v_hash v = hash.
Proof. intros vid l name hash v. exact (lookup_unique_keyed vid _ name hash v (verifier_list_well_keyed vid l)). Qed.
Print Assumptions C07_verifier_list_keyed.

(* Round trip.  For [t] valid note text (passes Open's scan: valid UTF-8 without C0 control
   characters other than newline; ends in newline), at least one and at most 100 signers, each
   producing a non-empty signature of bytes, with a valid name FREE OF BYTES BELOW 0x20 and
   a 32-bit key hash; [known] a table whose entries sit under their own (name, hash) (every
   table built by VerifierList is one, C07_verifier_list_keyed), not ambiguous for a signer's
   key, and whose verifier for a signer's key accepts that signer's signature of [t]:
   Sign succeeds with the documented format and Open returns exactly the text [t] with
   the signatures of known keys as verified (first one per key, in order) and those of
   unknown keys as unverified (first one per distinct line, in order) - or the
   UnverifiedNoteError carrying that note when no signer is known.
   [is_known]/[is_unknown] classify a signature by [lookup]; [dedup_key]/[dedup_line] keep
   the first signature per (name, hash) / per line text (NoteProofsRT.v). *)
Theorem C07_sign_open_roundtrip :
  forall (vid : Type) (V : vid -> str -> str -> bool) (sid : Type) (Sg : sid -> str -> option str)
         (known : verifiers vid) (t : str) (ss : list (signer sid * str)),
    scan_ok t = true -> has_suffix t [10] = true ->
    ss <> [] -> (length ss <= 100)%nat ->
    (forall s sig, In (s, sig) ss ->
       Sg (sg_id s) t = Some sig /\ sig <> [] /\ Forall (fun b => 0 <= b < 256) sig /\
       is_valid_name (sg_name s) = true /\ Forall (fun b => 32 <= b) (sg_name s) /\
       0 <= sg_hash s < 2 ^ 32) ->
    (forall k l v, In (k, l) known -> In v l -> (v_name v, v_hash v) = k) ->
    (forall s sig, In (s, sig) ss -> lookup vid known (sg_name s) (sg_hash s) <> LAmbiguous) ->
    (forall s sig v, In (s, sig) ss -> lookup vid known (sg_name s) (sg_hash s) = LUnique v ->
                     V (v_id v) t sig = true) ->
    let all := map (fun p => {| s_name := sg_name (fst p); s_hash := sg_hash (fst p);
                                s_b64 := b64_encode (be32_enc (sg_hash (fst p)) ++ snd p) |}) ss in
    let verified := dedup_key [] (filter (is_known vid known) all) in
    let unverified := dedup_line [] (filter (is_unknown vid known) all) in
    exists msg,
      sign sid Sg {| n_text := t; n_sigs := []; n_unverified := [] |} (map fst ss) = Ok msg /\
      msg = t ++ [10] ++ concat (map (fun s => sig_line (s_name s) (s_b64 s)) all) /\
      open vid V msg known =
      match verified with
      | [] => Err (Unverified {| n_text := t; n_sigs := []; n_unverified := unverified |})
      | _ => Ok {| n_text := t; n_sigs := verified; n_unverified := unverified |}
      end.
Proof. exact sign_open_roundtrip_stmt. Qed.
Print Assumptions C07_sign_open_roundtrip.

(* the hypotheses are satisfiable, with a known and an unknown signer: text "hi\n", signers
   "a" (hash 1, known) and "b" (hash 2, unknown), every signature [7] *)
Example C07_roundtrip_instance :
  let V := fun (_ : unit) (_ _ : str) => true in
  let Sg := fun (_ : unit) (_ : str) => Some [7] in
  let sa := {| sg_name := B "a"; sg_hash := 1; sg_id := tt |} in
  let sb := {| sg_name := B "b"; sg_hash := 2; sg_id := tt |} in
  let known := verifier_list unit [{| v_name := B "a"; v_hash := 1; v_id := tt |}] in
  exists msg,
    sign unit Sg {| n_text := B "hi" ++ [10]; n_sigs := []; n_unverified := [] |} [sa; sb] = Ok msg /\
    open unit V msg known =
    Ok {| n_text := B "hi" ++ [10];
          n_sigs := [{| s_name := B "a"; s_hash := 1; s_b64 := B "AAAAAQc=" |}];
          n_unverified := [{| s_name := B "b"; s_hash := 2; s_b64 := B "AAAAAgc=" |}] |}.
Proof. eexists. split; vm_compute; reflexivity. Qed.

(* Existing signatures are re-emitted (verified first, then unverified) except those whose
   key is the key of a new signer; the new signatures follow. *)
Theorem C07_sign_format :
  forall (sid : Type) (Sg : sid -> str -> option str) n signers msg,
    sign sid Sg n signers = Ok msg ->
    has_suffix (n_text n) [10] = true /\
    exists new,
      sign_new sid Sg (n_text n) signers = Ok new /\
      msg = n_text n ++ [10] ++
            concat (map (fun s => sig_line (s_name s) (s_b64 s))
                        (filter (fun s => negb (mem_nh (s_name s, s_hash s)
                                                       (map (fun sg => (sg_name sg, sg_hash sg)) signers)))
                                (n_sigs n ++ n_unverified n))) ++ new.
Proof. exact sign_format. Qed.
Print Assumptions C07_sign_format.

(* K2 (known finding): without "free of bytes below 0x20" the round trip is false.  With the
   signer name "a\x01b" (accepted by isValidName) every other hypothesis holds, Sign
   succeeds, and Open rejects Sign's output as malformed. *)
Theorem C07_sign_open_roundtrip_ctrl_name_refuted :
  let V := fun (_ : unit) (_ _ : str) => true in
  let Sg := fun (_ : unit) (_ : str) => Some [7] in
  exists (t : str) (ss : list (signer unit * str)) (known : verifiers unit) (msg : str),
    scan_ok t = true /\ has_suffix t [10] = true /\ ss <> [] /\ (length ss <= 100)%nat /\
    Forall (fun p => Sg (sg_id (fst p)) t = Some (snd p) /\ snd p <> [] /\
                     Forall (fun b => 0 <= b < 256) (snd p) /\
                     is_valid_name (sg_name (fst p)) = true /\ 0 <= sg_hash (fst p) < 2 ^ 32) ss /\
    (forall k l v, In (k, l) known -> In v l -> (v_name v, v_hash v) = k) /\
    (forall s sig, In (s, sig) ss -> lookup unit known (sg_name s) (sg_hash s) <> LAmbiguous) /\
    (forall s sig v, In (s, sig) ss -> lookup unit known (sg_name s) (sg_hash s) = LUnique v ->
                     V (v_id v) t sig = true) /\
    sign unit Sg {| n_text := t; n_sigs := []; n_unverified := [] |} (map fst ss) = Ok msg /\
    open unit V msg known = Err Malformed.
Proof. exact sign_open_roundtrip_ctrl_name_refuted. Qed.
Print Assumptions C07_sign_open_roundtrip_ctrl_name_refuted.

(* the hypotheses of C07_open_bad_known_sig_fails are satisfiable: "hi\n\n— a AAAAAQc=\n"
   with key a+00000001 known and a verifier that rejects *)
Example C07_bad_known_sig_instance :
  let V := fun (_ : unit) (_ _ : str) => false in
  let known := verifier_list unit [{| v_name := B "a"; v_hash := 1; v_id := tt |}] in
  let line := note_sigPrefix ++ B "a AAAAAQc=" in
  let msg := B "hi" ++ [10; 10] ++ line ++ [10] in
  last_index note_sigSplit msg = Some 2%nat /\
  sig_lines (skipn 4 msg) = [] ++ line :: [] /\
  parse_sig_line line = Some (B "a AAAAAQc=", B "a", 1, [7], B "AAAAAQc=") /\
  lookup unit known (B "a") 1 = LUnique {| v_name := B "a"; v_hash := 1; v_id := tt |} /\
  open unit V msg known = Err (InvalidSignature (B "a") 1).
Proof. vm_compute. repeat split; reflexivity. Qed.
