(* C07 — A signed note opens only with verified signatures over exactly its text.
   Property theorems only; each is closed by [exact] of a lemma proved elsewhere.
   Model: Note/Note.v (note.go); V = Verifier.Verify, Sg = Signer.Sign, sha = SHA-256 are
   arbitrary functions (Section variables of the model), so every theorem holds for every
   signature scheme, every signer and every table of known verifiers. *)
From Verif.Base Require Import Bytes Utf8 Base64.
From Verif.Gen Require Import GenConsts.
From Verif.Note Require Import Note NoteProofs.

(* A successful Open: at least one verified signature; the message is the returned text, a
   blank line and a signature block; the text ends in newline and the split is at the LAST
   blank line; every verified signature is a line of the block whose key has exactly one
   known verifier, and that verifier accepted the signature bytes over exactly the returned
   text; every unverified signature is a line of the block whose key is unknown. *)
Theorem C07_open_sound :
  forall (vid : Type) (V : vid -> str -> str -> bool) msg known n,
    open vid V msg known = Ok n ->
    n_sigs n <> [] /\
    (exists sigblock,
        msg = n_text n ++ [10] ++ sigblock /\ last (n_text n) 0 = 10 /\
        (forall j, (length (n_text n) <= j)%nat -> has_prefix (skipn j msg) note_sigSplit = false) /\
        (forall s, In s (n_sigs n) ->
           exists v line line',
             lookup vid known (s_name s) (s_hash s) = LUnique v /\
             v_name v = s_name s /\ v_hash v = s_hash s /\
             V (v_id v) (n_text n) (sig_bytes s) = true /\
             In line (sig_lines sigblock) /\
             parse_sig_line line = Some (line', s_name s, s_hash s, sig_bytes s, s_b64 s)) /\
        (forall s, In s (n_unverified n) ->
           lookup vid known (s_name s) (s_hash s) = LUnknown /\
           exists line line', In line (sig_lines sigblock) /\
             parse_sig_line line = Some (line', s_name s, s_hash s, sig_bytes s, s_b64 s))).
Proof. exact open_sound. Qed.
Print Assumptions C07_open_sound.

(* A known key with a bad signature makes opening fail: if the first signature line for a
   key with exactly one known verifier is rejected by that verifier (over the text Open
   would return), Open returns an error, and not the "merely unverified" one. *)
Theorem C07_open_bad_known_sig_fails :
  forall (vid : Type) (V : vid -> str -> str -> bool)
         msg known split pre line post line' name hash sig b64 v,
    last_index note_sigSplit msg = Some split ->
    sig_lines (skipn (S (S split)) msg) = pre ++ line :: post ->
    (forall l l' n' h' s' b', In l pre -> parse_sig_line l = Some (l', n', h', s', b') ->
                              (n', h') <> (name, hash)) ->
    parse_sig_line line = Some (line', name, hash, sig, b64) ->
    lookup vid known name hash = LUnique v ->
    V (v_id v) (firstn (S split) msg) sig = false ->
    match open vid V msg known with
    | Ok _ => False
    | Err (Unverified _) => False
    | Err _ => True
    end.
Proof. exact open_bad_known_sig_fails. Qed.
Print Assumptions C07_open_bad_known_sig_fails.

(* Tampering: whenever a message is accepted, it contains a signature line for a uniquely
   known key whose verifier accepts those signature bytes for exactly the returned text.
   So a message whose returned text differs from what was signed is accepted only if it
   carries a signature valid for the different text (a forgery of the scheme). *)
Theorem C07_open_text_tamper :
  forall (vid : Type) (V : vid -> str -> str -> bool) msg' known n',
    open vid V msg' known = Ok n' ->
    exists v name hash sig sigblock line line' b64,
      msg' = n_text n' ++ [10] ++ sigblock /\
      In line (sig_lines sigblock) /\ parse_sig_line line = Some (line', name, hash, sig, b64) /\
      lookup vid known name hash = LUnique v /\
      V (v_id v) (n_text n') sig = true.
Proof. exact open_text_tamper. Qed.
Print Assumptions C07_open_text_tamper.

(* NewVerifier binds the key hash to name and key. *)
Theorem C07_verifier_key_binding :
  forall (sha : str -> str) k name h key,
    parse_verifier_key sha k = KOk (name, h, key) -> h = key_hash sha name key.
Proof. exact verifier_key_binding. Qed.
Print Assumptions C07_verifier_key_binding.

(* Tables built by VerifierList never trigger the mismatched-verifier error. *)
Theorem C07_verifier_list_keyed :
  forall (vid : Type) (l : list (verifier vid)) name hash v,
    lookup vid (verifier_list vid l) name hash = LUnique v -> v_name v = name /\ v_hash v = hash.
Proof. intros vid l name hash v. exact (lookup_unique_keyed vid _ name hash v (verifier_list_well_keyed vid l)). Qed.
Print Assumptions C07_verifier_list_keyed.
