(* C16 — Bulk requirement and use setters produce exactly the requested set.
   Property theorems only; proofs in Modfile/EditProofsExact.v (exact set) and
   Modfile/EditProofsSort.v (block order).  Model: Modfile/EditModel.v, EditOps.v.

   [abs f] (Modfile/EditSpec.v) is the content of the typed lists of f with cleared entries
   dropped; [k_require (abs f)] are the (path, version, indirect) triples of File.Require.
   That the typed lists are what the formatted file says is C15 (coherence). *)
From Coq Require Import Sorted Permutation.
From Verif.Base Require Import Bytes.
From Verif.Modfile Require Import EditModel EditOps EditSpec EditProofsTyped EditProofsSort EditProofsExact EditProofsSetRequire EditProofsLines.

(* SetRequire: whatever the file held before (duplicates, cleared entries, any block
   structure), if the call does not panic the requirements are exactly the requested
   list, also after Cleanup.  [distinct_paths]: the requested paths are non-empty and
   pairwise different. *)
Theorem C16_set_require_exact : forall f l f',
  distinct_paths (map req_path l) = true ->
  set_require f l = Some f' ->
  Permutation (k_require (abs f')) l /\ Permutation (k_require (abs (cleanup f'))) l.
Proof. exact set_require_exact. Qed.
Print Assumptions C16_set_require_exact.

Theorem C16_set_require_separate_exact : forall f l f',
  distinct_paths (map req_path l) = true ->
  set_require_separate_indirect f l = Some f' ->
  Permutation (k_require (abs f')) l /\ Permutation (k_require (abs (cleanup f'))) l.
Proof. exact set_require_separate_exact. Qed.
Print Assumptions C16_set_require_separate_exact.

(* SetUse: exactly the requested (directory, module path) pairs. *)
Theorem C16_set_use_exact : forall f (l : list (str * str)) f',
  distinct_paths (map fst l) = true ->
  set_use f l = Some f' ->
  Permutation (k_use (abs f')) l /\ Permutation (k_use (abs (w_cleanup f'))) l.
Proof. exact set_use_exact. Qed.
Print Assumptions C16_set_use_exact.

(* The same at the level of the syntax tree: the live require lines of the cleaned-up file,
   each read as [quoted path; version; indirect marking], are exactly the requested list.
   [Coherent] is the C15 invariant, [RequireSettable] excludes the corner
   "// indirect; indirect; ..." (Props/C15.v, C15_coherent_set_require_refuted). *)
Theorem C16_set_require_lines_exact : forall f l f',
  distinct_paths (map req_path l) = true -> Coherent f -> RequireSettable f ->
  set_require f l = Some f' ->
  Permutation (map snd (filter is_require_view (tree_view (fsyn (cleanup f'))))) (map render_req l).
Proof. exact set_require_lines_exact. Qed.
Print Assumptions C16_set_require_lines_exact.

(* the hypotheses are satisfiable: a file with a duplicated requirement, one request *)
Example C16_set_require_exact_nonvacuous :
  distinct_paths (map req_path [(B "a.b/c", B "v1.2.0", true)]) = true /\
  exists f', set_require example_dup_file [(B "a.b/c", B "v1.2.0", true)] = Some f'
             /\ k_require (abs (cleanup f')) = [(B "a.b/c", B "v1.2.0", true)].
Proof. exact set_require_exact_nonvacuous. Qed.

(* After SortBlocks (hence after SetRequire, SetRequireSeparateIndirect, AddTool, SetUse,
   which end with it) every block is in the order of the comparator SortBlocks selects
   for it: no line is "less" than its predecessor.  [block_less f b] is lineExcludeLess for
   exclude blocks when the go version is at least 1.21 (go/version language order),
   lineRetractLess for retract blocks, lineLess otherwise. *)
Theorem C16_blocks_sorted : forall f b,
  In (SBlock b) (stmts (fsyn (sort_blocks f))) ->
  Sorted (fun a c => block_less f b c a = false) (block_toks (fsyn (sort_blocks f)) b).
Proof. exact blocks_sorted. Qed.
Print Assumptions C16_blocks_sorted.

Theorem C16_set_require_ends_with_sort : forall f l f',
  set_require f l = Some f' -> exists g, f' = sort_blocks g.
Proof. exact set_require_sorts. Qed.
Print Assumptions C16_set_require_ends_with_sort.

Theorem C16_set_require_separate_ends_with_sort : forall f l f',
  set_require_separate_indirect f l = Some f' -> exists g, f' = sort_blocks g.
Proof. exact set_require_separate_indirect_sorts. Qed.
Print Assumptions C16_set_require_separate_ends_with_sort.

(* The three comparators are asymmetric (the half of "strict weak order" that the
   adjacent-order statement above needs). *)
Theorem C16_comparators_asymmetric : forall a b,
  (toks_less a b = true -> toks_less b a = false) /\
  (exclude_less a b = true -> exclude_less b a = false) /\
  (retract_less a b = true -> retract_less b a = false).
Proof. exact comparators_asymmetric. Qed.
Print Assumptions C16_comparators_asymmetric.

(* Cleanup does not change the directives a file denotes. *)
Theorem C16_cleanup_keeps_directives : forall f, abs (cleanup f) = abs f.
Proof. exact cleanup_abs. Qed.
Print Assumptions C16_cleanup_keeps_directives.

(* NOT PROVED (validated by the correspondence run and the Go oracles only):

   kept_comments_survive — proved in the stronger per-line form as C08_comments_kept_*:
     SetRequire / SetRequireSeparateIndirect / SetUse may change the comments of the
     require / use lines only; which change setIndirect makes is [set_indirect_line].

   separate_indirect_blocks : if the only require statement of a cleaned file is one
     uncommented line or block, after set_require_separate_indirect and cleanup no block
     holds both direct and indirect requirements.  (oracle "separate-indirect-two-blocks")

   need_order_irrelevant : the result of the bulk setters does not depend on the order in
     which the remaining [need] entries are added.  The model adds them in key order; the
     harness runs every sequence three times under Go's randomised map order and all
     observables except the ORDER of File.Require / WorkFile.Use agree.

   blocks stay sorted through Cleanup (needs transitivity of the comparators on the lines
     of a block; asymmetry is proved above). *)
