(* C16 — Bulk requirement and use setters produce exactly the requested set.
   Property theorems only. *)
From Verif.Base Require Import Bytes.
From Verif.Modfile Require Import EditModel EditOps EditSpec EditProofsTyped.

(* Cleanup does not change the directives a file denotes. *)
Theorem C16_cleanup_keeps_directives : forall f, abs (cleanup f) = abs f.
Proof. exact cleanup_abs. Qed.
Print Assumptions C16_cleanup_keeps_directives.
