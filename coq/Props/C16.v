(* C16 — Bulk requirement and use setters produce exactly the requested set.
   Property theorems only; proofs in Modfile/EditProofsExact.v (exact set) and
   Modfile/EditProofsSort.v (block order).  Model: Modfile/EditModel.v, EditOps.v.

   [abs f] (Modfile/EditSpec.v) is the content of the typed lists of f with cleared entries
   dropped; [k_require (abs f)] are the (path, version, indirect) triples of File.Require.
   That the typed lists are what the formatted file says is C15 (coherence). *)
From Coq Require Import Sorted Permutation.
From Verif.Base Require Import Bytes.
From Verif.Modfile Require Import Syntax EditModel EditOps EditSpec EditProofsTyped EditProofsSort EditProofsExact EditProofsSetRequire EditProofsLines EditProofs2Blocks EditProofs2Sri EditProofs2Inv EditProofs2Separate EditProofs2Order EditProofs2Sorted EditProofs2Place EditProofs2NeedOrder EditProofs2NeedOrderSri EditProofs2Quote.

(* SetRequire: whatever the file held before (duplicates, cleared entries, any block
   structure), if the call does not panic the requirements are exactly the requested
   list, also after Cleanup.  [distinct_paths]: the requested paths are non-empty and
   pairwise different. *)
Theorem C16_set_require_exact : forall f l f',
  distinct_paths (map req_path l) = true ->
  set_require f l = Some f' ->
  Permutation (k_require (abs f')) l /\ Permutation (k_require (abs (cleanup f'))) l.
Proof. exact set_require_exact. Qed.
Print Assumptions C16_set_require_exact.

Theorem C16_set_require_separate_exact : forall f l f',
  distinct_paths (map req_path l) = true ->
  set_require_separate_indirect f l = Some f' ->
  Permutation (k_require (abs f')) l /\ Permutation (k_require (abs (cleanup f'))) l.
Proof. exact set_require_separate_exact. Qed.
Print Assumptions C16_set_require_separate_exact.

(* SetUse: exactly the requested (directory, module path) pairs. *)
Theorem C16_set_use_exact : forall f (l : list (str * str)) f',
  distinct_paths (map fst l) = true ->
  set_use f l = Some f' ->
  Permutation (k_use (abs f')) l /\ Permutation (k_use (abs (w_cleanup f'))) l.
Proof. exact set_use_exact. Qed.
Print Assumptions C16_set_use_exact.

(* The same at the level of the syntax tree: the live require lines of the cleaned-up file,
   each read as [quoted path; version; indirect marking], are exactly the requested list.
   [Coherent] is the C15 invariant, [RequireSettable] excludes the corner
   "// indirect; indirect; ..." (Props/C15.v, C15_coherent_set_require_refuted). *)
Theorem C16_set_require_lines_exact : forall f l f',
  distinct_paths (map req_path l) = true -> Coherent f -> RequireSettable f ->
  set_require f l = Some f' ->
  Permutation (map snd (filter is_require_view (tree_view (fsyn (cleanup f'))))) (map render_req l).
Proof. exact set_require_lines_exact. Qed.
Print Assumptions C16_set_require_lines_exact.

(* the hypotheses are satisfiable: a file with a duplicated requirement, one request *)
Example C16_set_require_exact_nonvacuous :
  distinct_paths (map req_path [(B "a.b/c", B "v1.2.0", true)]) = true /\
  exists f', set_require example_dup_file [(B "a.b/c", B "v1.2.0", true)] = Some f'
             /\ k_require (abs (cleanup f')) = [(B "a.b/c", B "v1.2.0", true)].
Proof. exact set_require_exact_nonvacuous. Qed.

(* After SortBlocks (hence after SetRequire, SetRequireSeparateIndirect, AddTool, SetUse,
   which end with it) every block is in the order of the comparator SortBlocks selects
   for it: no line is "less" than its predecessor.  [block_less f b] is lineExcludeLess for
   exclude blocks when the go version is at least 1.21 (go/version language order),
   lineRetractLess for retract blocks, lineLess otherwise. *)
Theorem C16_blocks_sorted : forall f b,
  In (SBlock b) (stmts (fsyn (sort_blocks f))) ->
  Sorted (fun a c => block_less f b c a = false) (block_toks (fsyn (sort_blocks f)) b).
Proof. exact blocks_sorted. Qed.
Print Assumptions C16_blocks_sorted.

Theorem C16_set_require_ends_with_sort : forall f l f',
  set_require f l = Some f' -> exists g, f' = sort_blocks g.
Proof. exact set_require_sorts. Qed.
Print Assumptions C16_set_require_ends_with_sort.

Theorem C16_set_require_separate_ends_with_sort : forall f l f',
  set_require_separate_indirect f l = Some f' -> exists g, f' = sort_blocks g.
Proof. exact set_require_separate_indirect_sorts. Qed.
Print Assumptions C16_set_require_separate_ends_with_sort.

(* The three comparators are asymmetric (the half of "strict weak order" that the
   adjacent-order statement above needs). *)
Theorem C16_comparators_asymmetric : forall a b,
  (toks_less a b = true -> toks_less b a = false) /\
  (exclude_less a b = true -> exclude_less b a = false) /\
  (retract_less a b = true -> retract_less b a = false).
Proof. exact comparators_asymmetric. Qed.
Print Assumptions C16_comparators_asymmetric.

(* Cleanup does not change the directives a file denotes. *)
Theorem C16_cleanup_keeps_directives : forall f, abs (cleanup f) = abs f.
Proof. exact cleanup_abs. Qed.
Print Assumptions C16_cleanup_keeps_directives.

(* ---- the same at line level for SetRequireSeparateIndirect ([BlockIdsOk]: block identities are
   distinct, Props/C15.v) *)
Theorem C16_set_require_separate_lines_exact : forall f l f',
  distinct_paths (map req_path l) = true -> Coherent f -> BlockIdsOk (fsyn f) -> RequireSettable f ->
  set_require_separate_indirect f l = Some f' ->
  Permutation (map snd (filter is_require_view (tree_view (fsyn (cleanup f'))))) (map render_req l).
Proof. exact set_require_separate_lines_exact. Qed.
Print Assumptions C16_set_require_separate_lines_exact.

(* ---- separate_indirect_blocks.  [one_flat_uncommented s] is the model's oneFlatUncommentedBlock:
   the scan of SetRequireSeparateIndirect counts exactly one require line or block, and that
   statement has no comments of its own other than "// indirect" ([has_comments]).  Then, after
   the call and Cleanup, every require block of the file is direct-only or indirect-only: no
   block holds both a direct and an indirect requirement (so when both kinds are requested they
   are in different statements; together with C16_set_require_separate_lines_exact the direct
   ones and the indirect ones are all there). *)
Theorem C16_separate_indirect_blocks : forall f l f',
  distinct_paths (map req_path l) = true -> Coherent f -> BlockIdsOk (fsyn f) -> RequireSettable f ->
  one_flat_uncommented (fsyn f) = true ->
  set_require_separate_indirect f l = Some f' ->
  forall b, In (SBlock b) (stmts (fsyn (cleanup f'))) -> hd_is (hb_tok b) v_require = true ->
    (forall i, In i (hb_lines b) -> is_indirect (sget (fsyn (cleanup f')) i) = false) \/
    (forall i, In i (hb_lines b) -> is_indirect (sget (fsyn (cleanup f')) i) = true).
Proof. exact separate_indirect_blocks. Qed.
Print Assumptions C16_separate_indirect_blocks.

(* what the precondition says about the statement list: exactly one statement is a require
   line or require block ([is_req_stmt]), and it carries no comments of its own (comments on
   the lines INSIDE a block do not count, as in the code) *)
Theorem C16_one_flat_uncommented_spec : forall s,
  one_flat_uncommented s = true ->
  exists pre st post, stmts s = pre ++ st :: post /\ is_req_stmt s st = true /\
    has_comments (stmt_coms s st) = false /\
    filter (is_req_stmt s) pre = [] /\ filter (is_req_stmt s) post = [].
Proof. exact one_flat_uncommented_spec. Qed.
Print Assumptions C16_one_flat_uncommented_spec.

(* ---- the comparators are strict weak orders: asymmetric, transitive, and "a is not after b" is
   transitive (hence incomparability is transitive).  lineLess and lineRetractLess on all token
   lists; lineExcludeLess on the lines an exclude block holds ([exclude_line]: a removed line,
   no token, or "path version", two tokens) — uses the SemVer comparison laws of C04. *)
Theorem C16_comparators_strict_weak :
  (forall a b c,
     (toks_less a b = true -> toks_less b a = false) /\
     (toks_less a b = true -> toks_less b c = true -> toks_less a c = true) /\
     (toks_less b a = false -> toks_less c b = false -> toks_less c a = false)) /\
  (forall a b c,
     (retract_less a b = true -> retract_less b a = false) /\
     (retract_less a b = true -> retract_less b c = true -> retract_less a c = true) /\
     (retract_less b a = false -> retract_less c b = false -> retract_less c a = false)) /\
  (forall a b c, (a = [] \/ length a = 2%nat) -> (b = [] \/ length b = 2%nat) -> (c = [] \/ length c = 2%nat) ->
     (exclude_less a b = true -> exclude_less b a = false) /\
     (exclude_less a b = true -> exclude_less b c = true -> exclude_less a c = true) /\
     (exclude_less b a = false -> exclude_less c b = false -> exclude_less c a = false)).
Proof.
  split; [|split].
  - intros a b c. destruct toks_less_swo as [A Bq C]. repeat split; [apply A | apply Bq | apply C]; exact I.
  - intros a b c. destruct retract_less_swo as [A Bq C]. repeat split; [apply A | apply Bq | apply C]; exact I.
  - intros a b c Da Db Dc. destruct exclude_less_swo as [A Bq C]. repeat split; [apply A | apply Bq | apply C]; assumption.
Qed.
Print Assumptions C16_comparators_strict_weak.

(* the restriction is needed: on token lists of other lengths lineExcludeLess falls back to
   lineLess and the mixture is not transitive *)
Theorem C16_exclude_less_not_transitive_in_general :
  exists a b c, exclude_less a b = true /\ exclude_less b c = true /\ exclude_less a c = false.
Proof. exact exclude_less_not_transitive_in_general. Qed.
Print Assumptions C16_exclude_less_not_transitive_in_general.

(* ... and in a coherent file (C15) the lines of a block are in the domain of its comparator
   ([block_dom f b] = the two-token-or-removed shape when lineExcludeLess is used, no
   restriction otherwise) *)
Theorem C16_block_lines_in_comparator_domain : forall f b,
  Coherent f -> In (SBlock b) (stmts (fsyn f)) -> Forall (block_dom f b) (block_toks (fsyn f) b).
Proof. exact block_toks_dom. Qed.
Print Assumptions C16_block_lines_in_comparator_domain.

(* ---- blocks_stay_sorted_through_cleanup *)
Theorem C16_blocks_stay_sorted_through_cleanup : forall f,
  Coherent f ->
  (forall b, In (SBlock b) (stmts (fsyn f)) ->
     Sorted (fun a c => block_less f b c a = false) (block_toks (fsyn f) b)) ->
  forall b', In (SBlock b') (stmts (fsyn (cleanup f))) ->
  Sorted (fun a c => block_less (cleanup f) b' c a = false) (block_toks (fsyn (cleanup f)) b').
Proof. exact blocks_stay_sorted_through_cleanup. Qed.
Print Assumptions C16_blocks_stay_sorted_through_cleanup.

Theorem C16_blocks_sorted_after_cleanup : forall f b,
  Coherent f ->
  In (SBlock b) (stmts (fsyn (cleanup (sort_blocks f)))) ->
  Sorted (fun a c => block_less f b c a = false) (block_toks (fsyn (cleanup (sort_blocks f))) b).
Proof. exact blocks_sorted_after_cleanup. Qed.
Print Assumptions C16_blocks_sorted_after_cleanup.

(* ---- SortBlocks is determined.  The model sorts by stable insertion, Go calls sort.SliceStable.
   The model's sort is stable ([before l x y]: x occurs before y in l), and ANY rearrangement of
   the lines of a block that is sorted by the block's comparator and keeps the order of the
   lines the comparator does not separate — everything sort.SliceStable's contract allows — is
   the list the model computes (f: the file after removeDups; line identities are distinct). *)
Theorem C16_model_sort_is_stable : forall (less : lid -> lid -> bool) l x y,
  before l x y -> less x y = false -> less y x = false -> before (stable_sort less l) x y.
Proof. intros less l x y. exact (stable_sort_stable less l x y). Qed.
Print Assumptions C16_model_sort_is_stable.

Theorem C16_sort_block_determined : forall f b lines',
  Coherent f -> In (SBlock b) (stmts (fsyn f)) ->
  let less := fun i j => block_less f b (hl_tok (hget (heap (fsyn f)) i)) (hl_tok (hget (heap (fsyn f)) j)) in
  Permutation (hb_lines b) lines' ->
  Sorted (fun i j => less j i = false) lines' ->
  (forall x y, before (hb_lines b) x y -> less x y = false -> less y x = false -> before lines' x y) ->
  lines' = hb_lines (sort_block (heap (fsyn f)) (block_less f b) b).
Proof. exact sort_block_determined. Qed.
Print Assumptions C16_sort_block_determined.

(* ---- need_order_irrelevant.  SetRequire, SetRequireSeparateIndirect and SetUse add the entries that
   are not yet in the file by ranging over a Go map, i.e. in an unspecified order; the model
   ranges in key order.  [set_require_enum enum], [set_require_separate_indirect_enum enum],
   [set_use_enum enum] (Modfile/EditProofs2NeedOrder*.v) are the three operations with the map
   enumerated by an ARBITRARY function [enum] that returns a permutation of the map's entries;
   with the identity they are the model's operations.  Whatever [enum] is: the syntax tree of the
   result ([to_syntax]: the heap model rendered as a FileSyntax, line identities dropped) is
   the same, the Require / Use list is the same multiset, all other typed lists are equal.
   Hypotheses: the C15 invariant, and distinct requested paths stay distinct when written
   (AutoQuote; it is injective on byte strings). *)
Theorem C16_enum_identity_is_the_model : forall f,
  (forall l, set_require_enum (fun m => m) f l = set_require f l) /\
  (forall l, set_require_separate_indirect_enum (fun m => m) f l = set_require_separate_indirect f l) /\
  (forall l, set_use_enum (fun m => m) f l = set_use f l).
Proof. intros f. split; [|split]; intros l; reflexivity. Qed.
Print Assumptions C16_enum_identity_is_the_model.

Theorem C16_need_order_irrelevant_set_require : forall enum f l f' name,
  (forall m, Permutation m (enum m)) ->
  distinct_paths (map req_path l) = true -> NoDup (map (fun q => auto_quote (req_path q)) l) ->
  Coherent f -> BlockIdsOk (fsyn f) -> HeapSettable (fsyn f) ->
  set_require f l = Some f' ->
  exists f'', set_require_enum enum f l = Some f'' /\
    to_syntax name (fsyn f'') = to_syntax name (fsyn f') /\
    Permutation (k_require (abs f'')) (k_require (abs f')) /\
    kset_require (abs f'') [] = kset_require (abs f') [].
Proof. exact set_require_need_order_irrelevant. Qed.
Print Assumptions C16_need_order_irrelevant_set_require.

Theorem C16_need_order_irrelevant_set_require_separate : forall enum f l f' name,
  (forall m, Permutation m (enum m)) ->
  distinct_paths (map req_path l) = true -> NoDup (map (fun q => auto_quote (req_path q)) l) ->
  Coherent f -> BlockIdsOk (fsyn f) -> RequireSettable f ->
  set_require_separate_indirect f l = Some f' ->
  exists f'', set_require_separate_indirect_enum enum f l = Some f'' /\
    to_syntax name (fsyn f'') = to_syntax name (fsyn f') /\
    Permutation (k_require (abs f'')) (k_require (abs f')) /\
    kset_require (abs f'') [] = kset_require (abs f') [].
Proof. exact set_require_separate_need_order_irrelevant. Qed.
Print Assumptions C16_need_order_irrelevant_set_require_separate.

Theorem C16_need_order_irrelevant_set_use : forall enum f (l : list (str * str)) f' name,
  (forall m, Permutation m (enum m)) ->
  distinct_paths (map fst l) = true -> NoDup (map (fun q => auto_quote (fst q)) l) ->
  Coherent f -> BlockIdsOk (fsyn f) -> HeapSettable (fsyn f) ->
  set_use f l = Some f' ->
  exists f'', set_use_enum enum f l = Some f'' /\
    to_syntax name (fsyn f'') = to_syntax name (fsyn f') /\
    Permutation (k_use (abs f'')) (k_use (abs f')) /\
    kset_use (abs f'') [] = kset_use (abs f') [].
Proof. exact set_use_need_order_irrelevant. Qed.
Print Assumptions C16_need_order_irrelevant_set_use.

(* the AutoQuote hypothesis holds for byte strings (every Go string): AutoQuote is injective,
   so requested paths that are pairwise different are written as pairwise different tokens *)
Theorem C16_auto_quote_injective : forall a b,
  Forall (fun c => 0 <= c < 256) a -> Forall (fun c => 0 <= c < 256) b -> auto_quote a = auto_quote b -> a = b.
Proof. exact auto_quote_inj. Qed.
Print Assumptions C16_auto_quote_injective.

Theorem C16_distinct_paths_distinct_tokens : forall l : list req,
  NoDup (map req_path l) -> Forall (fun q => Forall (fun c => 0 <= c < 256) (req_path q)) l ->
  NoDup (map (fun q => auto_quote (req_path q)) l).
Proof. intros l. exact (nodup_auto_quote req_path l). Qed.
Print Assumptions C16_distinct_paths_distinct_tokens.

(* what makes this work: addLine with a nil hint is a function of the statement list — the new
   line goes to the LAST statement headed by the verb (Modfile/EditProofs2Place.v) *)
Theorem C16_add_line_nil_hint_spec : forall s verb args,
  NoDup (map fst (tree_lines s)) -> NoDup (block_ids (stmts s)) ->
  add_place s verb args (fst (add_line s None verb args)) /\ snd (add_line s None verb args) = length (heap s).
Proof. exact add_line_none_spec. Qed.
Print Assumptions C16_add_line_nil_hint_spec.

(* NOT PROVED here:
   kept_comments_survive — proved in the stronger per-line form as C08_comments_kept_*:
     SetRequire / SetRequireSeparateIndirect / SetUse may change the comments of the
     require / use lines only; which change setIndirect makes is [set_indirect_line]. *)
