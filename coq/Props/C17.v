(* C17 — Which files belong in a module zip is a fixed function of the tree.
   Property theorems only; each is closed by [exact] of a lemma proved in Zip/Proofs*.v. *)
From Verif.Base Require Import Bytes PathClean.
From Verif.Gen Require Import GenConsts.
From Verif.Module Require Import Path.
From Verif.Zip Require Import Check Create ProofsPath ProofsColl ProofsClass ProofsZip ProofsRules ProofsDirList ProofsRepeated ProofsDirTree.
From Coq Require Import Sorting.Permutation.

(* For a list of files with distinct paths, every path is in exactly one of Valid, Omitted
   and Invalid of the report of checkFiles (whatever the go version regime ge124), and the
   report lists nothing else. *)
Theorem C17_classification_total_exclusive :
  forall (ge124 : bool) (files : list file),
    NoDup (map f_path files) ->
    (forall p, In p (map f_path files) ->
       count_occ str_eq_dec
         (c_valid (check_files_with ge124 files)
          ++ map fst (c_omitted (check_files_with ge124 files))
          ++ map fst (c_invalid (check_files_with ge124 files))) p = 1%nat) /\
    (forall p,
       In p (c_valid (check_files_with ge124 files)
             ++ map fst (c_omitted (check_files_with ge124 files))
             ++ map fst (c_invalid (check_files_with ge124 files))) ->
       In p (map f_path files)).
Proof. exact classification_total_exclusive. Qed.
Print Assumptions C17_classification_total_exclusive.

(* the fuel of the collision checker never runs out in checkFiles *)
Theorem C17_check_files_no_fuel :
  forall (ge124 : bool) (files : list file), c_fuel (check_files_with ge124 files) = false.
Proof. exact check_files_no_fuel. Qed.
Print Assumptions C17_check_files_no_fuel.

(* Lists with repeated paths (nothing is hidden by the NoDup hypothesis above): every input path
   is reported in at least one list; no path is both omitted and invalid and none is repeated
   within Omitted/Invalid (first report wins) or within Valid; a path that is valid AND reported
   as omitted or invalid occurs at least twice in the input. *)
Theorem C17_classification_repeated :
  forall (ge124 : bool) (files : list file),
    let cf := check_files_with ge124 files in
    (forall p, In p (map f_path files) ->
       In p (c_valid cf ++ map fst (c_omitted cf) ++ map fst (c_invalid cf))) /\
    NoDup (map fst (c_omitted cf) ++ map fst (c_invalid cf)) /\
    NoDup (c_valid cf) /\
    (forall p, In p (c_valid cf) -> In p (map fst (c_omitted cf) ++ map fst (c_invalid cf)) ->
               (2 <= count_occ str_eq_dec (map f_path files) p)%nat).
Proof. exact classification_repeated. Qed.
Print Assumptions C17_classification_repeated.

(* what repetition does: a repeated valid regular path is in Valid once and in Invalid once as
   "multiple entries"; and it is not always the first occurrence that decides - a path whose
   first occurrence fails Lstat and whose second is a regular file is Invalid AND Valid *)
Example C17_repeated_examples :
  let f lstat := mkFile (B "a.go") lstat MRegular 1 true (B "x") false in
  check_files [f true; f true; f true]
    = mkChecked [B "a.go"] [] [(B "a.go", FE_CollMultiple)] false false /\
  check_files [f false; f true]
    = mkChecked [B "a.go"] [] [(B "a.go", FE_Lstat)] false false.
Proof. split; vm_compute; reflexivity. Qed.

(* The class of every file of a list with distinct paths is the declarative decision list below,
   evaluated on the file's path, Lstat result (error | mode, size), the go-version regime, and a
   context consisting only of the set of go.mod directories of the list and the collision
   checker filled by the earlier files that reach it (coll_after: a function of their paths and
   is-directory flags).  Together with C17_classification_total_exclusive (exactly one list)
   this determines the report; nothing else influences the class. *)
Theorem C17_classification_by_rules :
  forall (ge124 : bool) (files pre : list file) (f : file) (post : list file),
    NoDup (map f_path files) -> files = pre ++ f :: post ->
    let have := have_gomod files in
    let cc := coll_after ge124 have pre in
    let p := f_path f in
    class_in (check_files_with ge124 files) p
      (if gomod_named p && negb (f_lstat_ok f) then CInvalid FE_Lstat
       else match pre_class ge124 have p with
            | Some (true, e) => COmitted e
            | Some (false, e) => CInvalid e
            | None =>
                if negb (f_lstat_ok f) then CInvalid FE_Lstat
                else match snd (cc_check (S (length p)) cc p (is_dir_mode (f_mode f))) with
                     | CCErr e => CInvalid e
                     | CCFuel => CInvalid FE_Lstat
                     | CCOk =>
                         match f_mode f with
                         | MSymlink => COmitted FE_Symlink
                         | MDir | MOther => COmitted FE_NotRegular
                         | MRegular =>
                             if str_eqb p go_mod && (zip_MaxGoMod <? f_size f) then CInvalid FE_GoModSize
                             else if str_eqb p (B "LICENSE") && (zip_MaxLICENSE <? f_size f)
                                  then CInvalid FE_LicenseSize
                             else CValid
                         end
                     end
            end).
Proof. exact classification_by_rules. Qed.
Print Assumptions C17_classification_by_rules.

(* the path-only part of the decision list (pre_class), spelled out *)
Theorem C17_pre_class_unfold :
  forall (ge124 : bool) (have : list str) (p : str),
    pre_class ge124 have p =
      if negb (str_eqb p (path_clean p)) then Some (false, FE_NotClean)
      else if path_is_abs p then Some (false, FE_NotRelative)
      else if is_vendored_package p ge124 then Some (true, FE_Vendored)
      else if in_submodule have p then Some (true, FE_SubmoduleFile)
      else if str_eqb p (B ".hg_archival.txt") then Some (true, FE_HgArchival)
      else if negb (ok_b (check_file_path p)) then Some (false, FE_BadPath)
      else if str_eqb (ascii_lower p) go_mod && negb (str_eqb p go_mod) then Some (false, FE_GoModCase)
      else None.
Proof. reflexivity. Qed.
Print Assumptions C17_pre_class_unfold.

(* Order independence.  "No collisions": the paths registered by the files that reach the
   collision check (each path and its ancestor directories) are pairwise compatible, i.e.
   equal under case folding only if they are the same directory.  Then this also holds for
   every permutation of the list, and every file gets the same class (valid / omitted with the
   same reason / invalid with the same reason) in both orders. *)
Theorem C17_order_independence :
  forall (ge124 : bool) (files files' : list file),
    Permutation files files' -> NoDup (map f_path files) ->
    coll_free (reach_items ge124 (have_gomod files) files) ->
    coll_free (reach_items ge124 (have_gomod files') files') /\
    (forall f, In f files ->
       class_in (check_files_with ge124 files) (f_path f) (rule_nocoll ge124 (have_gomod files) f) /\
       class_in (check_files_with ge124 files') (f_path f) (rule_nocoll ge124 (have_gomod files) f)).
Proof. exact order_independence. Qed.
Print Assumptions C17_order_independence.

(* in particular the set Valid is invariant under permutation of the input *)
Theorem C17_order_independence_valid :
  forall (ge124 : bool) (files files' : list file),
    Permutation files files' -> NoDup (map f_path files) ->
    coll_free (reach_items ge124 (have_gomod files) files) ->
    forall p, In p (c_valid (check_files_with ge124 files)) <-> In p (c_valid (check_files_with ge124 files')).
Proof. exact order_independence_valid. Qed.
Print Assumptions C17_order_independence_valid.

(* "no collisions" can be read off the report: no file is reported with one of the three
   collision errors.  (With collisions, which of the colliding paths is invalid depends on the
   order: C17_classification_by_rules says exactly how, through coll_after.) *)
Theorem C17_no_collision_report_free :
  forall (ge124 : bool) (files : list file),
    NoDup (map f_path files) ->
    (forall p e, In (p, e) (c_invalid (check_files_with ge124 files)) ->
       match e with FE_CollCase | FE_CollFileDir | FE_CollMultiple => false | _ => true end = true) ->
    coll_free (reach_items ge124 (have_gomod files) files).
Proof.
  intros ge files Hnd H. apply no_collision_report_free; [exact Hnd|].
  intros p e Hin. specialize (H p e Hin). destruct e; cbn in *; congruence.
Qed.
Print Assumptions C17_no_collision_report_free.

(* Directory versus list (DESIGN.md dir_vs_list_agree).  For a directory tree made only of
   regular files and directories, with well-formed distinct names in every directory and no
   .bzr/.git/.hg/.svn directories ([plain]: every name is a good path element and not a VCS
   name, names are distinct, files are regular), the list check on the pruned listing that
   listFilesInDir produces (what CheckDir / CreateFromDir use) and on the plain list of all
   regular files of the tree report the same valid files in the same order, the same invalid
   files and the same size error, and Create gives the same result (success or the same error
   class, and the same entries) on both lists. *)
Theorem C17_dir_vs_list_agree :
  forall (ch : list (str * tnode)),
    plain (TDir ch) ->
    let fl := fst (list_files_in_dir ch) in
    let fa := all_regular_files ch in
    c_valid (check_files fl) = c_valid (check_files fa) /\
    c_invalid (check_files fl) = c_invalid (check_files fa) /\
    c_sizeerr (check_files fl) = c_sizeerr (check_files fa) /\
    valid_files fl = valid_files fa /\
    (forall mp mv, create mp mv fl = create mp mv fa).
Proof. exact dir_vs_list_agree. Qed.
Print Assumptions C17_dir_vs_list_agree.

(* [plain], spelled out *)
Theorem C17_plain_unfold :
  forall ch, plain (TDir ch) <->
    NoDup (map fst ch) /\
    Forall (fun nc => good_elem (fst nc) /\ is_vcs_name (fst nc) = false /\ plain (snd nc)) ch.
Proof. intros ch. split; [intros H; inversion H; auto|intros [H1 H2]; constructor; assumption]. Qed.
Print Assumptions C17_plain_unfold.

(* the two facts about isVendoredPackage behind it: everything below a vendored directory is
   vendored, and everything beside or below a vendored file other than vendor/modules.txt is *)
Theorem C17_vendored_closure :
  (forall D rest ge124, is_vendored_package D ge124 = true ->
     is_vendored_package (D ++ 47 :: rest) ge124 = true) /\
  (forall d base rest ge124, ~ In 47 base -> d ++ base <> B "vendor/modules.txt" ->
     is_vendored_package (d ++ base) ge124 = true -> is_vendored_package (d ++ rest) ge124 = true).
Proof. split; [exact vendored_below|exact vendored_sibling]. Qed.
Print Assumptions C17_vendored_closure.

(* non-vacuity of [plain]: a tree with a root go.mod, a package, a nested module and a vendored
   package *)
Example C17_plain_example :
  plain (TDir [(B "go.mod", TFile MRegular (B "module m") true);
               (B "a", TDir [(B "x.go", TFile MRegular (B "x") false)]);
               (B "sub", TDir [(B "go.mod", TFile MRegular (B "") false)]);
               (B "vendor", TDir [(B "p", TDir [(B "q.go", TFile MRegular (B "q") false)])])]).
Proof.
  assert (G : forall s : str, s <> [] -> ~ In 47 s -> s <> dot -> s <> dotdot -> good_elem s)
    by (intros s H1 H2 H3 H4; repeat split; assumption).
  repeat (first [ apply plain_file
                | apply plain_dir; [cbn; repeat constructor; cbn; intuition discriminate|]
                | apply Forall_nil
                | apply Forall_cons; [split; [apply G; vm_compute; intuition discriminate|split; [reflexivity|]]|] ]).
Qed.

(* The same conclusion from a decidable side condition instead of [plain] (kept because the
   model evaluates the condition on every generated plain tree: correspondence case
   "zip.DirListCondition", expected 1). *)
Theorem C17_dir_vs_list_agree_partial :
  forall (ch : list (str * tnode)),
    dir_list_condition ch = true ->
    let fl := fst (list_files_in_dir ch) in
    let fa := all_regular_files ch in
    c_valid (check_files fl) = c_valid (check_files fa) /\
    c_invalid (check_files fl) = c_invalid (check_files fa) /\
    c_sizeerr (check_files fl) = c_sizeerr (check_files fa) /\
    valid_files fl = valid_files fa /\
    (forall mp mv, create mp mv fl = create mp mv fa).
Proof. exact dir_vs_list_agree_partial. Qed.
Print Assumptions C17_dir_vs_list_agree_partial.

(* the list-level core: dropping files that checkFiles omits before the collision check does not
   change Valid, Invalid or the size error, as long as the path-only decisions of the other
   files stay the same *)
Theorem C17_check_files_filter_agree :
  forall (ge124 : bool) (fa : list file) (keep : file -> bool),
    Forall (fun f => f_lstat_ok f = true) fa ->
    let fl := filter keep fa in
    let removed := map f_path (filter (fun f => negb (keep f)) fa) in
    (forall f, In f fa -> keep f = false ->
       exists e, pre_class ge124 (have_gomod fa) (f_path f) = Some (true, e)) ->
    (forall f, In f fa -> keep f = true ->
       ~ In (f_path f) removed /\
       pre_class ge124 (have_gomod fa) (f_path f) = pre_class ge124 (have_gomod fl) (f_path f)) ->
    s_valid (check_files_state ge124 fa) = s_valid (check_files_state ge124 fl) /\
    c_valid (check_files_with ge124 fa) = c_valid (check_files_with ge124 fl) /\
    c_invalid (check_files_with ge124 fa) = c_invalid (check_files_with ge124 fl) /\
    c_sizeerr (check_files_with ge124 fa) = c_sizeerr (check_files_with ge124 fl) /\
    c_fuel (check_files_with ge124 fa) = c_fuel (check_files_with ge124 fl).
Proof. exact check_files_filter_agree. Qed.
Print Assumptions C17_check_files_filter_agree.

(* non-vacuity of the side condition: a tree with a vendored package, a nested module and a
   nested upper-case GO.MOD *)
Example C17_dir_list_condition_example :
  let file c := TFile MRegular (B c) false in
  dir_list_condition
    [(B "go.mod", TFile MRegular (B "module m") false);
     (B "a", TDir [(B "x.go", TFile MRegular (B "x") false); (B "GO.MOD", TFile MRegular (B "") false)]);
     (B "sub", TDir [(B "go.mod", TFile MRegular (B "") false); (B "y.go", TFile MRegular (B "y") false)]);
     (B "vendor", TDir [(B "p", TDir [(B "q.go", TFile MRegular (B "q") false)]); (B "modules.txt", TFile MRegular (B "") false)])]
  = true.
Proof. vm_compute. reflexivity. Qed.

(* non-vacuity: a list with a vendored file, a nested module, a case collision and a valid file *)
Example C17_example_classes :
  let f (p : str) := mkFile p true MRegular 3 true (B "abc") false in
  check_files [f (B "go.mod"); f (B "a/b.go"); f (B "A/c.go"); f (B "vendor/x/y.go"); f (B "sub/go.mod"); f (B "sub/x.go")]
  = mkChecked [B "go.mod"; B "a/b.go"]
              [(B "vendor/x/y.go", FE_Vendored); (B "sub/go.mod", FE_SubmoduleFile); (B "sub/x.go", FE_SubmoduleFile)]
              [(B "A/c.go", FE_CollCase)] false false.
Proof. vm_compute. reflexivity. Qed.
