(* C17 — Which files belong in a module zip is a fixed function of the tree.
   Property theorems only; each is closed by [exact] of a lemma proved in Zip/Proofs*.v. *)
From Verif.Base Require Import Bytes PathClean.
From Verif.Zip Require Import Check Proofs.

Theorem C17_add_error_valid : forall st p om e, s_valid (add_error st p om e) = s_valid st.
Proof. exact add_error_valid. Qed.
Print Assumptions C17_add_error_valid.
