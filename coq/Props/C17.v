(* C17 — Which files belong in a module zip is a fixed function of the tree.
   Property theorems only; each is closed by [exact] of a lemma proved in Zip/Proofs*.v. *)
From Verif.Base Require Import Bytes PathClean.
From Verif.Zip Require Import Check ProofsColl ProofsClass.

(* For a list of files with distinct paths, every path is in exactly one of Valid, Omitted
   and Invalid of the report of checkFiles (whatever the go version regime ge124), and the
   report lists nothing else. *)
Theorem C17_classification_total_exclusive :
  forall (ge124 : bool) (files : list file),
    NoDup (map f_path files) ->
    (forall p, In p (map f_path files) ->
       count_occ str_eq_dec
         (c_valid (check_files_with ge124 files)
          ++ map fst (c_omitted (check_files_with ge124 files))
          ++ map fst (c_invalid (check_files_with ge124 files))) p = 1%nat) /\
    (forall p,
       In p (c_valid (check_files_with ge124 files)
             ++ map fst (c_omitted (check_files_with ge124 files))
             ++ map fst (c_invalid (check_files_with ge124 files))) ->
       In p (map f_path files)).
Proof. exact classification_total_exclusive. Qed.
Print Assumptions C17_classification_total_exclusive.

(* the fuel of the collision checker never runs out in checkFiles *)
Theorem C17_check_files_no_fuel :
  forall (ge124 : bool) (files : list file), c_fuel (check_files_with ge124 files) = false.
Proof. exact check_files_no_fuel. Qed.
Print Assumptions C17_check_files_no_fuel.
