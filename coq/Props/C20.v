(* C20 — Parsing is total, positioned, and lax mode accepts everything strict mode does.
   Property theorems only; each is closed by [exact] of a lemma proved in Modfile/Proofs*.v.

   Vocabulary (Modfile/Lex.v, Parse.v, ProofsLex.v, ProofsParse.v):
   [parse data] is the model of modfile's syntax-only parser: POk tree | PErrs [(pos, class)]
   | PPanic (any recovered non-parse-error panic and the "internal error" calls of the Go
   code) | POutOfFuel (the model's recursion budget).
   [at_pos data rest p]: reading data rune by rune from the start (utf8.DecodeRune; an invalid
   byte is one rune), the suffix [rest] is reached at position p, where p's line is 1 + the
   number of LF read, its column 1 + the number of runes read since the last LF and its byte
   offset the number of bytes read.  [valid_pos data p] = exists rest, at_pos data rest p.
   [at_text data p txt]: p is such a position and the input continues there with txt. *)
From Verif.Base Require Import Bytes.
From Verif.Module Require Import Path.
From Verif.Modfile Require Import Syntax Lex Parse Directives ModulePath ProofsLex ProofsParse ProofsDirectives LaxRetract LaxStrict LaxIgnore ModulePathProofs ModulePathProofsTree.

(* the model never runs out of its recursion budget *)
Theorem C20_parse_fuel_enough : forall data, parse data <> POutOfFuel.
Proof. exact parse_fuel_enough. Qed.
Print Assumptions C20_parse_fuel_enough.

(* no index fault, no "internal error": the result is a tree or a non-empty error list *)
Theorem C20_parse_no_internal_error : forall data, parse data <> PPanic.
Proof. exact parse_no_internal_error. Qed.
Print Assumptions C20_parse_no_internal_error.

Theorem C20_parse_tree_or_errors : forall data,
  (exists s, parse data = POk s) \/ (exists l, parse data = PErrs l /\ l <> []).
Proof.
  intros data. pose proof (parse_good_thm data) as H.
  destruct (parse data) as [s|l| |]; cbn in H; try contradiction; [left; eauto|right; exists l; tauto].
Qed.
Print Assumptions C20_parse_tree_or_errors.

(* the lexer state invariant behind the position theorems: in.pos is the position of
   in.remaining, and consumed ++ remaining is the input; it holds initially and readRune
   preserves it *)
Theorem C20_lexer_state_invariant : forall data,
  linv data (init_state data) /\
  (forall st r st', linv data st -> read_rune st = Some (r, st') -> linv data st').
Proof.
  intros data. split; [apply linv_init|]. intros st r st' Hi Hr.
  exact (proj1 (read_rune_spec data st r st' Hi Hr)).
Qed.
Print Assumptions C20_lexer_state_invariant.

(* a position of the input is determined by its byte offset, its byte offset is the length
   of the input before it, and its line is 1 + the number of LF bytes before it *)
Theorem C20_position_of_offset : forall data p,
  valid_pos data p ->
  (forall p', valid_pos data p' -> p_byte p' = p_byte p -> p' = p) /\
  0 <= p_byte p <= len data /\
  p_line p = 1 + count_lf (firstn (Z.to_nat (p_byte p)) data).
Proof.
  intros data p (rest & H). split; [|split].
  - intros p' H' E. eapply valid_pos_unique; eauto. exists rest. exact H.
  - destruct (at_pos_split _ _ _ H) as (pre & -> & ->). unfold len. rewrite app_length. lia.
  - eapply at_pos_line; eauto.
Qed.
Print Assumptions C20_position_of_offset.

(* positions_consistent: every position in the tree is a position of the input and points
   at what it describes — Line.Start and LineBlock.Start at the first token, LParen.Pos at
   "(", RParen.Pos at ")", every Comment.Start at the comment's text (the blank-line marker
   Comment{} excepted), Line.End and CommentBlock.Start at positions of the input — and so
   is every error position.  ([file_ok] is spelled out in ProofsParse.v.) *)
Theorem C20_positions_consistent : forall data,
  match parse data with
  | POk s => file_ok data s
  | PErrs l => Forall (fun pe => valid_pos data (fst pe)) l
  | PPanic | POutOfFuel => False
  end.
Proof.
  intros data. pose proof (parse_good_thm data) as H.
  destruct (parse data); cbn in H; try contradiction; [exact H|apply H].
Qed.
Print Assumptions C20_positions_consistent.

(* non-vacuity: a file with a block, comments and a suffix comment satisfies the invariant *)
Example C20_positions_example :
  exists s, parse (B "// c
require ( // s
	a v1 // t
)
") = POk s /\ length (f_stmt s) = 1%nat.
Proof. eexists. split; [vm_compute; reflexivity|reflexivity]. Qed.

(* ---------------------------------------------------------------- directive layer

   [parse_to_file strict fix data] models modfile.Parse (strict = true) and ParseLax
   (strict = false), [parse_work fix data] models ParseWork; [fix = None] is Go's fix == nil.
   [core f] = (module path + deprecation, go version, requires, retracts) of a File. *)

(* The strict parser's successes are successes of the lax parser, with the same core, for
   every version fixer ([fx : fixer = option (path -> version -> option version)], None = nil).
   fixRetract re-reads the rewritten tokens of the retract lines through the Syntax
   pointers of f.Retract; the proof (Modfile/LaxRetract.v, LaxStrict.v) shows that these
   pointers are pairwise distinct and that the strict and the lax run rebuild every
   retract line identically. *)
Theorem C20_strict_implies_lax_same_core : forall (fx : fixer) data f,
  parse_to_file true fx data = DOk f ->
  exists f', parse_to_file false fx data = DOk f' /\ core f = core f'.
Proof. exact strict_implies_lax_same_core_data. Qed.
Print Assumptions C20_strict_implies_lax_same_core.

Example C20_strict_lax_example :
  exists f, parse_to_file true None (B "module example.com/m
go 1.21
require example.com/a v1.2.3 // indirect
retract [v1.0.0, v1.1.0] // broken
") = DOk f /\ length (fd_require f) = 1%nat /\ length (fd_retract f) = 1%nat.
Proof. eexists. split; [vm_compute; reflexivity|split; reflexivity]. Qed.

(* the directive layer never reports an internal error either, whatever the fixer: the
   index expressions x.Token[0] of parseToFile and r.Syntax.Token / args[0] of fixRetract
   never fault (every Syntax pointer of f.Retract denotes a rebuilt line with a token) *)
Theorem C20_parse_work_no_internal_error : forall fx data,
  parse_work fx data <> DPanic /\ parse_work fx data <> DFuel.
Proof. exact parse_work_no_panic. Qed.
Print Assumptions C20_parse_work_no_internal_error.

Theorem C20_parse_to_file_no_internal_error : forall strict (fx : fixer) data,
  parse_to_file strict fx data <> DPanic /\ parse_to_file strict fx data <> DFuel.
Proof. exact parse_to_file_no_panic. Qed.
Print Assumptions C20_parse_to_file_no_internal_error.

(* lax_ignores_unknown.  ParseLax (parseToFile with strict = false; there is no lax mode for
   go.work) does not look at the statements for which [ignorable] (Modfile/LaxIgnore.v) is true:
     ignorable (Line)         = its first token is not go, module, retract or require
     ignorable (LineBlock)    = it has more than one token before "(", or its token is not
                                module, retract or require ("go ( ... )" is not interpreted)
     ignorable (CommentBlock) = true
   For every [keep] that drops only ignorable statements (in particular: drop all of them, or
   all but the comment blocks), ParseLax of the file and ParseLax of the tree restricted to
   the kept statements have the [same_outcome]: both succeed with the same
     core_vals f = (module path/version + deprecation, go version,
                    requires (path, version, indirect), retracts (low, high, rationale))
   or both fail with the same list of error positions.  ([core_vals] leaves out the Syntax
   pointers, which are statement indices and shift when statements are removed.)  Any fixer. *)
Theorem C20_lax_ignores_unknown : forall (fx : fixer) (keep : expr -> bool) data syn,
  (forall x, keep x = false -> ignorable x = true) ->
  parse data = POk syn ->
  match parse_to_file false fx data,
        file_of_syntax false fx (mkFile (f_name syn) (f_comments syn) (filter keep (f_stmt syn))) with
  | DOk f, DOk f' => core_vals f = core_vals f'
  | DErrs e, DErrs e' => e = e'
  | DPanic, DPanic => True
  | _, _ => False
  end.
Proof. exact lax_ignores_unknown_data. Qed.
Print Assumptions C20_lax_ignores_unknown.

(* [ignorable] is what the comment says *)
Example C20_ignorable_line : forall l verb args, l_token l = verb :: args ->
  ignorable (ELine l) =
  negb (str_eqb verb (B "go") || str_eqb verb (B "module") || str_eqb verb (B "retract") || str_eqb verb (B "require")).
Proof. intros l verb args E. unfold ignorable. rewrite E. reflexivity. Qed.

Example C20_ignorable_block : forall b verb, b_token b = [verb] ->
  ignorable (EBlock b) =
  negb (str_eqb verb (B "module") || str_eqb verb (B "retract") || str_eqb verb (B "require")).
Proof.
  intros b verb E. unfold ignorable. rewrite E. unfold known_mod_block, is_core, is_verb.
  destruct (str_eqb verb (B "go")) eqn:Ego.
  - apply str_eqb_eq in Ego. subst verb. reflexivity.
  - destruct (str_eqb verb (B "module")), (str_eqb verb (B "retract")), (str_eqb verb (B "require")),
      (str_eqb verb (B "godebug")), (str_eqb verb (B "exclude")), (str_eqb verb (B "replace")),
      (str_eqb verb (B "tool")); reflexivity.
Qed.

(* non-vacuity: a file with an unknown directive, an exclude and a replace block *)
Example C20_lax_ignores_example :
  exists syn f f',
    parse (B "module example.com/m
frobnicate 1 2 3
exclude example.com/x v1.0.0
require example.com/a v1.2.3
replace (
	example.com/a => ../a
)
") = POk syn /\ length (f_stmt syn) = 5%nat /\
    length (filter (fun x => negb (ignorable x)) (f_stmt syn)) = 2%nat /\
    file_of_syntax false None syn = DOk f /\
    file_of_syntax false None (mkFile (f_name syn) (f_comments syn)
                                      (filter (fun x => negb (ignorable x)) (f_stmt syn))) = DOk f' /\
    core_vals f = core_vals f' /\ length (fd_require f) = 1%nat.
Proof.
  eexists. eexists. eexists. split; [vm_compute; reflexivity|].
  split; [reflexivity|]. split; [vm_compute; reflexivity|].
  split; [vm_compute; reflexivity|]. split; [vm_compute; reflexivity|]. split; reflexivity.
Qed.

(* modulepath_agrees.  ModulePath(data) scans the physical lines of data (the pieces between
   LF bytes): [module_path_line ln] is the body of its loop for one line ln — cut ln at the
   first "//", TrimSpace, and unless the rest is "module", Unicode white space, and something
   else, the result is None ("continue"); otherwise Some of the rest (unquoted if it starts
   with a double or back quote, "" if that fails).  [module_path data] returns the first Some.

   Positive direction: if Parse (strict, any fixer) accepts data, its module directive is a
   single Line l (not a line of a block) naming a valid import path, and ModulePath's loop
   skips every physical line before the line on which l starts
       forall k < l.Start.Line - 1,  module_path_line (k-th physical line) = None,
   then ModulePath(data) = f.Module.Mod.Path.  ([l] is the Line f.Module.Syntax points to,
   looked up in f.Syntax; the directive layer rewrites tokens, never Start.)
   The proof (Modfile/ModulePathProofs*.v) locates the tokens "module" and its argument in
   the input: the line is  ws* module ws+ arg ws* ( "//"... | LF | EOF )  with ws in
   {space, tab, CR}; it covers quoted arguments ("..." is unquoted by both; a back-quoted or
   single-quoted argument is rejected by the strict parser), trailing comments, CR LF, tabs,
   and uses the validity of the path exactly where it is needed: a quoted path containing
   "//" (invalid: empty element) would be cut by ModulePath, and  module(  or  module[
   (no white space after the verb; paths "(" "[" are invalid) would be skipped.

   The hypothesis on the earlier lines cannot be weakened to "the module directive is the
   first statement whose verb is module": finding K1 below. *)
Theorem C20_modulepath_agrees : forall (fx : fixer) data f m l,
  parse_to_file true fx data = DOk f ->
  fd_module f = Some m ->
  snd (md_syntax m) = None ->                                   (* a Line, not a line of a block *)
  get_line (fd_syntax f) (md_syntax m) = Some l ->               (* f.Module.Syntax *)
  check_import_path (mv_path (md_mod m)) = None ->               (* module.CheckImportPath = nil *)
  (forall k, Z.of_nat k < p_line (l_start l) - 1 ->
             module_path_line (nth k (split_on 10 data) []) = None) ->
  module_path data = mv_path (md_mod m).
Proof. exact modulepath_agrees_file. Qed.
Print Assumptions C20_modulepath_agrees.

(* non-vacuity: a comment mentioning "module x", a go line, then the module directive with
   leading tab, quoted path, trailing comment and CR LF *)
Example C20_modulepath_agrees_example :
  let data := B "// module x
go 1.21
	module ""example.com/m"" // the path
retract v1.0.0
" in
  exists f m l,
    parse_to_file true None data = DOk f /\ fd_module f = Some m /\
    snd (md_syntax m) = None /\ get_line (fd_syntax f) (md_syntax m) = Some l /\
    check_import_path (mv_path (md_mod m)) = None /\ p_line (l_start l) = 3 /\
    (forall k, Z.of_nat k < p_line (l_start l) - 1 ->
               module_path_line (nth k (split_on 10 data) []) = None) /\
    module_path data = B "example.com/m".
Proof.
  cbv zeta. eexists. eexists. eexists.
  split; [vm_compute; reflexivity|].
  split; [reflexivity|]. split; [reflexivity|]. split; [vm_compute; reflexivity|].
  split; [vm_compute; reflexivity|]. split; [reflexivity|]. split.
  - intros k Hk. cbn [l_start p_line] in Hk.
    destruct k as [|[|k]]; [vm_compute; reflexivity|vm_compute; reflexivity|lia].
  - vm_compute. reflexivity.
Qed.

(* Without the hypothesis on the earlier lines the statement is false (finding K1): the
   strict parser accepts the witness, its module directive is a single line naming a valid
   import path, and ModulePath returns "v1.0.0", the argument of a line "module v1.0.0"
   inside an earlier require block. *)
Theorem C20_modulepath_agrees_refuted :
  exists data f m,
    parse_to_file true None data = DOk f /\ fd_module f = Some m /\
    snd (md_syntax m) = None /\ check_import_path (mv_path (md_mod m)) = None /\
    module_path data <> mv_path (md_mod m).
Proof. exact modulepath_agrees_refuted. Qed.
Print Assumptions C20_modulepath_agrees_refuted.
