(* C20 — Parsing is total, positioned, and lax mode accepts everything strict mode does.
   Property theorems only. *)
From Verif.Base Require Import Bytes.
From Verif.Modfile Require Import Syntax Lex Parse.
