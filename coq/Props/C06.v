(* C06 — Path validity rules and path/version matching follow the documented rules.
   Property theorems only; each is closed by [exact] of a lemma proved elsewhere.
   check_module_path = module.CheckPath, check_import_path = module.CheckImportPath,
   check_file_path = module.CheckFilePath; [None] means the Go function returns nil. *)
From Verif.Base Require Import Bytes.
From Verif.Module Require Import Path Match PathProofs.

(* every valid module path is a valid import path, every valid import path a valid file path *)
Theorem C06_module_sub_import :
  forall p, check_module_path p = None -> check_import_path p = None.
Proof. exact module_sub_import. Qed.
Print Assumptions C06_module_sub_import.

Theorem C06_import_sub_file :
  forall p, check_import_path p = None -> check_file_path p = None.
Proof. exact import_sub_file. Qed.
Print Assumptions C06_import_sub_file.

Example C06_chain_nonvacuous :
  check_module_path (B "example.com/a..b/v2") = None /\ check_import_path (B "c++/x") = None.
Proof. vm_compute. split; reflexivity. Qed.
