(* C06 — Path validity rules and path/version matching follow the documented rules.
   Property theorems only; each is closed by [exact] of a lemma proved elsewhere.

   Model (Module/Path.v, Module/Match.v), [None] = the Go function returns nil:
     check_module_path = module.CheckPath      check_import_path = module.CheckImportPath
     check_file_path   = module.CheckFilePath  check_path k / check_elem k = checkPath / checkElem
     split_path_version = module.SplitPathVersion   check = module.Check
     check_path_major / match_path_major = module.CheckPathMajor (nil) / MatchPathMajor
     match_prefix_patterns = module.MatchPrefixPatterns     path_match = path.Match
   Specification (Module/PathSpec.v): valid_elem_impl, valid_path_impl, valid_module_path_impl,
   suffix_shape, major_matches, glob_spec, written from the doc comments; the deviations of
   the code from the doc text (D1 = known finding K5, D2, D3, D4) are listed at the top of
   PathSpec.v and stated below as theorems. *)
From Verif.Base Require Import Bytes Utf8.
From Verif.Semver Require Import Model.
From Verif.Module Require Import Path Match PathSpec PathProofs PathProofsSplit PathProofsSpec
  PathProofsSpec2 PathProofsDev PathProofsCheck PathProofsMatch PathProofsFuel PathProofsFold.

(* ---- 1. every valid module path is a valid import path, every valid import path a valid
        file path (re-proved against the regenerated character classes) ------------------ *)

Theorem C06_module_sub_import :
  forall p, check_module_path p = None -> check_import_path p = None.
Proof. exact module_sub_import. Qed.
Print Assumptions C06_module_sub_import.

Theorem C06_import_sub_file :
  forall p, check_import_path p = None -> check_file_path p = None.
Proof. exact import_sub_file. Qed.
Print Assumptions C06_import_sub_file.

Example C06_chain_nonvacuous :
  check_module_path (B "example.com/a..b/v2") = None /\ check_import_path (B "c++/x") = None.
Proof. vm_compute. split; reflexivity. Qed.

(* ---- 2. SplitPathVersion: prefix ++ pathMajor = path; the suffix is empty, "/vN" with N >= 2
        without leading zero, or for gopkg.in ".vN" / ".vN-unstable" ------------------------- *)

Theorem C06_split_spec :
  forall p pre suf ok,
    split_path_version p = (pre, suf, ok) ->
    pre ++ suf = p /\
    (ok = true ->
       (~ is_gopkg_in p /\
        (suf = [] \/
         exists n, all_digits n /\ no_leading_zero n /\ n <> B "1" /\ suf = B "/v" ++ n))
       \/ (is_gopkg_in p /\
           (suf = B ".v0" \/
            exists n, all_digits n /\ no_leading_zero n /\
                      (suf = B ".v" ++ n \/ suf = B ".v" ++ n ++ B "-unstable")))) /\
    (ok = false -> pre = p /\ suf = []).
Proof. exact split_spec. Qed.
Print Assumptions C06_split_spec.

(* "N >= 2" numerically *)
Theorem C06_slash_suffix_value :
  forall suf, slash_suffix suf ->
    exists n, suf = B "/v" ++ n /\ all_digits n /\ no_leading_zero n /\ 2 <= numeral_value n.
Proof. exact slash_suffix_value. Qed.
Print Assumptions C06_slash_suffix_value.

Example C06_split_nonvacuous :
  split_path_version (B "example.com/yaml/v2") = (B "example.com/yaml", B "/v2", true) /\
  split_path_version (B "gopkg.in/yaml.v2-unstable") = (B "gopkg.in/yaml", B ".v2-unstable", true) /\
  split_path_version (B "example.com/pkg/v1") = (B "example.com/pkg/v1", [], false) /\
  split_path_version (B "gopkg.in/foo.v-unstable") = (B "gopkg.in/foo.v-unstable", [], false).
Proof. vm_compute. repeat split; reflexivity. Qed.

(* ---- 3. the checks accept exactly the paths the rules describe ---------------------------------- *)

(* the regenerated character classes are the documented sets *)
Theorem C06_char_ok_allowed : forall k r, char_ok k r = allowed_char k r.
Proof. exact char_ok_allowed. Qed.
Print Assumptions C06_char_ok_allowed.

Theorem C06_check_elem_iff : forall k e, check_elem k e = None <-> valid_elem_impl k e.
Proof. exact check_elem_iff. Qed.
Print Assumptions C06_check_elem_iff.

Theorem C06_check_path_iff : forall k p, check_path k p = None <-> valid_path_impl k p.
Proof. exact check_path_iff. Qed.
Print Assumptions C06_check_path_iff.

Theorem C06_check_module_path_iff :
  forall p, check_module_path p = None <->
            valid_path_impl KModule p /\ first_elem_rule p /\ version_rule p.
Proof. exact check_module_path_iff. Qed.
Print Assumptions C06_check_module_path_iff.

(* SplitPathVersion's ok is the "Second" constraint of CheckPath *)
Theorem C06_split_ok_iff : forall p, snd (split_path_version p) = true <-> version_rule p.
Proof. exact split_ok_iff. Qed.
Print Assumptions C06_split_ok_iff.

(* a valid module path always splits, and its suffix has the documented shape *)
Theorem C06_check_module_path_split_ok :
  forall p, check_module_path p = None ->
    exists pre suf, split_path_version p = (pre, suf, true) /\ pre ++ suf = p /\ suffix_shape p suf.
Proof. exact check_module_path_split_ok. Qed.
Print Assumptions C06_check_module_path_split_ok.

(* D1 / known finding K5.  The rules literally as documented (with "nor contain two dots in
   a row") are the implemented ones plus that clause; the code accepts "a..b". *)
Theorem C06_valid_path_doc_iff :
  forall k p, valid_path_doc k p <->
              check_path k p = None /\ Forall (fun e => ~ two_dots_in_a_row e) (split_on 47 p).
Proof. exact valid_path_doc_iff. Qed.
Print Assumptions C06_valid_path_doc_iff.

Theorem C06_check_path_dotdot_refuted :
  forall k, check_path k (B "a..b") = None /\ ~ valid_path_doc k (B "a..b").
Proof. exact check_path_dotdot_refuted. Qed.
Print Assumptions C06_check_path_dotdot_refuted.

Theorem C06_check_module_path_dotdot_refuted :
  check_module_path (B "example.com/a..b") = None /\ ~ valid_module_path_doc (B "example.com/a..b").
Proof. exact check_module_path_dotdot_refuted. Qed.
Print Assumptions C06_check_module_path_dotdot_refuted.

(* D3: the leading-dash rule is implemented but not documented *)
Theorem C06_leading_dash_undocumented :
  check_import_path (B "-a") = Some ELeadingDash /\ check_elem KImport (B "-a") = None.
Proof. exact leading_dash_undocumented. Qed.
Print Assumptions C06_leading_dash_undocumented.

(* two error returns of CheckPath can never be taken *)
Theorem C06_leading_slash_unreachable : forall p, check_module_path p <> Some ELeadingSlash.
Proof. exact leading_slash_unreachable. Qed.
Print Assumptions C06_leading_slash_unreachable.

Theorem C06_first_leading_dash_unreachable : forall p, check_module_path p <> Some EFirstLeadingDash.
Proof. exact first_leading_dash_unreachable. Qed.
Print Assumptions C06_first_leading_dash_unreachable.

(* the ASCII shortcut used for strings.EqualFold agrees with the regenerated SimpleFold table *)
Theorem C06_fold_min_class : forall r, fold_min r = fold_class r.
Proof. exact fold_min_class. Qed.
Print Assumptions C06_fold_min_class.

(* "regardless of case (CON, com1, NuL, and so on)": the reserved-name test of checkElem is
   plain ASCII case-insensitivity; no non-ASCII rune (KELVIN SIGN, LONG S, ...) folds into a
   reserved name, in file paths either *)
Theorem C06_reserved_name_ascii :
  forall s, is_bad_windows_name s = true <->
            In (map ascii_upper s) reserved_names /\ Forall (fun x => 0 <= x < 128) s.
Proof. exact is_bad_windows_name_ascii. Qed.
Print Assumptions C06_reserved_name_ascii.

(* ---- 4. Check = valid module path /\ valid version /\ the documented major-version rule ------- *)

Theorem C06_check_iff :
  forall p v,
    check p v = None <->
    check_module_path p = None /\ is_valid v = true /\
    (let suf := snd (fst (split_path_version p)) in
     (* no suffix: v0, v1, or +incompatible *)
     (suf = [] /\ (major v = B "v0" \/ major v = B "v1" \/ build v = B "+incompatible"))
     (* /vN *)
     \/ (exists n, all_digits n /\ suf = B "/v" ++ n /\ major v = B "v" ++ n)
     (* gopkg.in .vN and .vN-unstable, with the v0.0.0- pseudo-version exception for .v1 *)
     \/ (exists n, all_digits n /\ (suf = B ".v" ++ n \/ suf = B ".v" ++ n ++ B "-unstable") /\
                   (major v = B "v" ++ n \/ (n = B "1" /\ exists r, v = B "v0.0.0-" ++ r)))).
Proof. exact check_iff. Qed.
Print Assumptions C06_check_iff.

Theorem C06_check_path_major_shape_iff :
  forall p v suf, suffix_shape p suf ->
    (check_path_major v suf = true <-> major_matches v (major v) (build v) suf).
Proof. exact check_path_major_shape_iff. Qed.
Print Assumptions C06_check_path_major_shape_iff.

Theorem C06_match_path_major_iff_check_path_major :
  forall v pm, match_path_major v pm = true <-> check_path_major v pm = true.
Proof. exact match_path_major_iff_check_path_major. Qed.
Print Assumptions C06_match_path_major_iff_check_path_major.

Example C06_check_nonvacuous :
  check (B "example.com/yaml/v2") (B "v2.1.0") = None /\
  check (B "example.com/yaml") (B "v3.0.0+incompatible") = None /\
  check (B "gopkg.in/check.v1") (B "v0.0.0-20161208181325-20d25e280405") = None /\
  check (B "example.com/yaml/v2") (B "v3.0.0") = Some CEMajorMismatch /\
  check (B "example.com/yaml") (B "v1") = None.   (* Check does not ask for a canonical version *)
Proof. vm_compute. repeat split; reflexivity. Qed.

(* ---- 5. MatchPrefixPatterns is the documented prefix-glob definition, for every matcher ------- *)

Theorem C06_match_prefix_patterns_spec :
  forall (pmatch : str -> str -> bool) globs target,
    match_prefix_patterns_with pmatch globs target = true <->
    exists items item glob elems rest,
      (* the comma-separated list *)
      (forall i, In i items -> ~ In 44 i) /\ join_comma items = globs /\ In item items /\
      (* one trailing slash of the pattern is ignored; empty patterns are ignored *)
      (item = glob ++ [47] \/ (item = glob /\ forall a, glob <> a ++ [47])) /\ glob <> [] /\
      (* the path prefix of target with as many elements as the pattern *)
      (forall e, In e elems -> ~ In 47 e) /\ elems <> [] /\
      (target = join_slash elems \/ target = join_slash elems ++ 47 :: rest) /\
      length elems = S (length (filter (fun c => c =? 47) glob)) /\
      pmatch glob (join_slash elems) = true.
Proof. exact match_prefix_patterns_spec. Qed.
Print Assumptions C06_match_prefix_patterns_spec.

(* the matcher the code uses is path.Match with its error dropped (malformed patterns never match) *)
Theorem C06_match_prefix_patterns_path_match :
  forall globs target,
    match_prefix_patterns globs target = true <-> glob_spec path_match_bool globs target.
Proof. exact match_prefix_patterns_path_match. Qed.
Print Assumptions C06_match_prefix_patterns_path_match.

(* the model of path.Match is total: its fuel never runs out *)
Theorem C06_path_match_no_fuel : forall pattern name, path_match pattern name <> MFuel.
Proof. exact path_match_no_fuel. Qed.
Print Assumptions C06_path_match_no_fuel.

Example C06_globs_nonvacuous :
  match_prefix_patterns (B "*.corp.example.com,,rsc.io/private/") (B "rsc.io/private/quux") = true /\
  match_prefix_patterns (B "[,rsc.io/priv") (B "rsc.io/private") = false /\
  path_match (B "[a-c]*/\?") (B "bxx/?") = MOk true /\ path_match (B "a[") (B "b") = MBad.
Proof. vm_compute. repeat split; reflexivity. Qed.
