(* C11 — Path and version escaping is a lossless, case-collision-free encoding.
   Property theorems only; each is closed by [exact] of a lemma proved in
   Module/EscapeProofs.v (strings) or Module/EscapeProofsPath.v (paths, versions).

   Notation of the statements: strings are lists of byte values; check_module_path p = None
   means module.CheckPath(p) == nil; check_elem KFile v = None means checkElem(v, filePath)
   == nil; EOk / EErr EInvalid / EErr EInternal are success, a refused argument, and the
   "internal error: inconsistency in EscapePath" of escapeString; bang is '!' (33);
   65..90 are 'A'..'Z'. *)
From Verif.Base Require Import Bytes.
From Verif.Base Require Import Utf8.
From Verif.Module Require Import Path Escape EscapeProofs EscapeProofsPath EscapeProofsUtf8.

(* ---- the string functions (all strings, no validity assumed) ---------------------------- *)

Theorem C11_escape_string_roundtrip :
  forall s e, escape_string s = EOk e -> unescape_string e = Some s.
Proof. exact escape_string_roundtrip. Qed.
Print Assumptions C11_escape_string_roundtrip.

Theorem C11_unescape_string_image :
  forall e s, unescape_string e = Some s -> escape_string s = EOk e.
Proof. exact unescape_string_image. Qed.
Print Assumptions C11_unescape_string_image.

(* the model works on bytes, the Go loops on runes: the literal rune-level transcription
   (EscapeProofsUtf8.v: the same two loops over Utf8.runes s, Go's range-over-string with
   U+FFFD for invalid bytes) is the same function, on every string *)
Theorem C11_escape_string_runes_eq :
  forall s,
    (let rs := runes s in
     if existsb esc_bad rs then EErr EInternal
     else if negb (existsb is_upper rs) then EOk s
     else EOk (flat_map esc_byte rs)) = escape_string s.
Proof. exact escape_string_runes_eq. Qed.
Print Assumptions C11_escape_string_runes_eq.

Theorem C11_unescape_string_runes_eq :
  forall e, unescape_from false (runes e) = unescape_string e.
Proof. exact unescape_string_runes_eq. Qed.
Print Assumptions C11_unescape_string_runes_eq.

(* ---- module paths ------------------------------------------------------------------------ *)

Theorem C11_escape_path_total :
  forall p, check_module_path p = None -> exists e, escape_path p = EOk e.
Proof. exact escape_path_total. Qed.
Print Assumptions C11_escape_path_total.

Theorem C11_escape_path_rejects :
  forall p, check_module_path p <> None -> escape_path p = EErr EInvalid.
Proof. exact escape_path_rejects. Qed.
Print Assumptions C11_escape_path_rejects.

Theorem C11_escape_no_upper :
  forall p e, escape_path p = EOk e -> Forall (fun c => ~ (65 <= c <= 90)) e.
Proof. exact escape_no_upper. Qed.
Print Assumptions C11_escape_no_upper.

Theorem C11_escape_roundtrip :
  forall p e, escape_path p = EOk e -> unescape_path e = EOk p.
Proof. exact escape_roundtrip. Qed.
Print Assumptions C11_escape_roundtrip.

(* outputs are ASCII (C11_escape_path_ascii), so folding ASCII letters is strings.EqualFold *)
Theorem C11_escape_fold_injective :
  forall p q e f, escape_path p = EOk e -> escape_path q = EOk f ->
                  ascii_lower e = ascii_lower f -> p = q.
Proof. exact escape_fold_injective. Qed.
Print Assumptions C11_escape_fold_injective.

Theorem C11_escape_path_ascii :
  forall p e, escape_path p = EOk e -> Forall (fun c => c < 128) e.
Proof. exact escape_path_ascii. Qed.
Print Assumptions C11_escape_path_ascii.

Theorem C11_unescape_image :
  forall e p, unescape_path e = EOk p -> escape_path p = EOk e.
Proof. exact unescape_image. Qed.
Print Assumptions C11_unescape_image.

Theorem C11_unescape_path_valid :
  forall e p, unescape_path e = EOk p -> check_module_path p = None.
Proof. exact unescape_path_valid. Qed.
Print Assumptions C11_unescape_path_valid.

(* hypotheses are satisfiable: a valid path with upper-case letters *)
Example C11_path_example :
  check_module_path (B "github.com/BurntSushi/toml") = None /\
  escape_path (B "github.com/BurntSushi/toml") = EOk (B "github.com/!burnt!sushi/toml") /\
  unescape_path (B "github.com/!burnt!sushi/toml") = EOk (B "github.com/BurntSushi/toml").
Proof. vm_compute. auto. Qed.

(* ---- versions ------------------------------------------------------------------------------
   documented domain: allowed_version v := check_elem KFile v = None /\ ~ In '!' v.
   The positive theorems hold on its ASCII part; the rest is K3 (refuted below). *)

Theorem C11_escape_version_total :
  forall v, check_elem KFile v = None /\ ~ In bang v -> Forall (fun c => c < 128) v ->
            exists e, escape_version v = EOk e.
Proof. exact escape_version_total. Qed.
Print Assumptions C11_escape_version_total.

Theorem C11_escape_version_rejects :
  forall v, ~ (check_elem KFile v = None /\ ~ In bang v) -> escape_version v = EErr EInvalid.
Proof. exact escape_version_rejects. Qed.
Print Assumptions C11_escape_version_rejects.

Theorem C11_escape_version_ok_iff :
  forall v, (exists e, escape_version v = EOk e) <->
            (check_elem KFile v = None /\ ~ In bang v) /\ Forall (fun c => c < 128) v.
Proof. exact escape_version_ok_iff. Qed.
Print Assumptions C11_escape_version_ok_iff.

Theorem C11_escape_version_no_upper :
  forall v e, escape_version v = EOk e -> Forall (fun c => ~ (65 <= c <= 90)) e.
Proof. exact escape_version_no_upper. Qed.
Print Assumptions C11_escape_version_no_upper.

Theorem C11_escape_version_roundtrip :
  forall v e, escape_version v = EOk e -> unescape_version e = EOk v.
Proof. exact escape_version_roundtrip. Qed.
Print Assumptions C11_escape_version_roundtrip.

Theorem C11_escape_version_fold_injective :
  forall v w e f, escape_version v = EOk e -> escape_version w = EOk f ->
                  ascii_lower e = ascii_lower f -> v = w.
Proof. exact escape_version_fold_injective. Qed.
Print Assumptions C11_escape_version_fold_injective.

Theorem C11_unescape_version_image :
  forall e v, unescape_version e = EOk v -> escape_version v = EOk e.
Proof. exact unescape_version_image. Qed.
Print Assumptions C11_unescape_version_image.

(* K3 (DESIGN.md section 7): the documented domain is not covered *)
Theorem C11_escape_version_unicode_refuted :
  exists v, check_elem KFile v = None /\ ~ In bang v /\ escape_version v = EErr EInternal.
Proof. exact escape_version_unicode_refuted. Qed.
Print Assumptions C11_escape_version_unicode_refuted.

(* ... and this is the only way to get the internal error: exactly the allowed versions
   with a byte >= 0x80; EscapePath never returns it *)
Theorem C11_escape_version_internal_iff :
  forall v, escape_version v = EErr EInternal <->
            (check_elem KFile v = None /\ ~ In bang v) /\ exists c, In c v /\ 128 <= c.
Proof. exact escape_version_internal_iff. Qed.
Print Assumptions C11_escape_version_internal_iff.

Theorem C11_escape_path_no_internal : forall p, escape_path p <> EErr EInternal.
Proof. exact escape_path_no_internal. Qed.
Print Assumptions C11_escape_path_no_internal.

Theorem C11_unescape_version_never_non_ascii :
  forall e v, unescape_version e = EOk v -> Forall (fun c => c < 128) v.
Proof. exact unescape_version_never_non_ascii. Qed.
Print Assumptions C11_unescape_version_never_non_ascii.

Example C11_version_example :
  check_elem KFile (B "v1.0.0-RC1") = None /\ ~ In bang (B "v1.0.0-RC1") /\
  escape_version (B "v1.0.0-RC1") = EOk (B "v1.0.0-!r!c1").
Proof. vm_compute. split; [reflexivity|]. split; [|reflexivity]. intuition discriminate. Qed.
