(* C13 — the client follows one consistent timeline of signed tree heads.
   Property theorems only; each is closed by [exact] of a lemma proved elsewhere. *)
From Verif.Base Require Import Bytes.
From Verif.Client Require Import Seq SeqProofs.

Theorem C13_write_config_cas : forall f old new s,
  let cfg1 := match w_interf (s_w s) with Some x :: _ => assoc_set f x (w_config (s_w s)) | _ => w_config (s_w s) end in
  let cur := match assoc f cfg1 with Some d => d | None => [] end in
  fst (write_config f old new s) = str_eqb old cur /\
  w_config (s_w (snd (write_config f old new s))) = (if str_eqb old cur then assoc_set f new cfg1 else cfg1) /\
  s_tr (snd (write_config f old new s)) = s_tr s ++ [EvWriteConfig f old new (str_eqb old cur)].
Proof. exact write_config_cas. Qed.
Print Assumptions C13_write_config_cas.
