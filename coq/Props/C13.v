(* C13 — the client follows one consistent timeline of signed tree heads.
   Property theorems only; each is closed by [exact] of a lemma proved elsewhere
   (Client/SeqProofs*.v).  Same model and vocabulary as Props/C01.v; in addition
     Consistent node_hash NodeAt older newer
        := older is the empty tree, or the hashes of the decomposition SubTreeIndex(0, older.N),
           each authenticated (NodeAt) against newer's root, fold (TreeHash) to older's hash
           — exactly what checkTrees computes from newer's tiles;
     on_timeline latest tr := Consistent tr latest if tr.N <= latest.N, else Consistent latest tr
        (the comparison mergeLatestMem makes);
     run steps w cs : the history semantics — lookups (client index, path, version) executed one
        after the other by any number of clients sharing the world w (restarts are new clients).

   Order on heads and histories (Client/SeqProofsOrder.v, SeqProofsOrderHist.v)
     Before A B       := A = B \/ (tN A < tN B /\ Consistent A B)
     Comparable A B   := Before A B \/ Before B A
     cfg_msg w        := the content of <name>/latest in w
     BeforeCfg A w    := the stored head of w opens (under the configured key) to a Y with Before A Y
     CfgMono w w'     := forall A, BeforeCfg A w -> BeforeCfg A w' \/ collision
     HeadStep L L'    := L' = L \/ collision \/ tN L <= 0 \/ (Before L L' /\ tN L' <= 2^62)
     live c           := c_init c = Some None  (initialised without error: a client that answers lookups)
     InvC c w         := tN (c_latest c) <= 0 \/ BeforeCfg (c_latest c) w
     AllBefore w cs   := forall i, live (cs i) -> InvC (cs i) w \/ collision
     run_states steps w cs := the global states (world, clients) between the lookups of the history
     ACCEPTED:  accepted steps w cs A := in one of those states, A is non-empty (0 < tN A) and
                  is the latest of a live client ("installed as latest")
                  or is what the stored configuration opens to ("written to the config")
     run_clean steps w cs := no lookup of the history BOTH returned an error AND moved its client's head
                  (clean_step r c c' := (forall e, r <> LErr e) \/ tN (c_latest c') = tN (c_latest c))
     w_interf w = []  := no foreign writer: the clients of the history are the only writers of the configuration
   Interference-closed mergeLatestMem / mergeLatest (Client/SeqEnv.v, SeqEnvProofs.v)
     env := list envf, envf := tree -> str -> option (tree * str): the other lookups of the same Client,
        one turn per point where the code re-reads c.latest / c.latestMsg;
     env_ok e := every turn installs only (t, m) with m signed for t, tN current < tN t, Consistent current t;
     chain L L' := L' is reached from L by such turns;  install_state tr m s := s with head (tr, m). *)
From Verif.Base Require Import Bytes.
From Verif.Tlog Require Import Index Tree Codec Tile TileReader TileSpec.
From Verif.Note Require Import Note.
From Verif.Client Require Import Seq SeqProofs SeqProofsTile SeqProofsSafe SeqProofsTop SeqProofsInst SeqProofsHonest.
From Verif.Client Require Import SeqProofsOrder SeqProofsOrderHist SeqEnv SeqEnvProofs.
From Verif.Base Require Sha256.
From Verif.Tlog Require Sha.
From Verif.Client Require DispatchClient SeqProofsOrderWitness SeqProofsOrderCheckTree.
From Verif.Tlog Require Import Spec6962.
From Verif.Tlog Require ProofsTree.

(* config_monotone_chain: along any history every WriteConfig (successful or lost to a write
   conflict) writes a head signed under the configured key over a stored head that is empty or
   signed, strictly smaller, and Consistent with the new one. *)
Theorem C13_config_monotone_chain :
  forall sha leaf_hash node_hash V esc_path esc_vers skip vs name,
  (forall msg t, signed_tree V vs msg t -> Codec.tN t < 2 ^ 62) ->
  forall steps w cs rs evs w' cs' f old new ok,
  (forall i, ClientInv leaf_hash V (NodeAt node_hash) vs name (cs i)) -> key_ok sha vs name w ->
  run sha leaf_hash node_hash V esc_path esc_vers skip steps w cs = (rs, evs, w', cs') ->
  In (EvWriteConfig f old new ok) evs ->
  f = latest_file name /\
  exists tnew, signed_tree V vs new tnew /\
    (old = [] \/ exists told, signed_tree V vs old told /\ Codec.tN told < Codec.tN tnew /\
                              Consistent node_hash (NodeAt node_hash) told tnew).
Proof. exact config_monotone_chain_c10. Qed.
Print Assumptions C13_config_monotone_chain.

(* fork_never_accepted: a validly signed head that is not on the client's timeline (either size
   order, equal sizes with different hashes included) makes mergeLatest fail; the client's head and
   the configuration are unchanged and no WriteConfig is emitted (ev_nocfg). *)
Theorem C13_fork_never_accepted :
  forall (sha : str -> str) leaf_hash node_hash V (esc_path esc_vers : str -> option str) (skip : str -> bool) vs name,
  (forall msg t, signed_tree V vs msg t -> Codec.tN t < 2 ^ 62) ->
  forall msg tr s r s',
  CInv leaf_hash V (NodeAt node_hash) vs name (s_c s) ->
  signed_tree V vs msg tr ->
  ~ on_timeline node_hash (NodeAt node_hash) (c_latest (s_c s)) tr ->
  merge_latest node_hash V msg s = (r, s') ->
  (exists e, r = Some e) /\
  (c_latest (s_c s') = c_latest (s_c s) /\ c_latest_msg (s_c s') = c_latest_msg (s_c s)) /\
  (w_config (s_w s') = w_config (s_w s) /\ w_interf (s_w s') = w_interf (s_w s)) /\
  textend (ev_nocfg leaf_hash node_hash V (NodeAt node_hash) (tile_ok node_hash) vs name) s s'.
Proof. exact fork_never_accepted_c10. Qed.
Print Assumptions C13_fork_never_accepted.

(* fork_reports_both_heads, part 1: every Security event names two notes, each the empty timeline
   or signed under the configured key, and its text contains both (indented as checkTrees prints them) *)
Theorem C13_security_report_shape :
  forall sha leaf_hash node_hash V esc_path esc_vers skip vs name,
  (forall msg t, signed_tree V vs msg t -> Codec.tN t < 2 ^ 62) ->
  forall steps w cs rs evs w' cs' msg,
  (forall i, ClientInv leaf_hash V (NodeAt node_hash) vs name (cs i)) -> key_ok sha vs name w ->
  run sha leaf_hash node_hash V esc_path esc_vers skip steps w cs = (rs, evs, w', cs') ->
  In (EvSecurity msg) evs ->
  exists older newer,
    (older = [] \/ exists t, signed_tree V vs older t) /\ (newer = [] \/ exists t, signed_tree V vs newer t) /\
    (exists pre post, msg = pre ++ indent older ++ post) /\ (exists pre post, msg = pre ++ indent newer ++ post).
Proof. exact security_report_shape_c10. Qed.
Print Assumptions C13_security_report_shape.

(* fork_reports_both_heads, part 2: whenever a lookup of a history whose clients start without a
   memoised security error returns ErrSecurity, a Security event is in the trace *)
Theorem C13_security_error_reported :
  forall sha leaf_hash node_hash V esc_path esc_vers skip vs name,
  (forall msg t, signed_tree V vs msg t -> Codec.tN t < 2 ^ 62) ->
  forall steps w cs rs evs w' cs',
  (forall i, ClientInv leaf_hash V (NodeAt node_hash) vs name (cs i)) -> key_ok sha vs name w ->
  (forall i, ~ sec_memo (cs i)) ->
  run sha leaf_hash node_hash V esc_path esc_vers skip steps w cs = (rs, evs, w', cs') ->
  In (LErr ESecurity) rs -> Exists is_sec evs.
Proof. exact security_error_reported_c10. Qed.
Print Assumptions C13_security_error_reported.

(* WriteConfig is a compare-and-swap on the stored file (after a possible interference) *)
Theorem C13_write_config_cas : forall f old new s,
  let cfg1 := match w_interf (s_w s) with Some x :: _ => assoc_set f x (w_config (s_w s)) | _ => w_config (s_w s) end in
  let cur := match assoc f cfg1 with Some d => d | None => [] end in
  fst (write_config f old new s) = str_eqb old cur /\
  w_config (s_w (snd (write_config f old new s))) = (if str_eqb old cur then assoc_set f new cfg1 else cfg1) /\
  s_tr (snd (write_config f old new s)) = s_tr s ++ [EvWriteConfig f old new (str_eqb old cur)].
Proof. exact write_config_cas. Qed.
Print Assumptions C13_write_config_cas.

(* non-vacuity: new clients satisfy the hypotheses of the history theorems *)
Example C13_new_clients_inv : forall leaf_hash V NodeAt vs name,
  (forall i : nat, ClientInv leaf_hash V NodeAt vs name ((fun _ => new_client 2) i)) /\
  (forall i : nat, ~ sec_memo ((fun _ => new_client 2) i)).
Proof.
  intros. split; intros i.
  - unfold ClientInv, Fresh, new_client. cbn. repeat split; lia.
  - unfold sec_memo, new_client. cbn. intros [H|(f & [])]. discriminate.
Qed.

(* honest growth never triggers Security: along any history of lookups by any number of clients
   (fresh or initialised, sharing configuration and cache) in an honest world — one log, heads of any
   sizes up to N presented in any order, cache any subset of the honest files — no Security event is
   emitted and no lookup returns ErrSecurity; world and clients stay honest.  (HonestWorld, GoodClient:
   see Props/C01.v, C01_lookup_honest_complete.) *)
Theorem C13_honest_growth_no_security :
  forall sha leaf_hash node_hash V esc_path esc_vers skip (T : Z -> Z -> hash) N h,
  ProofsTree.T_splits node_hash T N -> (forall lo hi, length (T lo hi) = 32%nat) ->
  0 < N <= 2 ^ 62 -> 1 <= h <= 30 ->
  forall vs name steps w cs rs evs w' cs',
  HonestWorld sha leaf_hash V T N h vs name w ->
  (forall i, GoodClient leaf_hash V T N h vs name (cs i)) ->
  run sha leaf_hash node_hash V esc_path esc_vers skip steps w cs = (rs, evs, w', cs') ->
  HonestWorld sha leaf_hash V T N h vs name w' /\
  (forall i, GoodClient leaf_hash V T N h vs name (cs' i)) /\
  Forall nosec evs /\ ~ In (LErr ESecurity) rs.
Proof. exact honest_run_no_security. Qed.
Print Assumptions C13_honest_growth_no_security.

(* ================================================================================================
   The order structure of Consistent (no ground-truth log; collision of the node hash explicit)
   ================================================================================================ *)

(* transitivity *)
Theorem C13_consistent_trans :
  forall (node_hash : hash -> hash -> hash) (A B C : tree),
  Consistent node_hash (NodeAt node_hash) A B -> Consistent node_hash (NodeAt node_hash) B C ->
  Codec.tN A <= 2 ^ 62 -> Codec.tN B <= 2 ^ 62 ->
  Consistent node_hash (NodeAt node_hash) A C \/
  (exists a b c d : hash, (a, b) <> (c, d) /\ node_hash a b = node_hash c d).
Proof. exact consistent_trans. Qed.
Print Assumptions C13_consistent_trans.

(* two prefixes of one head: the smaller is a prefix of the larger *)
Theorem C13_consistent_prefixes :
  forall (node_hash : hash -> hash -> hash) (A B C : tree),
  Consistent node_hash (NodeAt node_hash) A C -> Consistent node_hash (NodeAt node_hash) B C ->
  Codec.tN A <= Codec.tN B -> Codec.tN B <= 2 ^ 62 ->
  Consistent node_hash (NodeAt node_hash) A B \/
  (exists a b c d : hash, (a, b) <> (c, d) /\ node_hash a b = node_hash c d).
Proof. exact consistent_prefixes. Qed.
Print Assumptions C13_consistent_prefixes.

(* equal sizes: equal hashes *)
Theorem C13_consistent_same_size :
  forall (node_hash : hash -> hash -> hash) (A B : tree),
  Consistent node_hash (NodeAt node_hash) A B -> Codec.tN A = Codec.tN B -> 0 < Codec.tN A <= 2 ^ 62 ->
  Codec.tH A = Codec.tH B \/
  (exists a b c d : hash, (a, b) <> (c, d) /\ node_hash a b = node_hash c d).
Proof. exact consistent_same_size. Qed.
Print Assumptions C13_consistent_same_size.

(* consistent_iff_check_tree: against the true head (zlen L, mth L) of a log with leaf hashes L
   (mth = the RFC 6962 Merkle tree hash), what checkTrees establishes is exactly the existence of a
   consistency proof accepted by tlog.CheckTree — each direction up to an explicit collision.
   (=> uses the RFC 6962 proof PROOF(n, L); n = 0 is excluded because CheckTree rejects n < 1.) *)
Theorem C13_consistent_iff_check_tree :
  forall (node_hash : hash -> hash -> hash) (L : list hash), zlen L <= 2 ^ 62 ->
  forall n hn, 1 <= n <= 2 ^ 62 ->
  (Consistent node_hash (NodeAt node_hash) (Tree n hn) (Tree (zlen L) (mth node_hash L)) ->
     (exists p, check_tree node_hash p (zlen L) (mth node_hash L) n hn = Index.Ok tt) \/
     (exists a b c d : hash, (a, b) <> (c, d) /\ node_hash a b = node_hash c d)) /\
  ((exists p, check_tree node_hash p (zlen L) (mth node_hash L) n hn = Index.Ok tt) ->
     Consistent node_hash (NodeAt node_hash) (Tree n hn) (Tree (zlen L) (mth node_hash L)) \/
     (exists a b c d : hash, (a, b) <> (c, d) /\ node_hash a b = node_hash c d)).
Proof. exact SeqProofsOrderCheckTree.consistent_iff_check_tree. Qed.
Print Assumptions C13_consistent_iff_check_tree.

(* ================================================================================================
   Histories: chains of heads and the total order of accepted heads
   ================================================================================================ *)

(* every client's in-memory head moves along one chain, whatever the world and a foreign writer do:
   between any two points of a history the later head is the earlier one, or extends it *)
Theorem C13_client_heads_chain :
  forall sha leaf_hash node_hash V esc_path esc_vers skip vs name,
  (forall msg t, signed_tree V vs msg t -> Codec.tN t < 2 ^ 62) ->
  forall steps w cs rs evs w' cs',
  (forall i, ClientInv leaf_hash V (NodeAt node_hash) vs name (cs i)) -> key_ok sha vs name w ->
  run sha leaf_hash node_hash V esc_path esc_vers skip steps w cs = (rs, evs, w', cs') ->
  forall i,
    (c_latest (cs' i) = c_latest (cs i) \/
     (exists a b c d : hash, (a, b) <> (c, d) /\ node_hash a b = node_hash c d) \/
     Codec.tN (c_latest (cs i)) <= 0 \/
     ((c_latest (cs i) = c_latest (cs' i) \/
       (Codec.tN (c_latest (cs i)) < Codec.tN (c_latest (cs' i)) /\
        Consistent node_hash (NodeAt node_hash) (c_latest (cs i)) (c_latest (cs' i)))) /\
      Codec.tN (c_latest (cs' i)) <= 2 ^ 62)) /\
    Codec.tN (c_latest (cs i)) <= Codec.tN (c_latest (cs' i)).
Proof. exact client_heads_chain. Qed.
Print Assumptions C13_client_heads_chain.

(* the stored head moves along one chain when the clients of the history are its only writers:
   whatever was before the stored head stays before it *)
Theorem C13_config_heads_chain :
  forall sha leaf_hash node_hash V esc_path esc_vers skip vs name,
  (forall msg t, signed_tree V vs msg t -> Codec.tN t < 2 ^ 62) ->
  forall steps w cs rs evs w' cs',
  (forall i, ClientInv leaf_hash V (NodeAt node_hash) vs name (cs i)) -> key_ok sha vs name w ->
  w_interf w = [] ->
  run sha leaf_hash node_hash V esc_path esc_vers skip steps w cs = (rs, evs, w', cs') ->
  w_interf w' = [] /\
  forall A, BeforeCfg node_hash V vs name A w ->
    BeforeCfg node_hash V vs name A w' \/
    (exists a b c d : hash, (a, b) <> (c, d) /\ node_hash a b = node_hash c d).
Proof. exact config_heads_chain. Qed.
Print Assumptions C13_config_heads_chain.

(* the cross invariant: along a clean history without a foreign writer the head of every live client
   stays before the stored head *)
Theorem C13_heads_before_config :
  forall sha leaf_hash node_hash V esc_path esc_vers skip vs name,
  (forall msg t, signed_tree V vs msg t -> Codec.tN t < 2 ^ 62) ->
  forall steps w cs rs evs w' cs',
  (forall i, ClientInv leaf_hash V (NodeAt node_hash) vs name (cs i)) -> key_ok sha vs name w ->
  w_interf w = [] ->
  run sha leaf_hash node_hash V esc_path esc_vers skip steps w cs = (rs, evs, w', cs') ->
  run_clean sha leaf_hash node_hash V esc_path esc_vers skip steps w cs ->
  (forall i, live (cs i) ->
     (Codec.tN (c_latest (cs i)) <= 0 \/ BeforeCfg node_hash V vs name (c_latest (cs i)) w) \/
     (exists a b c d : hash, (a, b) <> (c, d) /\ node_hash a b = node_hash c d)) ->
  forall i, live (cs' i) ->
     (Codec.tN (c_latest (cs' i)) <= 0 \/ BeforeCfg node_hash V vs name (c_latest (cs' i)) w') \/
     (exists a b c d : hash, (a, b) <> (c, d) /\ node_hash a b = node_hash c d).
Proof. exact heads_before_config. Qed.
Print Assumptions C13_heads_before_config.

(* installed_heads_totally_ordered: along any history of any number of clients sharing the
   configuration (no foreign writer), in which no lookup both failed and moved its client's head,
   any two ACCEPTED heads — installed as the latest of a live client or stored in the configuration,
   in any of the states between the lookups — are equal or one is a strictly smaller Consistent
   prefix of the other: two mutually inconsistent signed heads are never both accepted.
   Collision disjunct explicit.  The side condition run_clean is necessary:
   see C13_installed_heads_totally_ordered_refuted / finding K10. *)
Theorem C13_installed_heads_totally_ordered :
  forall sha leaf_hash node_hash V esc_path esc_vers skip vs name,
  (forall msg t, signed_tree V vs msg t -> Codec.tN t < 2 ^ 62) ->
  forall steps w cs rs evs w' cs',
  (forall i, ClientInv leaf_hash V (NodeAt node_hash) vs name (cs i)) -> key_ok sha vs name w ->
  w_interf w = [] ->
  run sha leaf_hash node_hash V esc_path esc_vers skip steps w cs = (rs, evs, w', cs') ->
  run_clean sha leaf_hash node_hash V esc_path esc_vers skip steps w cs ->
  AllBefore node_hash V vs name w cs ->
  forall A B,
  accepted sha leaf_hash node_hash V esc_path esc_vers skip vs name steps w cs A ->
  accepted sha leaf_hash node_hash V esc_path esc_vers skip vs name steps w cs B ->
  ((A = B \/ (Codec.tN A < Codec.tN B /\ Consistent node_hash (NodeAt node_hash) A B)) \/
   (B = A \/ (Codec.tN B < Codec.tN A /\ Consistent node_hash (NodeAt node_hash) B A))) \/
  (exists a b c d : hash, (a, b) <> (c, d) /\ node_hash a b = node_hash c d).
Proof. exact installed_heads_totally_ordered. Qed.
Print Assumptions C13_installed_heads_totally_ordered.

(* NEGATIVE RESULT (finding K10): the side condition run_clean cannot be dropped.  A concrete world
   (real SHA-256; the signature table of the harness as V; no foreign writer; new clients) and a
   history of four lookups by two clients sharing the configuration — evaluated in the model by
   vm_compute, Client/SeqProofsOrderWitness.v — in which every other hypothesis of
   C13_installed_heads_totally_ordered holds, the third lookup returns ErrSecurity, the fourth
   (same client) succeeds, and at the end two ACCEPTED heads (A: the latest of the live client 0, size 6;
   B: the stored head, size 5) are comparable only if SHA-256 has a collision.  mergeLatest installs the
   presented head in memory (checked against the client's own, stale head) before it compares with the
   stored configuration; the comparison fails, the installed head stays. *)
Theorem C13_installed_heads_totally_ordered_refuted :
  exists (V : str -> str -> str -> bool) vs name steps w cs rs evs w' cs' A B,
    (forall msg t, signed_tree V vs msg t -> Codec.tN t < 2 ^ 62) /\
    (forall i, ClientInv Sha.record_hash V (NodeAt Sha.node_hash_sha) vs name (cs i)) /\
    (forall i, c_init (cs i) = None) /\
    key_ok Sha256.sha256 vs name w /\ w_interf w = [] /\
    AllBefore Sha.node_hash_sha V vs name w cs /\
    run Sha256.sha256 Sha.record_hash Sha.node_hash_sha V DispatchClient.esc_path_i DispatchClient.esc_vers_i
        (fun _ => false) steps w cs = (rs, evs, w', cs') /\
    (exists l0 l1 l3, rs = [LOk l0; LOk l1; LErr ESecurity; LOk l3] /\ l3 <> []) /\
    accepted Sha256.sha256 Sha.record_hash Sha.node_hash_sha V DispatchClient.esc_path_i DispatchClient.esc_vers_i
             (fun _ => false) vs name steps w cs A /\
    accepted Sha256.sha256 Sha.record_hash Sha.node_hash_sha V DispatchClient.esc_path_i DispatchClient.esc_vers_i
             (fun _ => false) vs name steps w cs B /\
    (((A = B \/ (Codec.tN A < Codec.tN B /\ Consistent Sha.node_hash_sha (NodeAt Sha.node_hash_sha) A B)) \/
      (B = A \/ (Codec.tN B < Codec.tN A /\ Consistent Sha.node_hash_sha (NodeAt Sha.node_hash_sha) B A))) ->
     exists a b c d : hash, (a, b) <> (c, d) /\ Sha.node_hash_sha a b = Sha.node_hash_sha c d) /\
    ~ run_clean Sha256.sha256 Sha.record_hash Sha.node_hash_sha V DispatchClient.esc_path_i DispatchClient.esc_vers_i
                (fun _ => false) steps w cs.
Proof. exact SeqProofsOrderWitness.installed_heads_totally_ordered_refuted. Qed.
Print Assumptions C13_installed_heads_totally_ordered_refuted.

(* non-vacuity: new clients (restarts) over ANY configuration satisfy the hypotheses on clients *)
Example C13_new_clients_all_before : forall node_hash V vs name w,
  AllBefore node_hash V vs name w (fun _ => new_client 2).
Proof. intros. apply fresh_all_before. reflexivity. Qed.

(* ================================================================================================
   The interference-closed model: the retry branch of mergeLatestMem and the compare-and-swap loop
   ================================================================================================ *)

(* with an environment that does nothing the refined steps ARE the steps of Seq.v *)
Theorem C13_env_nil_is_seq :
  forall (node_hash : hash -> hash -> hash) (V : str -> str -> str -> bool) (msg : str) (s : state),
  merge_latest_mem_env node_hash V msg [] s =
    (let (r, s') := merge_latest_mem node_hash V msg s in (r, [], s')) /\
  merge_latest_env node_hash V msg [] s =
    (let (r, s') := merge_latest node_hash V msg s in (r, [], s')).
Proof. intros. split; [apply merge_latest_mem_env_nil | apply merge_latest_env_nil]. Qed.
Print Assumptions C13_env_nil_is_seq.

(* (a) client invariant and config_monotone_chain under interference: whatever the other lookups of
   the client (env_ok) and a foreign writer of the configuration (w_interf, any bytes) do, mergeLatest
   keeps CInv, never runs out of fuel, and every WriteConfig it issues writes a head signed under the
   configured key over a stored head that is empty or a signed, strictly smaller Consistent prefix of it
   (or a collision is explicit: the written head may be a later one than the one compared);
   (c) and a security error comes with Security events whose text contains the offending note and the
   note of the head the client holds when the call returns *)
Theorem C13_env_invariant_config_chain_report :
  forall (sha : str -> str) leaf_hash node_hash V (esc_path esc_vers : str -> option str) (skip : str -> bool) vs name,
  (forall msg t, signed_tree V vs msg t -> Codec.tN t < 2 ^ 62) ->
  forall msg e s r e' s',
  CInv leaf_hash V (NodeAt node_hash) vs name (s_c s) -> env_ok node_hash V vs e ->
  merge_latest_env node_hash V msg e s = (r, e', s') ->
  CInv leaf_hash V (NodeAt node_hash) vs name (s_c s') /\ env_ok node_hash V vs e' /\ r <> Some EFuelC /\
  exists evs, s_tr s' = s_tr s ++ evs /\
    (forall f old new ok, In (EvWriteConfig f old new ok) evs ->
       f = latest_file name /\
       ((exists tnew, signed_tree V vs new tnew /\
           (old = [] \/ exists told, signed_tree V vs old told /\ Codec.tN told < Codec.tN tnew /\
                                     Consistent node_hash (NodeAt node_hash) told tnew)) \/
        (exists a b c d : hash, (a, b) <> (c, d) /\ node_hash a b = node_hash c d))) /\
    (r = Some ESecurity ->
       Exists is_sec evs /\
       exists off, (off = [] \/ exists t, signed_tree V vs off t) /\
         forall m, In (EvSecurity m) evs ->
           (exists pre post, m = pre ++ indent off ++ post) /\
           (exists pre post, m = pre ++ indent (c_latest_msg (s_c s')) ++ post)).
Proof. exact merge_latest_env_safe. Qed.
Print Assumptions C13_env_invariant_config_chain_report.

(* (b) fork_never_accepted under interference: mergeLatestMem installs a head only if it is signed and
   Consistent with the head current AT INSTALL TIME — s1 is the state immediately before the install,
   whose head was reached from the initial one by environment turns only *)
Theorem C13_env_installs_only_consistent :
  forall (sha : str -> str) leaf_hash node_hash V (esc_path esc_vers : str -> option str) (skip : str -> bool) vs name,
  (forall msg t, signed_tree V vs msg t -> Codec.tN t < 2 ^ 62) ->
  forall msg e s e' s',
  CInv leaf_hash V (NodeAt node_hash) vs name (s_c s) -> env_ok node_hash V vs e ->
  merge_latest_mem_env node_hash V msg e s = (inl MsgFuture, e', s') ->
  exists s1 tr, s' = install_state tr msg s1 /\ signed_tree V vs msg tr /\
    chain node_hash (c_latest (s_c s)) (c_latest (s_c s1)) /\
    Codec.tN (c_latest (s_c s1)) < Codec.tN tr /\
    Consistent node_hash (NodeAt node_hash) (c_latest (s_c s1)) tr.
Proof. exact mem_env_installs_consistent. Qed.
Print Assumptions C13_env_installs_only_consistent.

(* ... so a signed head off the timeline of every head the client holds during the call is refused:
   the call fails, the configuration is untouched, and the client's head is one the environment put there *)
Theorem C13_env_fork_never_accepted :
  forall (sha : str -> str) leaf_hash node_hash V (esc_path esc_vers : str -> option str) (skip : str -> bool) vs name,
  (forall msg t, signed_tree V vs msg t -> Codec.tN t < 2 ^ 62) ->
  forall msg tr e s r e' s',
  CInv leaf_hash V (NodeAt node_hash) vs name (s_c s) -> env_ok node_hash V vs e ->
  signed_tree V vs msg tr ->
  (forall L, chain node_hash (c_latest (s_c s)) L -> ~ on_timeline node_hash (NodeAt node_hash) L tr) ->
  merge_latest_mem_env node_hash V msg e s = (r, e', s') ->
  (exists err, r = inr err) /\
  chain node_hash (c_latest (s_c s)) (c_latest (s_c s')) /\
  (w_config (s_w s') = w_config (s_w s) /\ w_interf (s_w s') = w_interf (s_w s)) /\
  textend (ev_nocfg leaf_hash node_hash V (NodeAt node_hash) (tile_ok node_hash) vs name) s s'.
Proof. exact fork_never_installed_env. Qed.
Print Assumptions C13_env_fork_never_accepted.

(* (c) fork_reports_both_heads under interference, for mergeLatestMem: a security error comes with a
   Security event, and every Security event emitted contains the offending note and the note of the head
   the client holds when the call returns — the head current at detection time (the snapshot is refreshed
   after every lost install), reached from the initial one by environment turns *)
Theorem C13_env_fork_reports_both_heads :
  forall (sha : str -> str) leaf_hash node_hash V (esc_path esc_vers : str -> option str) (skip : str -> bool) vs name,
  (forall msg t, signed_tree V vs msg t -> Codec.tN t < 2 ^ 62) ->
  forall msg e s e' s',
  CInv leaf_hash V (NodeAt node_hash) vs name (s_c s) -> env_ok node_hash V vs e ->
  merge_latest_mem_env node_hash V msg e s = (inr ESecurity, e', s') ->
  chain node_hash (c_latest (s_c s)) (c_latest (s_c s')) /\
  exists evs, s_tr s' = s_tr s ++ evs /\ Exists is_sec evs /\
    forall m, In (EvSecurity m) evs ->
      (exists pre post, m = pre ++ indent msg ++ post) /\
      (exists pre post, m = pre ++ indent (c_latest_msg (s_c s')) ++ post).
Proof. exact mem_env_security_report. Qed.
Print Assumptions C13_env_fork_reports_both_heads.

(* non-vacuity of env_ok: the idle environment of any length *)
Example C13_env_ok_idle : forall node_hash V vs k, env_ok node_hash V vs (repeat (fun _ _ => None) k).
Proof. intros. unfold env_ok. apply Forall_forall. intros f Hin. apply repeat_spec in Hin. subst f. intros L Lm t m [=]. Qed.

(* WHAT REMAINS OUTSIDE THE COQ THEOREMS
   * whole-Lookup interleavings between clients (two lookups of different clients overlapping on the
     configuration operations) are decided by the schedule-controlled streams of harness/props/c13.go
     (oracle strength; the honest-world LTS is C14's).  What IS proved about concurrency is the
     interference-closed step: any behaviour of the other lookups of the same client (env_ok) and of a
     foreign writer of the configuration, at every point where mergeLatestMem / mergeLatest re-read
     shared state.
   * "accepted" observes the states between lookups: a head installed and superseded by the stored head
     within one mergeLatest is not in the set (it is a prefix of the stored head by the check that
     superseded it).
   * consistent_iff_check_tree is relative to a ground-truth log; the order theorems
     (C13_consistent_trans / _prefixes / _same_size) need none. *)
