(* C13 — the client follows one consistent timeline of signed tree heads.
   Property theorems only; each is closed by [exact] of a lemma proved elsewhere
   (Client/SeqProofs*.v).  Same model and vocabulary as Props/C01.v; in addition
     Consistent node_hash NodeAt older newer
        := older is the empty tree, or the hashes of the decomposition SubTreeIndex(0, older.N),
           each authenticated (NodeAt) against newer's root, fold (TreeHash) to older's hash
           — exactly what checkTrees computes from newer's tiles;
     on_timeline latest tr := Consistent tr latest if tr.N <= latest.N, else Consistent latest tr
        (the comparison mergeLatestMem makes);
     run steps w cs : the history semantics — lookups (client index, path, version) executed one
        after the other by any number of clients sharing the world w (restarts are new clients). *)
From Verif.Base Require Import Bytes.
From Verif.Tlog Require Import Index Tree Codec Tile TileReader TileSpec.
From Verif.Note Require Import Note.
From Verif.Client Require Import Seq SeqProofs SeqProofsTile SeqProofsSafe SeqProofsTop SeqProofsInst SeqProofsHonest.
From Verif.Tlog Require ProofsTree.

(* config_monotone_chain: along any history every WriteConfig (successful or lost to a write
   conflict) writes a head signed under the configured key over a stored head that is empty or
   signed, strictly smaller, and Consistent with the new one. *)
Theorem C13_config_monotone_chain :
  forall sha leaf_hash node_hash V esc_path esc_vers skip vs name,
  (forall msg t, signed_tree V vs msg t -> Codec.tN t < 2 ^ 62) ->
  forall steps w cs rs evs w' cs' f old new ok,
  (forall i, ClientInv leaf_hash V (NodeAt node_hash) vs name (cs i)) -> key_ok sha vs name w ->
  run sha leaf_hash node_hash V esc_path esc_vers skip steps w cs = (rs, evs, w', cs') ->
  In (EvWriteConfig f old new ok) evs ->
  f = latest_file name /\
  exists tnew, signed_tree V vs new tnew /\
    (old = [] \/ exists told, signed_tree V vs old told /\ Codec.tN told < Codec.tN tnew /\
                              Consistent node_hash (NodeAt node_hash) told tnew).
Proof. exact config_monotone_chain_c10. Qed.
Print Assumptions C13_config_monotone_chain.

(* fork_never_accepted: a validly signed head that is not on the client's timeline (either size
   order, equal sizes with different hashes included) makes mergeLatest fail; the client's head and
   the configuration are unchanged and no WriteConfig is emitted (ev_nocfg). *)
Theorem C13_fork_never_accepted :
  forall (sha : str -> str) leaf_hash node_hash V (esc_path esc_vers : str -> option str) (skip : str -> bool) vs name,
  (forall msg t, signed_tree V vs msg t -> Codec.tN t < 2 ^ 62) ->
  forall msg tr s r s',
  CInv leaf_hash V (NodeAt node_hash) vs name (s_c s) ->
  signed_tree V vs msg tr ->
  ~ on_timeline node_hash (NodeAt node_hash) (c_latest (s_c s)) tr ->
  merge_latest node_hash V msg s = (r, s') ->
  (exists e, r = Some e) /\
  (c_latest (s_c s') = c_latest (s_c s) /\ c_latest_msg (s_c s') = c_latest_msg (s_c s)) /\
  (w_config (s_w s') = w_config (s_w s) /\ w_interf (s_w s') = w_interf (s_w s)) /\
  textend (ev_nocfg leaf_hash node_hash V (NodeAt node_hash) (tile_ok node_hash) vs name) s s'.
Proof. exact fork_never_accepted_c10. Qed.
Print Assumptions C13_fork_never_accepted.

(* fork_reports_both_heads, part 1: every Security event names two notes, each the empty timeline
   or signed under the configured key, and its text contains both (indented as checkTrees prints them) *)
Theorem C13_security_report_shape :
  forall sha leaf_hash node_hash V esc_path esc_vers skip vs name,
  (forall msg t, signed_tree V vs msg t -> Codec.tN t < 2 ^ 62) ->
  forall steps w cs rs evs w' cs' msg,
  (forall i, ClientInv leaf_hash V (NodeAt node_hash) vs name (cs i)) -> key_ok sha vs name w ->
  run sha leaf_hash node_hash V esc_path esc_vers skip steps w cs = (rs, evs, w', cs') ->
  In (EvSecurity msg) evs ->
  exists older newer,
    (older = [] \/ exists t, signed_tree V vs older t) /\ (newer = [] \/ exists t, signed_tree V vs newer t) /\
    (exists pre post, msg = pre ++ indent older ++ post) /\ (exists pre post, msg = pre ++ indent newer ++ post).
Proof. exact security_report_shape_c10. Qed.
Print Assumptions C13_security_report_shape.

(* fork_reports_both_heads, part 2: whenever a lookup of a history whose clients start without a
   memoised security error returns ErrSecurity, a Security event is in the trace *)
Theorem C13_security_error_reported :
  forall sha leaf_hash node_hash V esc_path esc_vers skip vs name,
  (forall msg t, signed_tree V vs msg t -> Codec.tN t < 2 ^ 62) ->
  forall steps w cs rs evs w' cs',
  (forall i, ClientInv leaf_hash V (NodeAt node_hash) vs name (cs i)) -> key_ok sha vs name w ->
  (forall i, ~ sec_memo (cs i)) ->
  run sha leaf_hash node_hash V esc_path esc_vers skip steps w cs = (rs, evs, w', cs') ->
  In (LErr ESecurity) rs -> Exists is_sec evs.
Proof. exact security_error_reported_c10. Qed.
Print Assumptions C13_security_error_reported.

(* WriteConfig is a compare-and-swap on the stored file (after a possible interference) *)
Theorem C13_write_config_cas : forall f old new s,
  let cfg1 := match w_interf (s_w s) with Some x :: _ => assoc_set f x (w_config (s_w s)) | _ => w_config (s_w s) end in
  let cur := match assoc f cfg1 with Some d => d | None => [] end in
  fst (write_config f old new s) = str_eqb old cur /\
  w_config (s_w (snd (write_config f old new s))) = (if str_eqb old cur then assoc_set f new cfg1 else cfg1) /\
  s_tr (snd (write_config f old new s)) = s_tr s ++ [EvWriteConfig f old new (str_eqb old cur)].
Proof. exact write_config_cas. Qed.
Print Assumptions C13_write_config_cas.

(* non-vacuity: new clients satisfy the hypotheses of the history theorems *)
Example C13_new_clients_inv : forall leaf_hash V NodeAt vs name,
  (forall i : nat, ClientInv leaf_hash V NodeAt vs name ((fun _ => new_client 2) i)) /\
  (forall i : nat, ~ sec_memo ((fun _ => new_client 2) i)).
Proof.
  intros. split; intros i.
  - unfold ClientInv, Fresh, new_client. cbn. repeat split; lia.
  - unfold sec_memo, new_client. cbn. intros [H|(f & [])]. discriminate.
Qed.

(* honest growth never triggers Security: along any history of lookups by any number of clients
   (fresh or initialised, sharing configuration and cache) in an honest world — one log, heads of any
   sizes up to N presented in any order, cache any subset of the honest files — no Security event is
   emitted and no lookup returns ErrSecurity; world and clients stay honest.  (HonestWorld, GoodClient:
   see Props/C01.v, C01_lookup_honest_complete.) *)
Theorem C13_honest_growth_no_security :
  forall sha leaf_hash node_hash V esc_path esc_vers skip (T : Z -> Z -> hash) N h,
  ProofsTree.T_splits node_hash T N -> (forall lo hi, length (T lo hi) = 32%nat) ->
  0 < N <= 2 ^ 62 -> 1 <= h <= 30 ->
  forall vs name steps w cs rs evs w' cs',
  HonestWorld sha leaf_hash V T N h vs name w ->
  (forall i, GoodClient leaf_hash V T N h vs name (cs i)) ->
  run sha leaf_hash node_hash V esc_path esc_vers skip steps w cs = (rs, evs, w', cs') ->
  HonestWorld sha leaf_hash V T N h vs name w' /\
  (forall i, GoodClient leaf_hash V T N h vs name (cs' i)) /\
  Forall nosec evs /\ ~ In (LErr ESecurity) rs.
Proof. exact honest_run_no_security. Qed.
Print Assumptions C13_honest_growth_no_security.

(* NOT PROVED (targets of DESIGN.md):
   * "the set of heads ever installed is totally ordered by Consistent": needs transitivity of
     Consistent, which holds only up to hash collisions (NodeAt facts for two different roots);
     the per-step statement C13_config_monotone_chain is what is proved.
   * consistent_iff_check_tree (Consistent older newer <-> exists p, check_tree p newer older = Ok):
     not attempted; Consistent is stated directly as what checkTrees computes.
   * the retry branch of mergeLatestMem (c.latest changed underfoot by a concurrent lookup of the
     same client) and interleavings of the configuration operations of several clients do not exist
     in the sequential model; those paths are decided only by the overlapping-lookups and
     configuration-interleaving streams of harness/props/c13.go (oracle strength). *)
