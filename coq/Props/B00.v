(* B00 - auxiliary check for the shared base libraries (Base64, Sha256, Strconv, Utf8):
   not a property of golang/mod; ties the models to Go's standard library by the
   correspondence run and states the lemmas other properties rely on.
   Theorems only; each is closed by [exact] of a lemma proved in Base/*Proofs.v. *)
From Verif.Base Require Import Bytes Base64 Sha256 Strconv.
From Verif.Base Require Import Utf8 Base64Proofs Sha256Proofs StrconvProofs Utf8Proofs QuoteProofs.

Theorem B00_sha256_abc :
  sha256 (B "abc") =
  [186; 120; 22; 191; 143; 1; 207; 234; 65; 65; 64; 222; 93; 174; 34; 35;
   176; 3; 97; 163; 150; 23; 122; 156; 180; 16; 255; 97; 242; 0; 21; 173].
Proof. vm_compute. reflexivity. Qed.
Print Assumptions B00_sha256_abc.

Theorem B00_sha256_length : forall s, length (sha256 s) = 32%nat.
Proof. exact sha256_length. Qed.
Print Assumptions B00_sha256_length.

Theorem B00_sha256_bytes : forall s, Forall (fun b => 0 <= b < 256) (sha256 s).
Proof. exact sha256_bytes. Qed.
Print Assumptions B00_sha256_bytes.

Theorem B00_b64_decode_encode :
  forall s, Forall (fun b => 0 <= b < 256) s -> Base64.decode (Base64.encode s) = Some s.
Proof. exact b64_decode_encode. Qed.
Print Assumptions B00_b64_decode_encode.

Theorem B00_b64_encode_length :
  forall s, length (Base64.encode s) = (4 * ((length s + 2) / 3))%nat.
Proof. exact b64_encode_length. Qed.
Print Assumptions B00_b64_encode_length.

(* every output character is in A-Z a-z 0-9 + / or is '=' *)
Theorem B00_b64_encode_alphabet :
  forall s, Forall (fun b => 0 <= b < 256) s ->
  Forall (fun c => (match sextet c with Some _ => true | None => c =? 61 end) = true) (Base64.encode s).
Proof. exact b64_encode_alphabet. Qed.
Print Assumptions B00_b64_encode_alphabet.

Theorem B00_parse_format_int :
  forall n, - 2 ^ 63 <= n < 2 ^ 63 -> parse_int64 (format_int n) = Some n.
Proof. exact parse_format_int. Qed.
Print Assumptions B00_parse_format_int.

Theorem B00_atoi_format_int :
  forall n, - 2 ^ 63 <= n < 2 ^ 63 -> atoi (format_int n) = Some n.
Proof. exact atoi_format_int. Qed.
Print Assumptions B00_atoi_format_int.

(* optional '-', then decimal digits without a leading zero (except for "0") *)
Theorem B00_format_int_shape :
  forall n, exists ds,
    format_int n = (if n <? 0 then [45] else []) ++ ds /\
    Forall (fun c => is_digit c = true) ds /\ ds <> [] /\ (n = 0 -> ds = [48]) /\
    (n <> 0 -> exists c r, ds = c :: r /\ c <> 48).
Proof. exact format_int_shape. Qed.
Print Assumptions B00_format_int_shape.

Theorem B00_format_int_inj : forall n m, format_int n = format_int m -> n = m.
Proof. exact format_int_inj. Qed.
Print Assumptions B00_format_int_inj.

(* strconv.Unquote(strconv.Quote(s)) = s for every byte string, valid UTF-8 or not *)
Theorem B00_unquote_quote :
  forall s, Forall (fun b => 0 <= b < 256) s -> unquote (quote s) = Some s.
Proof. exact unquote_quote. Qed.
Print Assumptions B00_unquote_quote.

(* Quote(s) is a double quote, a body made of plain characters (no backslash, double quote
   or newline) and backslash-plus-one-character pairs, and a double quote *)
Theorem B00_quote_shape :
  forall s, Forall (fun b => 0 <= b < 256) s ->
  exists body, quote s = 34 :: body ++ [34] /\ dq_safe body.
Proof. exact quote_shape. Qed.
Print Assumptions B00_quote_shape.

(* utf8.DecodeRune after utf8.EncodeRune, for valid runes *)
Theorem B00_utf8_decode_encode :
  forall r tail, (0 <= r < 55296 \/ 57343 < r <= 1114111) ->
  Utf8.decode (Utf8.encode r ++ tail) = (r, length (Utf8.encode r)).
Proof. exact decode_encode. Qed.
Print Assumptions B00_utf8_decode_encode.

Example B00_hypotheses_satisfiable :
  (- 2 ^ 63 <= -9223372036854775808 < 2 ^ 63) /\ Forall (fun b => 0 <= b < 256) [0; 255].
Proof. split; [lia | repeat constructor; lia]. Qed.
