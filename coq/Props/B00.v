(* B00 - auxiliary check for the shared base libraries (Base64, Sha256, Strconv, Utf8):
   not a property of golang/mod; ties the models to Go's standard library by the
   correspondence run and states the lemmas other properties rely on. *)
From Verif.Base Require Import Bytes Base64 Sha256 Strconv.

Theorem B00_sha256_abc :
  sha256 (B "abc") =
  [186; 120; 22; 191; 143; 1; 207; 234; 65; 65; 64; 222; 93; 174; 34; 35;
   176; 3; 97; 163; 150; 23; 122; 156; 180; 16; 255; 97; 242; 0; 21; 173].
Proof. vm_compute. reflexivity. Qed.
Print Assumptions B00_sha256_abc.
