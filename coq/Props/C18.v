(* C18 — Pseudo-versions round-trip and sort between their base and the next release.
   Property theorems only; each is closed by [exact] of a lemma proved in
   Module/PseudoProofs*.v.

   Reading the statements.  Strings are lists of byte values.  pseudo_version major older ts rv
   is module.PseudoVersion(major, older, t, rev) with ts = t.UTC().Format("20060102150405")
   (Some pv: the returned string; None: the index fault inside incDecimal).  The hypotheses
   are those of DESIGN.md:
     major : "" or "v" followed by a numeral        (major = [] \/ exists M, major = 118 :: M /\ numeral M)
     ts    : 14 digits                              (length ts = 14 /\ forallb is_digit ts)
     rv    : non-empty, [A-Za-z0-9]                 (rv <> [] /\ forallb is_alnum rv)
     older : any string; a string that is not a valid version is treated by the code (and by the
             theorems) as "no base"; pseudo_between asks for is_valid older, pseudo_nobase_below
             for parse older = None (i.e. older = "" or not a version).
   POk / PErr k / PPanic are a normal return, an error return and a Go panic. *)
From Verif.Base Require Import Bytes.
From Verif.Gen Require Import GenRegex.
From Verif.Semver Require Import Model Spec.
From Verif.Module Require Import Pseudo PseudoProofsDec PseudoProofsRe PseudoProofs PseudoProofsMain PseudoProofsOrder PseudoProofsCount.

(* the regular expression the recogniser pseudo_re_match was written for is the one in
   module/pseudo.go now (regenerated into Gen/GenRegex.v on every run) *)
Theorem C18_pseudo_re_source :
  module_pseudoVersionRE =
  B "^v[0-9]+\.(0\.0-|\d+\.\d+-([^+]*\.)?0\.)\d{14}-[A-Za-z0-9]+(\+[0-9A-Za-z-]+(\.[0-9A-Za-z-]+)*)?$".
Proof. exact pseudo_re_source. Qed.
Print Assumptions C18_pseudo_re_source.

(* PseudoVersion never reaches the fault in incDecimal, for arbitrary arguments *)
Theorem C18_pseudo_version_no_panic :
  forall major older ts rv, pseudo_version major older ts rv <> None.
Proof. exact pseudo_version_no_panic. Qed.
Print Assumptions C18_pseudo_version_no_panic.

Theorem C18_pseudo_valid :
  forall major older ts rv pv,
    (major = [] \/ exists M, major = 118 :: M /\ numeral M = true) ->
    (length ts = 14%nat /\ forallb is_digit ts = true) ->
    (rv <> [] /\ forallb is_alnum rv = true) ->
    pseudo_version major older ts rv = Some pv ->
    is_valid pv = true /\ is_pseudo_version pv = true.
Proof. exact pseudo_valid. Qed.
Print Assumptions C18_pseudo_valid.

(* base (canonical form plus build metadata; "" without a base), revision and timestamp are
   recovered; in particular PseudoVersionBase returns normally: its two panic branches and
   its error branches are not reached *)
Theorem C18_pseudo_roundtrip :
  forall major older ts rv pv,
    (major = [] \/ exists M, major = 118 :: M /\ numeral M = true) ->
    (length ts = 14%nat /\ forallb is_digit ts = true) ->
    (rv <> [] /\ forallb is_alnum rv = true) ->
    pseudo_version major older ts rv = Some pv ->
    pseudo_version_base pv = POk (canonical older ++ build older) /\
    pseudo_version_rev pv = POk rv /\
    pseudo_version_ts pv = (if ts_valid ts then POk ts else PErr 3).
Proof. exact pseudo_roundtrip. Qed.
Print Assumptions C18_pseudo_roundtrip.

(* decDecimal undoes incDecimal on numerals of any length *)
Theorem C18_inc_dec_decimal :
  forall d d', numeral d = true -> inc_decimal d = Some d' -> dec_decimal d' = d.
Proof. exact inc_dec_decimal. Qed.
Print Assumptions C18_inc_dec_decimal.

(* ... on digit strings with leading zeros too, except '0' followed only by nines, where the
   leading zero is lost ("099" -> "100" -> "99"); such strings are not patch numbers *)
Theorem C18_inc_dec_decimal_digits :
  forall d d', forallb is_digit d = true -> d <> [] ->
               (forall k, d <> 48 :: repeat 57 (S k)) ->
               inc_decimal d = Some d' -> dec_decimal d' = d.
Proof. exact inc_dec_decimal_digits. Qed.
Print Assumptions C18_inc_dec_decimal_digits.

Theorem C18_inc_dec_decimal_leading_zero_refuted :
  forall k, inc_decimal (48 :: repeat 57 (S k)) = Some (49 :: repeat 48 (S k)) /\
            dec_decimal (49 :: repeat 48 (S k)) = repeat 57 (S k).
Proof. exact inc_dec_decimal_leading_zero_refuted. Qed.
Print Assumptions C18_inc_dec_decimal_leading_zero_refuted.

(* strictly above the base and strictly below the next release: vX.Y.(Z+1) for a release
   base, vX.Y.Z for a prerelease base (next_release, Module/Pseudo.v) *)
Theorem C18_pseudo_between :
  forall major older ts rv pv,
    is_valid older = true ->
    (length ts = 14%nat /\ forallb is_digit ts = true) ->
    (rv <> [] /\ forallb is_alnum rv = true) ->
    pseudo_version major older ts rv = Some pv ->
    compare older pv = -1 /\ compare pv (next_release older) = -1.
Proof. exact pseudo_between. Qed.
Print Assumptions C18_pseudo_between.

Theorem C18_pseudo_nobase_below :
  forall major older ts rv pv,
    (major = [] \/ exists M, major = 118 :: M /\ numeral M = true) ->
    parse older = None ->
    (length ts = 14%nat /\ forallb is_digit ts = true) ->
    (rv <> [] /\ forallb is_alnum rv = true) ->
    pseudo_version major older ts rv = Some pv ->
    pv = (if is_nil major then B "v0" else major) ++ B ".0.0-" ++ ts ++ B "-" ++ rv /\
    compare pv ((if is_nil major then B "v0" else major) ++ B ".0.0") = -1.
Proof. exact pseudo_nobase_below. Qed.
Print Assumptions C18_pseudo_nobase_below.

(* same major and base: a lexicographically smaller 14-digit timestamp gives a smaller
   version, whatever the two revisions *)
Theorem C18_pseudo_time_monotone :
  forall major older ts1 rv1 ts2 rv2 pv1 pv2,
    (major = [] \/ exists M, major = 118 :: M /\ numeral M = true) ->
    (length ts1 = 14%nat /\ forallb is_digit ts1 = true) -> (rv1 <> [] /\ forallb is_alnum rv1 = true) ->
    (length ts2 = 14%nat /\ forallb is_digit ts2 = true) -> (rv2 <> [] /\ forallb is_alnum rv2 = true) ->
    str_cmp ts1 ts2 = Lt ->
    pseudo_version major older ts1 rv1 = Some pv1 ->
    pseudo_version major older ts2 rv2 = Some pv2 ->
    compare pv1 pv2 = -1.
Proof. exact pseudo_time_monotone. Qed.
Print Assumptions C18_pseudo_time_monotone.

(* the test strings.Count(v, "-") >= 2 of IsPseudoVersion is implied by the regular
   expression (a fast path only; changing it to ">= 1" is unobservable) *)
Theorem C18_count_test_redundant :
  forall v, pseudo_re_match v = true -> (2 <= count_byte 45 v)%nat.
Proof. exact pseudo_re_two_dashes. Qed.
Print Assumptions C18_count_test_redundant.

(* the hypotheses are satisfiable, and the functions compute what the documentation shows *)
Example C18_examples :
  let ts := B "20191109021931" in let rv := B "daa7c04131f5" in
  (length ts = 14%nat /\ forallb is_digit ts = true) /\ (rv <> [] /\ forallb is_alnum rv = true) /\
  pseudo_version (B "v1") [] ts rv = Some (B "v1.0.0-20191109021931-daa7c04131f5") /\
  pseudo_version (B "v1") (B "v1.2.3") ts rv = Some (B "v1.2.4-0.20191109021931-daa7c04131f5") /\
  pseudo_version (B "v1") (B "v1.2.3-pre") ts rv = Some (B "v1.2.3-pre.0.20191109021931-daa7c04131f5") /\
  pseudo_version (B "v2") (B "v2.9.99+incompatible") ts rv = Some (B "v2.9.100-0.20191109021931-daa7c04131f5+incompatible") /\
  pseudo_version_base (B "v2.9.100-0.20191109021931-daa7c04131f5+incompatible") = POk (B "v2.9.99+incompatible") /\
  pseudo_version_base (B "v1.0.0-0.20191109021931-daa7c04131f5") = PErr 2 /\
  pseudo_version_base (B "v1.0.0-20191109021931-daa7c04131f5+incompatible") = PErr 1 /\
  next_release (B "v1.2.3") = B "v1.2.4" /\ next_release (B "v1.2.3-pre") = B "v1.2.3".
Proof. vm_compute. repeat split; discriminate. Qed.
