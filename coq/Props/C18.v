(* C18 — Pseudo-versions round-trip and sort between their base and the next release.
   Property theorems only. *)
From Verif.Base Require Import Bytes.
From Verif.Gen Require Import GenRegex.
From Verif.Semver Require Import Model.
From Verif.Module Require Import Pseudo PseudoProofsRe.

Theorem C18_pseudo_re_source :
  module_pseudoVersionRE =
  B "^v[0-9]+\.(0\.0-|\d+\.\d+-([^+]*\.)?0\.)\d{14}-[A-Za-z0-9]+(\+[0-9A-Za-z-]+(\.[0-9A-Za-z-]+)*)?$".
Proof. exact pseudo_re_source. Qed.
Print Assumptions C18_pseudo_re_source.
