(* C19 — The module content hash is the documented formula over names and bytes only.
   Property theorems only; each is closed by [exact] of a lemma proved in Dirhash/Proofs*.v.
   All theorems hold for every hash function [sha]; the correspondence run instantiates it
   with the executable SHA-256 (Base/Sha256.v).  Strings are lists of bytes ([str]);
   [open : str -> option str] is the open function handed to Hash1 ([None] = open/read
   fails); a tree / a zip archive is a list of (name, content) pairs (Dirhash/Model.v). *)
From Verif.Base Require Import Bytes Hex SortStr Base64 Base64Proofs Sha256 Sha256Proofs.
From Verif.Dirhash Require Import Model Proofs ProofsDir.
From Coq Require Import Sorting.Permutation.

(* The h1 hash is "h1:" + base64(sha(summary)); the summary has one line per listed file,
   hex(sha content) + two spaces + name + newline, in sort.Strings order of the names. *)
Theorem C19_hash1_formula :
  forall (sha : str -> str) (files : list str) (open : str -> option str) (content : str -> str),
    (forall f, In f files -> has_newline f = false) ->
    (forall f, In f files -> open f = Some (content f)) ->
    hash1 sha files open =
      Ok (B "h1:" ++ b64_encode (sha (concat (map
            (fun f => hex_encode (sha (content f)) ++ B "  " ++ f ++ [10])
            (sort_strs files))))).
Proof. exact hash1_formula. Qed.
Print Assumptions C19_hash1_formula.

(* Nothing else is refused: Hash1 succeeds exactly when no listed name contains a newline
   and every listed file can be read; otherwise the first offending name in sorted order
   decides the error (newline test before open). *)
Theorem C19_hash1_error_iff :
  forall (sha : str -> str) (files : list str) (open : str -> option str),
    ((exists s, hash1 sha files open = Ok s) <->
     (forall f, In f files -> has_newline f = false /\ open f <> None)) /\
    (forall good f rest,
       sort_strs files = good ++ f :: rest ->
       (forall g, In g good -> has_newline g = false /\ open g <> None) ->
       (has_newline f = true -> hash1 sha files open = ErrNewline) /\
       (has_newline f = false -> open f = None -> hash1 sha files open = ErrOpen f)).
Proof. exact hash1_error_iff. Qed.
Print Assumptions C19_hash1_error_iff.

(* Names containing a newline are refused. *)
Theorem C19_newline_rejected :
  forall (sha : str -> str) (files : list str) (open : str -> option str) (f : str),
    In f files -> has_newline f = true ->
    (forall s, hash1 sha files open <> Ok s) /\
    ((forall g, In g files -> open g <> None) -> hash1 sha files open = ErrNewline).
Proof. exact newline_rejected. Qed.
Print Assumptions C19_newline_rejected.

(* The hash does not depend on the order in which files are listed. *)
Theorem C19_hash1_perm_invariant :
  forall (sha : str -> str) (l1 l2 : list str) (open : str -> option str),
    Permutation l1 l2 -> hash1 sha l1 open = hash1 sha l2 open.
Proof. exact hash1_perm_invariant. Qed.
Print Assumptions C19_hash1_perm_invariant.

(* The summary is uniquely decodable: with a fixed-length sha and newline-free names,
   equal summaries have the same sorted names with the same content digests — whatever the
   names look like (double spaces, hex digits, entire fake lines). *)
Theorem C19_summary_injective :
  forall (sha : str -> str) (hlen : nat), (forall x, length (sha x) = hlen) ->
  forall (l1 l2 : list str) (c1 c2 : str -> str),
    (forall f, In f l1 -> has_newline f = false) ->
    (forall f, In f l2 -> has_newline f = false) ->
    concat (map (fun f => hex_encode (sha (c1 f)) ++ B "  " ++ f ++ [10]) (sort_strs l1)) =
    concat (map (fun f => hex_encode (sha (c2 f)) ++ B "  " ++ f ++ [10]) (sort_strs l2)) ->
    map (fun f => (f, sha (c1 f))) (sort_strs l1) = map (fun f => (f, sha (c2 f))) (sort_strs l2).
Proof. exact summary_injective. Qed.
Print Assumptions C19_summary_injective.

(* Different (multi)sets of (name, content) pairs give different summaries, or exhibit a
   concrete collision of sha on two of the contents. *)
Theorem C19_distinct_sets_distinct_summaries :
  forall (sha : str -> str) (hlen : nat), (forall x, length (sha x) = hlen) ->
  forall (l1 l2 : list str) (c1 c2 : str -> str),
    (forall f, In f l1 -> has_newline f = false) ->
    (forall f, In f l2 -> has_newline f = false) ->
    ~ Permutation (map (fun f => (f, c1 f)) l1) (map (fun f => (f, c2 f)) l2) ->
    concat (map (fun f => hex_encode (sha (c1 f)) ++ B "  " ++ f ++ [10]) (sort_strs l1)) <>
    concat (map (fun f => hex_encode (sha (c2 f)) ++ B "  " ++ f ++ [10]) (sort_strs l2))
    \/ exists x y, x <> y /\ sha x = sha y.
Proof. exact distinct_sets_distinct_summaries. Qed.
Print Assumptions C19_distinct_sets_distinct_summaries.

(* The same for the h1: strings themselves: two successful Hash1 calls with the same
   result were given the same multiset of (name, content) pairs, or a collision of sha
   is exhibited (on two contents or on the two summaries). *)
Theorem C19_hash1_injective :
  forall (sha : str -> str) (hlen : nat), (forall x, length (sha x) = hlen) ->
    (forall x, Forall byte (sha x)) ->
  forall (l1 l2 : list str) (o1 o2 : str -> option str) (h : str),
    hash1 sha l1 o1 = Ok h -> hash1 sha l2 o2 = Ok h ->
    Permutation (map (fun f => (f, o1 f)) l1) (map (fun f => (f, o2 f)) l2) \/
    exists x y, x <> y /\ sha x = sha y.
Proof. exact hash1_injective. Qed.
Print Assumptions C19_hash1_injective.

(* the hypotheses on sha hold for the executable SHA-256 *)
Example C19_sha256_meets_hypotheses :
  (forall x, length (sha256 x) = 32%nat) /\ (forall x, Forall byte (sha256 x)).
Proof. split; [exact sha256_length | exact sha256_bytes]. Qed.

(* DirFiles: under a plain prefix (non-empty relative slash path without empty, "." or
   ".." elements) a file at rel is named prefix/rel; under the empty prefix, rel — however
   the directory argument is spelled (".", "./", "sub", "./sub/", absolute), as long as it
   is not the root "/" (where the code drops the first byte of every name, see the
   example below). *)
Theorem C19_dir_files_naming :
  forall (dir : str) (t : tree) (prefix : str),
    clean dir <> [47] ->
    (forall e, In e t -> good_path (fst e)) ->
    (good_path prefix -> dir_files dir t prefix = map (fun e => prefix ++ 47 :: fst e) t) /\
    dir_files dir t [] = map fst t.
Proof. exact dir_files_naming_both. Qed.
Print Assumptions C19_dir_files_naming.

(* Hashing a zip equals hashing the directory it extracts to under the same prefix: if
   the archive's entries are, in any order, exactly the tree's files (distinct plain
   relative paths) with every name prefixed by prefix/ and the same contents — for every
   spelling of the directory argument except "" (HashDir("", prefix) opens "/rel": lemma
   hash_dir_empty_dir_outside) and the root "/". *)
Theorem C19_zip_dir_agree :
  forall (sha : str -> str) (z : zip) (dir : str) (t : tree) (prefix : str),
    dir <> [] -> clean dir <> [47] ->
    good_path prefix ->
    NoDup (map fst t) /\ (forall e, In e t -> good_path (fst e)) ->
    Permutation z (map (fun e => (prefix ++ 47 :: fst e, snd e)) t) ->
    hash_zip sha z = hash_dir sha dir t prefix.
Proof. exact zip_dir_agree. Qed.
Print Assumptions C19_zip_dir_agree.

(* the excluded directory argument: for dir = "/" the faithful model (like the code)
   cuts one byte too many; and "." keeps the leading dot of top-level dot files *)
Example C19_dir_files_root_and_dot :
  dir_files (B "/") [(B "ab", Some [])] (B "p") = [B "p/b"] /\
  dir_files (B "./") [(B ".gitignore", Some []); (B ".github/x", Some [])] (B "p")
    = [B "p/.gitignore"; B "p/.github/x"].
Proof. split; vm_compute; reflexivity. Qed.

(* non-vacuity: a module-like prefix and tree satisfy the hypotheses, and the two hashes
   (with the real SHA-256) are an actual h1: value *)
Example C19_zip_dir_agree_example :
  let prefix := B "m@v1.0.0" in
  let t : tree := [(B "go.mod", Some (B "module m")); (B "a/b  c.go", Some (B "package b"))] in
  let z : zip := [(B "m@v1.0.0/a/b  c.go", Some (B "package b")); (B "m@v1.0.0/go.mod", Some (B "module m"))] in
  good_path prefix /\ tree_wf t /\ Permutation z (map (rename prefix) t) /\
  hash_zip sha256 z = hash_dir sha256 (B ".") t prefix /\
  exists h, hash_zip sha256 z = Ok (B "h1:" ++ h).
Proof.
  cbv zeta.
  assert (G : good_path (B "m@v1.0.0")) by (vm_compute; reflexivity).
  assert (W : tree_wf [(B "go.mod", Some (B "module m")); (B "a/b  c.go", Some (B "package b"))]).
  { split.
    - cbn [map fst]. constructor; [intros [H|[]]; vm_compute in H; discriminate|].
      constructor; [intros [] | constructor].
    - intros e [<-|[<-|[]]]; vm_compute; reflexivity. }
  assert (P : Permutation
                [(B "m@v1.0.0/a/b  c.go", Some (B "package b")); (B "m@v1.0.0/go.mod", Some (B "module m"))]
                (map (rename (B "m@v1.0.0"))
                   [(B "go.mod", Some (B "module m")); (B "a/b  c.go", Some (B "package b"))])).
  { apply perm_swap. }
  split; [exact G|]. split; [exact W|]. split; [exact P|].
  split; [apply zip_dir_agree; [discriminate | vm_compute; discriminate | exact G | exact W | exact P] | eexists; vm_compute; reflexivity].
Qed.
