(* C10 — Hashes read through tiles are authenticated against the tree head.
   Property theorems only; each is closed by [exact] of a lemma proved elsewhere.
   Model: Tlog/Tile.v, Tlog/TileReader.v (tile.go); spec: Tlog/TileSpec.v.
   NodeAt nh R N l o x: a Merkle path (siblings combined with nh) leads from the complete
   aligned subtree (l, o) with hash x to the root R of a tree of size N (TileSpec.node_in);
   tile_ok nh R N t d: every 32-byte entry of tile data d is NodeAt at its coordinate. *)
From Verif.Base Require Import Bytes.
From Verif.Tlog Require Import Index Tree Spec6962 Sha Tile TileReader TileReaderOld TileSpec.
From Verif.Tlog Require Import ProofsTree Sha TileProofs TileProofsSound TileProofsExtract TileProofsComplete TileProofsHonest.
From Verif.Tlog Require Import TileProofsValid TileProofsHonestRun TileProofsInst TileProofsPath6962 TileProofsTrue TileProofsOld.
From Verif.Tlog Require Import ProofsStore TilePathProofsBij NewTilesProofs NewTilesProofsData.

(* Every hash returned and EVERY tile handed to SaveTiles is authenticated (for every hash function). *)
Theorem C10_read_hashes_sound :
  forall (nh : hash -> hash -> hash) N R h ix rt hs ts ds,
    0 <= N <= 2 ^ 62 ->
    tile_read_hashes nh (N, R) h ix rt = (TOk hs, Some (ts, ds)) ->
    Forall2 (fun i x => exists l o, split_stored_hash_index i = Ok (l, o) /\ NodeAt nh R N l o x) ix hs /\
    Forall2 (tile_ok nh R N) ts ds.
Proof. exact read_hashes_sound. Qed.
Print Assumptions C10_read_hashes_sound.

(* Whatever the result, tiles reach SaveTiles only after authentication. *)
Theorem C10_saved_only_authenticated :
  forall (nh : hash -> hash -> hash) N R h ix rt r ts ds,
    0 <= N <= 2 ^ 62 ->
    tile_read_hashes nh (N, R) h ix rt = (r, Some (ts, ds)) ->
    Forall2 (tile_ok nh R N) ts ds.
Proof. exact read_hashes_saved_only_authenticated. Qed.
Print Assumptions C10_saved_only_authenticated.

(* SaveTiles is followed by a successful return: an error or a panic means nothing was saved. *)
Theorem C10_saved_implies_ok :
  forall (nh : hash -> hash -> hash) N R h ix rt r sv,
    1 <= h <= 30 -> 0 <= N <= 2 ^ 62 ->
    tile_read_hashes nh (N, R) h ix rt = (r, Some sv) -> exists hs, r = TOk hs.
Proof. exact read_hashes_saved_implies_ok. Qed.
Print Assumptions C10_saved_implies_ok.

Theorem C10_err_nothing_saved :
  forall (nh : hash -> hash -> hash) N R h ix rt e s,
    1 <= h <= 30 -> 0 <= N <= 2 ^ 62 ->
    tile_read_hashes nh (N, R) h ix rt = (TErr e, s) -> s = None.
Proof. exact read_hashes_err_nothing_saved. Qed.
Print Assumptions C10_err_nothing_saved.

(* non-vacuity of the theorems above and the historical defect (section 7, F1), with the real
   SHA-256: for the 7-record log below and h = 2, index 0, honest tiles give (TOk _, Some _);
   with one flipped bit in tile/2/0/000 the code before the fix accepted, saved and returned the
   wrong hash, the code as it is now answers TEInconsistent and saves nothing. *)
Theorem C10_unfixed_accepts_flipped_tile_sha256 :
  fst (tile_read_hashes node_hash_sha (7, root7) 2 [0] (serve false)) = TOk [leaf7 0] /\
  fst (tile_read_hashes_old node_hash_sha (7, root7) 2 [0] (serve false)) = TOk [leaf7 0] /\
  tile_read_hashes_old node_hash_sha (7, root7) 2 [0] (serve true)
    = (TOk [flip_first (leaf7 0)],
       Some ([t_l1; t_l0b; t_l0a], [h03; leaf7 4 ++ leaf7 5 ++ leaf7 6; flip_first true_l0a])) /\
  flip_first (leaf7 0) <> leaf7 0 /\
  tile_read_hashes node_hash_sha (7, root7) 2 [0] (serve true) = (TErr TEInconsistent, None).
Proof. exact unfixed_accepts_flipped_tile_sha256. Qed.
Print Assumptions C10_unfixed_accepts_flipped_tile_sha256.

(* The soundness statement is false of the code before the fix (loop start len(stx)). *)
Theorem C10_read_hashes_sound_unfixed_refuted :
  ~ (forall (nh : hash -> hash -> hash) N R h ix rt hs ts ds,
       0 <= N <= 2 ^ 62 ->
       tile_read_hashes_old nh (N, R) h ix rt = (TOk hs, Some (ts, ds)) ->
       Forall2 (fun i x => exists l o, split_stored_hash_index i = Ok (l, o) /\ NodeAt nh R N l o x) ix hs /\
       Forall2 (tile_ok nh R N) ts ds).
Proof. exact read_hashes_sound_unfixed_refuted. Qed.
Print Assumptions C10_read_hashes_sound_unfixed_refuted.

(* What NodeAt means: a sibling path exists (the generalisation of runRecordProof) ... *)
Theorem C10_NodeAt_iff_path :
  forall (nh : hash -> hash -> hash) R N l o x,
    0 <= l -> 0 <= o -> N <= 2 ^ 62 ->
    (NodeAt nh R N l o x <-> exists p, run_subtree_proof nh p 0 N l o x = Ok R).
Proof. exact NodeAt_iff_path. Qed.
Print Assumptions C10_NodeAt_iff_path.

(* ... which at level 0 is a RecordProof accepted by CheckRecord ... *)
Theorem C10_nodeat_record_path :
  forall (nh : hash -> hash -> hash) R N id x,
    0 <= id < N -> N <= 2 ^ 62 -> NodeAt nh R N 0 id x ->
    exists p, check_record nh p N R id x = Ok tt.
Proof. exact nodeat_record_path. Qed.
Print Assumptions C10_nodeat_record_path.

(* ... and against the true head of a log with leaf hashes L it pins the hash down, or a collision is explicit. *)
Theorem C10_nodeat_true_or_collision :
  forall (nh : hash -> hash -> hash) (L : list hash) R N l o x,
    R = mth nh L -> zlen L = N -> NodeAt nh R N l o x ->
    x = mth nh (slice L (o * 2 ^ l) (2 ^ l)) \/
    (exists a b c d : hash, (a, b) <> (c, d) /\ nh a b = nh c d).
Proof. exact nodeat_true_or_collision. Qed.
Print Assumptions C10_nodeat_true_or_collision.

Theorem C10_saved_tiles_are_true_tiles :
  forall (nh : hash -> hash -> hash) (L : list hash) N h ix rt r ts ds,
    zlen L = N -> N <= 2 ^ 62 ->
    tile_read_hashes nh (N, mth nh L) h ix rt = (r, Some (ts, ds)) ->
    Forall2 (fun t d => len d = tW t * 32 /\
                        forall i, 0 <= i < tW t ->
                          entry d i = mth nh (slice L ((tN t * 2 ^ tH t + i) * 2 ^ (tH t * tL t)) (2 ^ (tH t * tL t))) \/
                          (exists a b c d : hash, (a, b) <> (c, d) /\ nh a b = nh c d)) ts ds.
Proof. exact saved_tiles_are_true_tiles. Qed.
Print Assumptions C10_saved_tiles_are_true_tiles.

Theorem C10_returned_hashes_are_true :
  forall (nh : hash -> hash -> hash) (L : list hash) N h ix rt hs sv,
    zlen L = N -> N <= 2 ^ 62 ->
    tile_read_hashes nh (N, mth nh L) h ix rt = (TOk hs, Some sv) ->
    Forall2 (fun i x => exists l o, split_stored_hash_index i = Ok (l, o) /\
                                    (x = mth nh (slice L (o * 2 ^ l) (2 ^ l)) \/
                                     (exists a b c d : hash, (a, b) <> (c, d) /\ nh a b = nh c d))) ix hs.
Proof. exact returned_hashes_are_true. Qed.
Print Assumptions C10_returned_hashes_are_true.

(* Planning never fails on valid input: the parent search `for ; ; k++` ends (the model's fuel is
   not exhausted), no "bad math in tileHashReader", no panic. *)
Theorem C10_make_plan_ok :
  forall N h ix,
    1 <= h -> 0 <= N <= 2 ^ 62 -> Forall (fun x => 0 <= x < stored_hash_index 0 N) ix ->
    exists p, make_plan N h ix = TOk p.
Proof. exact make_plan_ok. Qed.
Print Assumptions C10_make_plan_ok.

(* Completeness: with honest tiles the read succeeds and returns exactly the true hashes.  T lo hi is
   any family of 32-byte hashes of the record ranges [lo, hi) obeying the RFC 6962 recursion
   (ProofsTree.T_splits); honest_tile T t lists T of the tW t subtrees tile t stands for. *)
Theorem C10_read_hashes_complete :
  forall (nh : hash -> hash -> hash) (T : Z -> Z -> hash) N,
    T_splits nh T N -> (forall lo hi, length (T lo hi) = 32%nat) -> 0 < N <= 2 ^ 62 ->
    forall h, 1 <= h <= 30 ->
    forall ix, Forall (fun x => 0 <= x < stored_hash_index 0 N) ix ->
    exists sv, tile_read_hashes nh (N, T 0 N) h ix (honest_rt T) = (TOk (map (true_hash T) ix), Some sv).
Proof. exact read_hashes_complete. Qed.
Print Assumptions C10_read_hashes_complete.

(* the hypotheses are met by every real log: records recs, SHA-256, tree head = MTH of the record hashes *)
Theorem C10_read_hashes_complete_sha256 :
  forall (recs : list str) h ix,
    1 <= h <= 30 -> 0 < zlen recs <= 2 ^ 62 ->
    Forall (fun x => 0 <= x < stored_hash_index 0 (zlen recs)) ix ->
    exists sv,
      tile_read_hashes node_hash_sha (zlen recs, mth node_hash_sha (map record_hash recs)) h ix
                       (honest_rt (sha_range recs))
      = (TOk (map (true_hash (sha_range recs)) ix), Some sv).
Proof. exact read_hashes_complete_sha256. Qed.
Print Assumptions C10_read_hashes_complete_sha256.

(* ---------------------------------------------------------------- tile paths *)

(* tile_path_bijection: Tile.Path and ParseTilePath are inverse bijections between the coordinates
   1 <= H <= 30, -1 <= L < 2^63 (L = -1: data tiles), 0 <= N < 2^63, 1 <= W <= 2^H (TileSpec.valid_tile;
   the bounds 2^63 are those of Go's int and of the int64 accumulator of ParseTilePath) and the
   strings ParseTilePath accepts. *)
Theorem C10_tile_path_bijection :
  (forall t,
     1 <= tH t <= 30 /\ -1 <= tL t < 2 ^ 63 /\ 0 <= tN t < 2 ^ 63 /\ 1 <= tW t <= 2 ^ tH t ->
     parse_tile_path (tile_path t) = TOk t) /\
  (forall s t,
     parse_tile_path s = TOk t ->
     tile_path t = s /\
     (1 <= tH t <= 30 /\ -1 <= tL t < 2 ^ 63 /\ 0 <= tN t < 2 ^ 63 /\ 1 <= tW t <= 2 ^ tH t)).
Proof. exact tile_path_bijection. Qed.
Print Assumptions C10_tile_path_bijection.

(* hence: distinct valid tiles have distinct paths, and the accepted strings are exactly the paths of valid tiles *)
Theorem C10_tile_path_inj :
  forall t1 t2, valid_tile t1 -> valid_tile t2 -> tile_path t1 = tile_path t2 -> t1 = t2.
Proof. exact tile_path_inj. Qed.
Print Assumptions C10_tile_path_inj.

Theorem C10_parse_tile_path_accepts :
  forall s, (exists t, parse_tile_path s = TOk t) <-> (exists t, valid_tile t /\ s = tile_path t).
Proof. exact parse_tile_path_accepts. Qed.
Print Assumptions C10_parse_tile_path_accepts.

Example C10_tile_path_example :
  parse_tile_path (B "tile/3/4/x001/x234/067.p/1") = TOk (mkTile 3 4 1234067 1) /\
  tile_path (mkTile 3 4 1234067 8) = B "tile/3/4/x001/x234/067" /\
  parse_tile_path (B "tile/3/data/000") = TOk (mkTile 3 (-1) 0 8) /\
  parse_tile_path (B "tile/3/4/001/x234/067") = TErr TEBadPath.
Proof. vm_compute. repeat split; reflexivity. Qed.

(* ---------------------------------------------------------------- NewTiles *)

(* NewTiles never fails on int64 sizes; its members are: at every level L where the number of
   level-L*h hashes changed (old >> h*L <> new >> h*L), the complete tiles from the old size's last
   tile up to the new size's last complete tile, and the partial tile at the new right edge. *)
Theorem C10_new_tiles_ok :
  forall h old new, 1 <= h -> 0 <= old <= new -> new < 2 ^ 63 -> exists ts, new_tiles h old new = TOk ts.
Proof. exact new_tiles_ok. Qed.
Print Assumptions C10_new_tiles_ok.

Theorem C10_new_tiles_in :
  forall h old new ts t, 1 <= h -> 0 <= old <= new -> new_tiles h old new = TOk ts ->
    (In t ts <->
     tH t = h /\ 0 <= tL t /\
     old / 2 ^ (h * tL t) <> new / 2 ^ (h * tL t) /\
     ((tW t = 2 ^ h /\ old / 2 ^ (h * tL t) / 2 ^ h <= tN t < new / 2 ^ (h * tL t) / 2 ^ h) \/
      (tN t = new / 2 ^ (h * tL t) / 2 ^ h /\ tW t = (new / 2 ^ (h * tL t)) mod 2 ^ h /\ 0 < tW t))).
Proof. exact new_tiles_in. Qed.
Print Assumptions C10_new_tiles_in.

(* The tiles of height h of the tree of size N (NewTilesProofs.tree_tile h N t): at level L, with
   c = N >> h*L hashes, the complete tiles n < c >> h and, if c is not a multiple of 2^h, the
   partial tile (L, c >> h, c mod 2^h).  A reader of size N asks for no other tile: *)
Theorem C10_make_plan_tiles_in_tree :
  forall N h ix p, 1 <= h -> 0 <= N <= 2 ^ 62 -> make_plan N h ix = TOk p ->
    Forall (fun t =>
              tH t = h /\ 0 <= tL t /\ 0 <= tN t /\ 1 <= tW t <= 2 ^ h /\
              tN t * 2 ^ h + tW t <= N / 2 ^ (h * tL t) /\
              (tW t = 2 ^ h \/ tN t * 2 ^ h + tW t = N / 2 ^ (h * tL t))) (p_tiles p).
Proof. exact make_plan_tiles_in_tree. Qed.
Print Assumptions C10_make_plan_tiles_in_tree.

(* new_tiles_sufficient.  For every growth history ns = [0 = n_0 <= n_1 <= ...] (int64 sizes) and
   EVERY size n_j of it (each one is signed and may be seen by a reader, not only the last), every
   tile of the tree of size n_j is an element of NewTiles(h, n_i, n_(i+1)) for a step i < j: it was
   published at or before the step that signed n_j.  (For sizes the publisher never stepped
   through nothing of the kind holds: the partial right-edge tiles of such a tree are never
   published.  Readers only see signed sizes, so this is the statement the protocol needs.) *)
Theorem C10_new_tiles_sufficient :
  forall h ns, 1 <= h ->
    (nth_error ns 0 = Some 0 /\
     (forall i a b, nth_error ns i = Some a -> nth_error ns (S i) = Some b -> a <= b) /\
     Forall (fun n => n < 2 ^ 63) ns) ->
    forall j nj t, nth_error ns j = Some nj ->
      (tH t = h /\ 0 <= tL t /\ 0 <= tN t /\ 1 <= tW t <= 2 ^ h /\
       tN t * 2 ^ h + tW t <= nj / 2 ^ (h * tL t) /\
       (tW t = 2 ^ h \/ tN t * 2 ^ h + tW t = nj / 2 ^ (h * tL t))) ->
      exists i a b ts, (i < j)%nat /\ nth_error ns i = Some a /\ nth_error ns (S i) = Some b /\
                       new_tiles h a b = TOk ts /\ In t ts.
Proof. exact new_tiles_sufficient. Qed.
Print Assumptions C10_new_tiles_sufficient.

(* ... and nothing else is published: a member of NewTiles(h, n_i, n_(i+1)) is a tile of the tree of size n_(i+1) *)
Theorem C10_published_tiles_are_tree_tiles :
  forall h ns j t, 1 <= h -> growth ns -> published h ns j t ->
    exists i b, (i < j)%nat /\ nth_error ns (S i) = Some b /\ tree_tile h b t.
Proof. exact published_tiles_are_tree_tiles. Qed.
Print Assumptions C10_published_tiles_are_tree_tiles.

(* ReadTileData of a tile of the tree, over a store that holds the true hashes (store_holds T N st:
   position StoredHashIndex(l, o) holds T (o*2^l) ((o+1)*2^l) for every complete subtree of the tree
   of size N), is the honest tile content; in particular over the store built by appending the
   records with StoredHashes. *)
Theorem C10_read_tile_data_honest :
  forall (T : Z -> Z -> hash) N st h t,
    1 <= h -> 0 <= N -> store_holds T N st -> tree_tile h N t ->
    read_tile_data t (reader_of st) = TOk (honest_tile T t).
Proof. exact read_tile_data_honest. Qed.
Print Assumptions C10_read_tile_data_honest.

Theorem C10_read_tile_data_store_of :
  forall (lh : str -> hash) (nh : hash -> hash -> hash) h recs t,
    1 <= h -> zlen recs < 2 ^ 62 -> tree_tile h (zlen recs) t ->
    read_tile_data t (reader_of (store_of lh nh recs)) = TOk (honest_tile (range_hash lh nh recs) t).
Proof. exact read_tile_data_store_of. Qed.
Print Assumptions C10_read_tile_data_store_of.

(* Composition with read_hashes_complete.  serve_tiles pub is the TileReader of a server holding the
   (tile, content) pairs pub (an error when a requested tile is missing).  If it holds every tile
   published up to step j, each with honest content, every reader of the size n_j succeeds. *)
Theorem C10_served_readers_succeed :
  forall (nh : hash -> hash -> hash) (T : Z -> Z -> hash),
    (forall lo hi, length (T lo hi) = 32%nat) ->
    forall h ns j nj pub ix,
      1 <= h <= 30 -> growth ns -> nth_error ns j = Some nj -> 0 < nj <= 2 ^ 62 ->
      T_splits nh T nj ->
      (forall t, published h ns j t -> exists d, In (t, d) pub) ->
      (forall t d, In (t, d) pub -> d = honest_tile T t) ->
      Forall (fun x => 0 <= x < stored_hash_index 0 nj) ix ->
      exists sv, tile_read_hashes nh (nj, T 0 nj) h ix (serve_tiles pub) = (TOk (map (true_hash T) ix), Some sv).
Proof. exact served_readers_succeed. Qed.
Print Assumptions C10_served_readers_succeed.

(* End to end, SHA-256: records recs, sizes ns signed one after the other.  publish_all … (firstn m ns)
   is what a publisher has put out after m - 1 steps when at every step it publishes exactly
   NewTiles(h, n_i, n_(i+1)), each with the bytes ReadTileData reads from its store of the first
   n_(i+1) records.  Every reader of every size n_j signed so far (j < m) gets the true hashes. *)
Theorem C10_publisher_lets_readers_succeed_sha256 :
  forall h recs ns (m j : nat) nj ix,
    1 <= h <= 30 -> zlen recs < 2 ^ 62 ->
    (nth_error ns 0 = Some 0 /\
     (forall i a b, nth_error ns i = Some a -> nth_error ns (S i) = Some b -> a <= b) /\
     Forall (fun n => n < 2 ^ 63) ns) ->
    Forall (fun n => n <= zlen recs) ns ->
    (j < m)%nat -> nth_error ns j = Some nj -> 0 < nj ->
    Forall (fun x => 0 <= x < stored_hash_index 0 nj) ix ->
    exists sv,
      tile_read_hashes node_hash_sha (nj, mth node_hash_sha (map record_hash (firstn (Z.to_nat nj) recs))) h ix
                       (serve_tiles (publish_all record_hash node_hash_sha h recs (firstn m ns)))
      = (TOk (map (true_hash (sha_range recs)) ix), Some sv).
Proof. exact publisher_lets_readers_succeed_sha256. Qed.
Print Assumptions C10_publisher_lets_readers_succeed_sha256.

(* the hypotheses are satisfiable and the notions are not empty: the history 0, 5, 7 at height 2.
   tile/2/0/001.p/1 is published at the first step (a tile of the tree of size 5 only), it is
   replaced by tile/2/0/001.p/3 at the second. *)
Example C10_new_tiles_example :
  growth [0; 5; 7] /\
  new_tiles 2 0 5 = TOk [mkTile 2 0 0 4; mkTile 2 0 1 1; mkTile 2 1 0 1] /\
  new_tiles 2 5 7 = TOk [mkTile 2 0 1 3] /\
  tree_tile 2 7 (mkTile 2 0 1 3) /\ tree_tile 2 5 (mkTile 2 0 1 1) /\ ~ tree_tile 2 7 (mkTile 2 0 1 1).
Proof.
  split; [|split; [reflexivity|split; [reflexivity|]]].
  - split; [reflexivity|]. split.
    + intros [|[|[|i]]] a b Ha Hb; cbn in Ha, Hb; try discriminate;
        injection Ha as <-; injection Hb as <-; lia.
    + repeat constructor.
  - unfold tree_tile; cbn. repeat split; lia.
Qed.

(* Every tile ReadHashes plans (asks the TileReader for, and later saves) has valid coordinates. *)
Theorem C10_planned_tiles_valid :
  forall N h ix p t,
    1 <= h <= 30 -> 0 <= N <= 2 ^ 62 -> make_plan N h ix = TOk p -> In t (p_tiles p) ->
    (tH t = h /\ 0 <= tL t <= 62 /\ 0 <= tN t < 2 ^ 62 /\ 1 <= tW t <= 2 ^ h) /\
    valid_tile t /\ valid_tile (mkTile (tH t) (tL t) (tN t) (2 ^ h)).
Proof. exact make_plan_tiles_valid. Qed.
Print Assumptions C10_planned_tiles_valid.
