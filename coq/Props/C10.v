(* C10 — Hashes read through tiles are authenticated against the tree head.
   Property theorems only; each is closed by [exact] of a lemma proved elsewhere. *)
From Verif.Base Require Import Bytes.
From Verif.Tlog Require Import Index Tree Tile TileReader TileProofs.

Theorem C10_tile_eqb_eq : forall a b, tile_eqb a b = true <-> a = b.
Proof. exact tile_eqb_eq. Qed.
Print Assumptions C10_tile_eqb_eq.
