(* C10 — Hashes read through tiles are authenticated against the tree head.
   Property theorems only; each is closed by [exact] of a lemma proved elsewhere.
   Model: Tlog/Tile.v, Tlog/TileReader.v (tile.go); spec: Tlog/TileSpec.v.
   NodeAt nh R N l o x: a Merkle path (siblings combined with nh) leads from the complete
   aligned subtree (l, o) with hash x to the root R of a tree of size N (TileSpec.node_in);
   tile_ok nh R N t d: every 32-byte entry of tile data d is NodeAt at its coordinate. *)
From Verif.Base Require Import Bytes.
From Verif.Tlog Require Import Index Tree Spec6962 Sha Tile TileReader TileReaderOld TileSpec.
From Verif.Tlog Require Import ProofsTree Sha TileProofs TileProofsSound TileProofsExtract TileProofsComplete TileProofsHonest.
From Verif.Tlog Require Import TileProofsHonestRun TileProofsInst TileProofsPath6962 TileProofsTrue TileProofsOld.

(* Every hash returned and EVERY tile handed to SaveTiles is authenticated (for every hash function). *)
Theorem C10_read_hashes_sound :
  forall (nh : hash -> hash -> hash) N R h ix rt hs ts ds,
    0 <= N <= 2 ^ 62 ->
    tile_read_hashes nh (N, R) h ix rt = (TOk hs, Some (ts, ds)) ->
    Forall2 (fun i x => exists l o, split_stored_hash_index i = Ok (l, o) /\ NodeAt nh R N l o x) ix hs /\
    Forall2 (tile_ok nh R N) ts ds.
Proof. exact read_hashes_sound. Qed.
Print Assumptions C10_read_hashes_sound.

(* Whatever the result, tiles reach SaveTiles only after authentication. *)
Theorem C10_saved_only_authenticated :
  forall (nh : hash -> hash -> hash) N R h ix rt r ts ds,
    0 <= N <= 2 ^ 62 ->
    tile_read_hashes nh (N, R) h ix rt = (r, Some (ts, ds)) ->
    Forall2 (tile_ok nh R N) ts ds.
Proof. exact read_hashes_saved_only_authenticated. Qed.
Print Assumptions C10_saved_only_authenticated.

(* SaveTiles is followed by a successful return: an error or a panic means nothing was saved. *)
Theorem C10_saved_implies_ok :
  forall (nh : hash -> hash -> hash) N R h ix rt r sv,
    1 <= h <= 30 -> 0 <= N <= 2 ^ 62 ->
    tile_read_hashes nh (N, R) h ix rt = (r, Some sv) -> exists hs, r = TOk hs.
Proof. exact read_hashes_saved_implies_ok. Qed.
Print Assumptions C10_saved_implies_ok.

Theorem C10_err_nothing_saved :
  forall (nh : hash -> hash -> hash) N R h ix rt e s,
    1 <= h <= 30 -> 0 <= N <= 2 ^ 62 ->
    tile_read_hashes nh (N, R) h ix rt = (TErr e, s) -> s = None.
Proof. exact read_hashes_err_nothing_saved. Qed.
Print Assumptions C10_err_nothing_saved.

(* non-vacuity of the theorems above and the historical defect (section 7, F1), with the real
   SHA-256: for the 7-record log below and h = 2, index 0, honest tiles give (TOk _, Some _);
   with one flipped bit in tile/2/0/000 the code before the fix accepted, saved and returned the
   wrong hash, the code as it is now answers TEInconsistent and saves nothing. *)
Theorem C10_unfixed_accepts_flipped_tile_sha256 :
  fst (tile_read_hashes node_hash_sha (7, root7) 2 [0] (serve false)) = TOk [leaf7 0] /\
  fst (tile_read_hashes_old node_hash_sha (7, root7) 2 [0] (serve false)) = TOk [leaf7 0] /\
  tile_read_hashes_old node_hash_sha (7, root7) 2 [0] (serve true)
    = (TOk [flip_first (leaf7 0)],
       Some ([t_l1; t_l0b; t_l0a], [h03; leaf7 4 ++ leaf7 5 ++ leaf7 6; flip_first true_l0a])) /\
  flip_first (leaf7 0) <> leaf7 0 /\
  tile_read_hashes node_hash_sha (7, root7) 2 [0] (serve true) = (TErr TEInconsistent, None).
Proof. exact unfixed_accepts_flipped_tile_sha256. Qed.
Print Assumptions C10_unfixed_accepts_flipped_tile_sha256.

(* The soundness statement is false of the code before the fix (loop start len(stx)). *)
Theorem C10_read_hashes_sound_unfixed_refuted :
  ~ (forall (nh : hash -> hash -> hash) N R h ix rt hs ts ds,
       0 <= N <= 2 ^ 62 ->
       tile_read_hashes_old nh (N, R) h ix rt = (TOk hs, Some (ts, ds)) ->
       Forall2 (fun i x => exists l o, split_stored_hash_index i = Ok (l, o) /\ NodeAt nh R N l o x) ix hs /\
       Forall2 (tile_ok nh R N) ts ds).
Proof. exact read_hashes_sound_unfixed_refuted. Qed.
Print Assumptions C10_read_hashes_sound_unfixed_refuted.

(* What NodeAt means: a sibling path exists (the generalisation of runRecordProof) ... *)
Theorem C10_NodeAt_iff_path :
  forall (nh : hash -> hash -> hash) R N l o x,
    0 <= l -> 0 <= o -> N <= 2 ^ 62 ->
    (NodeAt nh R N l o x <-> exists p, run_subtree_proof nh p 0 N l o x = Ok R).
Proof. exact NodeAt_iff_path. Qed.
Print Assumptions C10_NodeAt_iff_path.

(* ... which at level 0 is a RecordProof accepted by CheckRecord ... *)
Theorem C10_nodeat_record_path :
  forall (nh : hash -> hash -> hash) R N id x,
    0 <= id < N -> N <= 2 ^ 62 -> NodeAt nh R N 0 id x ->
    exists p, check_record nh p N R id x = Ok tt.
Proof. exact nodeat_record_path. Qed.
Print Assumptions C10_nodeat_record_path.

(* ... and against the true head of a log with leaf hashes L it pins the hash down, or a collision is explicit. *)
Theorem C10_nodeat_true_or_collision :
  forall (nh : hash -> hash -> hash) (L : list hash) R N l o x,
    R = mth nh L -> zlen L = N -> NodeAt nh R N l o x ->
    x = mth nh (slice L (o * 2 ^ l) (2 ^ l)) \/
    (exists a b c d : hash, (a, b) <> (c, d) /\ nh a b = nh c d).
Proof. exact nodeat_true_or_collision. Qed.
Print Assumptions C10_nodeat_true_or_collision.

Theorem C10_saved_tiles_are_true_tiles :
  forall (nh : hash -> hash -> hash) (L : list hash) N h ix rt r ts ds,
    zlen L = N -> N <= 2 ^ 62 ->
    tile_read_hashes nh (N, mth nh L) h ix rt = (r, Some (ts, ds)) ->
    Forall2 (fun t d => len d = tW t * 32 /\
                        forall i, 0 <= i < tW t ->
                          entry d i = mth nh (slice L ((tN t * 2 ^ tH t + i) * 2 ^ (tH t * tL t)) (2 ^ (tH t * tL t))) \/
                          (exists a b c d : hash, (a, b) <> (c, d) /\ nh a b = nh c d)) ts ds.
Proof. exact saved_tiles_are_true_tiles. Qed.
Print Assumptions C10_saved_tiles_are_true_tiles.

Theorem C10_returned_hashes_are_true :
  forall (nh : hash -> hash -> hash) (L : list hash) N h ix rt hs sv,
    zlen L = N -> N <= 2 ^ 62 ->
    tile_read_hashes nh (N, mth nh L) h ix rt = (TOk hs, Some sv) ->
    Forall2 (fun i x => exists l o, split_stored_hash_index i = Ok (l, o) /\
                                    (x = mth nh (slice L (o * 2 ^ l) (2 ^ l)) \/
                                     (exists a b c d : hash, (a, b) <> (c, d) /\ nh a b = nh c d))) ix hs.
Proof. exact returned_hashes_are_true. Qed.
Print Assumptions C10_returned_hashes_are_true.

(* Planning never fails on valid input: the parent search `for ; ; k++` ends (the model's fuel is
   not exhausted), no "bad math in tileHashReader", no panic. *)
Theorem C10_make_plan_ok :
  forall N h ix,
    1 <= h -> 0 <= N <= 2 ^ 62 -> Forall (fun x => 0 <= x < stored_hash_index 0 N) ix ->
    exists p, make_plan N h ix = TOk p.
Proof. exact make_plan_ok. Qed.
Print Assumptions C10_make_plan_ok.

(* Completeness: with honest tiles the read succeeds and returns exactly the true hashes.  T lo hi is
   any family of 32-byte hashes of the record ranges [lo, hi) obeying the RFC 6962 recursion
   (ProofsTree.T_splits); honest_tile T t lists T of the tW t subtrees tile t stands for. *)
Theorem C10_read_hashes_complete :
  forall (nh : hash -> hash -> hash) (T : Z -> Z -> hash) N,
    T_splits nh T N -> (forall lo hi, length (T lo hi) = 32%nat) -> 0 < N <= 2 ^ 62 ->
    forall h, 1 <= h <= 30 ->
    forall ix, Forall (fun x => 0 <= x < stored_hash_index 0 N) ix ->
    exists sv, tile_read_hashes nh (N, T 0 N) h ix (honest_rt T) = (TOk (map (true_hash T) ix), Some sv).
Proof. exact read_hashes_complete. Qed.
Print Assumptions C10_read_hashes_complete.

(* the hypotheses are met by every real log: records recs, SHA-256, tree head = MTH of the record hashes *)
Theorem C10_read_hashes_complete_sha256 :
  forall (recs : list str) h ix,
    1 <= h <= 30 -> 0 < zlen recs <= 2 ^ 62 ->
    Forall (fun x => 0 <= x < stored_hash_index 0 (zlen recs)) ix ->
    exists sv,
      tile_read_hashes node_hash_sha (zlen recs, mth node_hash_sha (map record_hash recs)) h ix
                       (honest_rt (sha_range recs))
      = (TOk (map (true_hash (sha_range recs)) ix), Some sv).
Proof. exact read_hashes_complete_sha256. Qed.
Print Assumptions C10_read_hashes_complete_sha256.

(* NOT PROVED (validated by the correspondence run and the Go oracles only):
   new_tiles_sufficient — for every growth history 0 = n0 <= ... <= nk = N, every tile planned by
     make_plan N h ix is in new_tiles h n_i n_(i+1) for some i, and read_tile_data of it over
     store_of recs is honest_tile (oracle "newtiles-sufficient": a publisher publishing exactly
     NewTiles over random growth histories, a reader at every size; oracle "read-tile-data-true").
   tile_path_bijection — valid_tile t -> parse_tile_path (tile_path t) = TOk t, and
     parse_tile_path s = TOk t -> tile_path t = s /\ valid_tile t.  Proved below: the second
     half's first conjunct (a parsed path is canonical).  The rest is validated by an independent
     regular-expression grammar and round trips on ~27000 path strings per run. *)

Theorem C10_tile_path_bijection_partial :
  forall s t, parse_tile_path s = TOk t ->
    tile_path t = s /\
    1 <= tH t <= 30 /\ -1 <= tL t /\ 1 <= tW t <= 2 ^ tH t /\ - 2 ^ 63 <= tN t < 2 ^ 63.
Proof. intros s t H. split; [exact (parse_tile_path_canonical s t H)|exact (parse_tile_path_shape s t H)]. Qed.
Print Assumptions C10_tile_path_bijection_partial.

(* the partial theorem is not vacuous: the example of the tlog documentation *)
Example C10_tile_path_example :
  parse_tile_path (B "tile/3/4/x001/x234/067.p/1") = TOk (mkTile 3 4 1234067 1) /\
  tile_path (mkTile 3 4 1234067 8) = B "tile/3/4/x001/x234/067" /\
  parse_tile_path (B "tile/3/data/000") = TOk (mkTile 3 (-1) 0 8) /\
  parse_tile_path (B "tile/3/4/001/x234/067") = TErr TEBadPath.
Proof. vm_compute. repeat split; reflexivity. Qed.
