(* C10 — Hashes read through tiles are authenticated against the tree head.
   Property theorems only; each is closed by [exact] of a lemma proved elsewhere.
   Model: Tlog/Tile.v, Tlog/TileReader.v (tile.go); spec: Tlog/TileSpec.v.
   NodeAt nh R N l o x: a Merkle path (siblings combined with nh) leads from the complete
   aligned subtree (l, o) with hash x to the root R of a tree of size N (TileSpec.node_in);
   tile_ok nh R N t d: every 32-byte entry of tile data d is NodeAt at its coordinate. *)
From Verif.Base Require Import Bytes.
From Verif.Tlog Require Import Index Tree Spec6962 Sha Tile TileReader TileReaderOld TileSpec.
From Verif.Tlog Require Import TileProofsSound TileProofsPath6962 TileProofsTrue TileProofsOld.

(* Every hash returned and EVERY tile handed to SaveTiles is authenticated (for every hash function). *)
Theorem C10_read_hashes_sound :
  forall (nh : hash -> hash -> hash) N R h ix rt hs ts ds,
    0 <= N <= 2 ^ 62 ->
    tile_read_hashes nh (N, R) h ix rt = (TOk hs, Some (ts, ds)) ->
    Forall2 (fun i x => exists l o, split_stored_hash_index i = Ok (l, o) /\ NodeAt nh R N l o x) ix hs /\
    Forall2 (tile_ok nh R N) ts ds.
Proof. exact read_hashes_sound. Qed.
Print Assumptions C10_read_hashes_sound.

(* Whatever the result, tiles reach SaveTiles only after authentication. *)
Theorem C10_saved_only_authenticated :
  forall (nh : hash -> hash -> hash) N R h ix rt r ts ds,
    0 <= N <= 2 ^ 62 ->
    tile_read_hashes nh (N, R) h ix rt = (r, Some (ts, ds)) ->
    Forall2 (tile_ok nh R N) ts ds.
Proof. exact read_hashes_saved_only_authenticated. Qed.
Print Assumptions C10_saved_only_authenticated.

(* non-vacuity of the two theorems above and the historical defect (section 7, F1), with the real
   SHA-256: for the 7-record log below and h = 2, index 0, honest tiles give (TOk _, Some _);
   with one flipped bit in tile/2/0/000 the code before the fix accepted, saved and returned the
   wrong hash, the code as it is now answers TEInconsistent and saves nothing. *)
Theorem C10_unfixed_accepts_flipped_tile_sha256 :
  fst (tile_read_hashes node_hash_sha (7, root7) 2 [0] (serve false)) = TOk [leaf7 0] /\
  fst (tile_read_hashes_old node_hash_sha (7, root7) 2 [0] (serve false)) = TOk [leaf7 0] /\
  tile_read_hashes_old node_hash_sha (7, root7) 2 [0] (serve true)
    = (TOk [flip_first (leaf7 0)],
       Some ([t_l1; t_l0b; t_l0a], [h03; leaf7 4 ++ leaf7 5 ++ leaf7 6; flip_first true_l0a])) /\
  flip_first (leaf7 0) <> leaf7 0 /\
  tile_read_hashes node_hash_sha (7, root7) 2 [0] (serve true) = (TErr TEInconsistent, None).
Proof. exact unfixed_accepts_flipped_tile_sha256. Qed.
Print Assumptions C10_unfixed_accepts_flipped_tile_sha256.

(* The soundness statement is false of the code before the fix (loop start len(stx)). *)
Theorem C10_read_hashes_sound_unfixed_refuted :
  ~ (forall (nh : hash -> hash -> hash) N R h ix rt hs ts ds,
       0 <= N <= 2 ^ 62 ->
       tile_read_hashes_old nh (N, R) h ix rt = (TOk hs, Some (ts, ds)) ->
       Forall2 (fun i x => exists l o, split_stored_hash_index i = Ok (l, o) /\ NodeAt nh R N l o x) ix hs /\
       Forall2 (tile_ok nh R N) ts ds).
Proof. exact read_hashes_sound_unfixed_refuted. Qed.
Print Assumptions C10_read_hashes_sound_unfixed_refuted.

(* What NodeAt means: a sibling path exists (the generalisation of runRecordProof) ... *)
Theorem C10_NodeAt_iff_path :
  forall (nh : hash -> hash -> hash) R N l o x,
    0 <= l -> 0 <= o -> N <= 2 ^ 62 ->
    (NodeAt nh R N l o x <-> exists p, run_subtree_proof nh p 0 N l o x = Ok R).
Proof. exact NodeAt_iff_path. Qed.
Print Assumptions C10_NodeAt_iff_path.

(* ... which at level 0 is a RecordProof accepted by CheckRecord ... *)
Theorem C10_nodeat_record_path :
  forall (nh : hash -> hash -> hash) R N id x,
    0 <= id < N -> N <= 2 ^ 62 -> NodeAt nh R N 0 id x ->
    exists p, check_record nh p N R id x = Ok tt.
Proof. exact nodeat_record_path. Qed.
Print Assumptions C10_nodeat_record_path.

(* ... and against the true head of a log with leaf hashes L it pins the hash down, or a collision is explicit. *)
Theorem C10_nodeat_true_or_collision :
  forall (nh : hash -> hash -> hash) (L : list hash) R N l o x,
    R = mth nh L -> zlen L = N -> NodeAt nh R N l o x ->
    x = mth nh (slice L (o * 2 ^ l) (2 ^ l)) \/
    (exists a b c d : hash, (a, b) <> (c, d) /\ nh a b = nh c d).
Proof. exact nodeat_true_or_collision. Qed.
Print Assumptions C10_nodeat_true_or_collision.

Theorem C10_saved_tiles_are_true_tiles :
  forall (nh : hash -> hash -> hash) (L : list hash) N h ix rt r ts ds,
    zlen L = N -> N <= 2 ^ 62 ->
    tile_read_hashes nh (N, mth nh L) h ix rt = (r, Some (ts, ds)) ->
    Forall2 (fun t d => len d = tW t * 32 /\
                        forall i, 0 <= i < tW t ->
                          entry d i = mth nh (slice L ((tN t * 2 ^ tH t + i) * 2 ^ (tH t * tL t)) (2 ^ (tH t * tL t))) \/
                          (exists a b c d : hash, (a, b) <> (c, d) /\ nh a b = nh c d)) ts ds.
Proof. exact saved_tiles_are_true_tiles. Qed.
Print Assumptions C10_saved_tiles_are_true_tiles.

Theorem C10_returned_hashes_are_true :
  forall (nh : hash -> hash -> hash) (L : list hash) N h ix rt hs sv,
    zlen L = N -> N <= 2 ^ 62 ->
    tile_read_hashes nh (N, mth nh L) h ix rt = (TOk hs, Some sv) ->
    Forall2 (fun i x => exists l o, split_stored_hash_index i = Ok (l, o) /\
                                    (x = mth nh (slice L (o * 2 ^ l) (2 ^ l)) \/
                                     (exists a b c d : hash, (a, b) <> (c, d) /\ nh a b = nh c d))) ix hs.
Proof. exact returned_hashes_are_true. Qed.
Print Assumptions C10_returned_hashes_are_true.
