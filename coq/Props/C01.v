(* C01 — the checksum-database client never returns or caches unauthenticated data.
   Property theorems only; each is closed by [exact] of a lemma proved elsewhere. *)
From Verif.Base Require Import Bytes.
From Verif.Tlog Require Import Index Tree Codec Tile TileReader.
From Verif.Note Require Import Note.
From Verif.Client Require Import Seq SeqProofs.

Theorem C01_lookup_memo_no_ops :
  forall sha leaf_hash node_hash V esc_path esc_vers skip w c path vers epath evers r,
  skip path = false ->
  c_init c = Some None ->
  esc_path path = Some epath ->
  esc_vers (trim_suffix vers go_mod_suffix) = Some evers ->
  rec_find (c_name c ++ B "/lookup/" ++ epath ++ [64] ++ evers) (c_records c) = Some r ->
  exists res, lookup sha leaf_hash node_hash V esc_path esc_vers skip w c path vers = (res, [], w, c) /\
              res = match r with RErr e => LErr e | ROk d => LOk (result_lines path vers d) end.
Proof. exact lookup_memo_no_ops. Qed.
Print Assumptions C01_lookup_memo_no_ops.
