(* C01 — the checksum-database client never returns or caches unauthenticated data.
   Property theorems only; each is closed by [exact] of a lemma proved elsewhere
   (Client/SeqProofs*.v).  The model is Client/Seq.v: a sequential step machine for
   sumdb.Client over an adversarial world (remote answers, cache and configuration are
   arbitrary).  C10 enters through Tlog/TileSpec.v (NodeAt R N l o x: a Merkle path leads from
   the hash x of the complete subtree (l, o) to the root R of the tree of size N; tile_ok) and
   Tlog/TileProofsSound.v.

   Vocabulary (definitions in Client/SeqProofsSafe.v, all relative to the configured verifiers
   vs and server name):
     signed_tree V vs msg t   msg opens under vs (note.Open, model Note/Note.v, signature oracle V)
                              to a text that ParseTree maps to t
     node_auth NodeAt R N i x the stored-hash index i splits to (l, o) and NodeAt R N l o x
     auth_record .. d         d parses (ParseRecord) to (id, text, rest) and leaf_hash text is
                              node_auth at index StoredHashIndex(0, id) of a signed, non-empty tree
     ClientInv .. c           fresh client | dead client (memoised init error) | initialised client
                              whose latest head is the empty timeline or a signed tree and whose
                              memoised lookups are auth_record
     key_ok sha vs name w     vs/name are what note.NewVerifier makes of the world's "key" file
   Standing premise of every theorem: signed_small, the domain guard "a tree that opens under the
   configured key has fewer than 2^62 records" (the tlog/tile models mirror int64 only there). *)
From Verif.Base Require Import Bytes.
From Verif.Tlog Require Import Index Tree Codec Tile TileReader TileSpec.
From Verif.Note Require Import Note.
From Verif.Base Require Import Wire.
From Verif.Client Require Import Seq SeqProofs SeqProofsTile SeqProofsSafe SeqProofsTop SeqProofsInst.
From Verif.Client Require DispatchClient.
From Verif.Client Require Import SeqProofsHonest.
From Verif.Tlog Require ProofsTree ProofsStore Spec6962 Sha TileProofsInst.
From Verif.Module Require Escape.
From Verif.Client Require Server ServerProofs ServerProofsLookup ServerProofsWorld.
From Verif.Props Require B01.

(* lookup_safe: an Ok result is exactly the go.sum lines (prefix filter over the lines of the
   response) of a response whose record hash is authenticated, at the stored-hash index of its id,
   by a Merkle path (NodeAt) to the root of a tree signed under the configured key. *)
Theorem C01_lookup_safe :
  forall sha leaf_hash node_hash V esc_path esc_vers skip vs name,
  (forall msg t, signed_tree V vs msg t -> Codec.tN t < 2 ^ 62) ->
  forall w c path vers lines evs w' c',
  ClientInv leaf_hash V (NodeAt node_hash) vs name c ->
  (c_init c = None -> key_ok sha vs name w) ->
  lookup sha leaf_hash node_hash V esc_path esc_vers skip w c path vers = (LOk lines, evs, w', c') ->
  exists data id text rest tmsg t,
    lines = result_lines path vers data /\
    parse_record data = Index.Ok (id, text, rest) /\
    signed_tree V vs tmsg t /\ 0 <= id < Codec.tN t /\
    node_auth (NodeAt node_hash) (Codec.tH t) (Codec.tN t) (stored_hash_index 0 id) (leaf_hash text).
Proof. exact lookup_safe_c10. Qed.
Print Assumptions C01_lookup_safe.

(* the same with the verified Merkle path as an explicit RecordProof accepted by CheckRecord
   (through C10's nodeat_record_path). *)
Theorem C01_lookup_safe_merkle_path :
  forall sha leaf_hash node_hash V esc_path esc_vers skip vs name,
  (forall msg t, signed_tree V vs msg t -> Codec.tN t < 2 ^ 62) ->
  forall w c path vers lines evs w' c',
  ClientInv leaf_hash V (NodeAt node_hash) vs name c ->
  (c_init c = None -> key_ok sha vs name w) ->
  lookup sha leaf_hash node_hash V esc_path esc_vers skip w c path vers = (LOk lines, evs, w', c') ->
  exists data id text rest tmsg t p,
    lines = result_lines path vers data /\
    parse_record data = Index.Ok (id, text, rest) /\
    signed_tree V vs tmsg t /\ 0 <= id < Codec.tN t /\
    check_record node_hash p (Codec.tN t) (Codec.tH t) id (leaf_hash text) = Index.Ok tt.
Proof. exact lookup_safe_path_c10. Qed.
Print Assumptions C01_lookup_safe_merkle_path.

(* writes_authenticated, along any history of lookups by any number of clients sharing the world:
   every WriteCache is a tile that is tile_ok w.r.t. the root of a signed tree, or a lookup file
   holding an authenticated record. *)
Theorem C01_writes_authenticated :
  forall sha leaf_hash node_hash V esc_path esc_vers skip vs name,
  (forall msg t, signed_tree V vs msg t -> Codec.tN t < 2 ^ 62) ->
  forall steps w cs rs evs w' cs' f d,
  (forall i, ClientInv leaf_hash V (NodeAt node_hash) vs name (cs i)) -> key_ok sha vs name w ->
  run sha leaf_hash node_hash V esc_path esc_vers skip steps w cs = (rs, evs, w', cs') ->
  In (EvWriteCache f d) evs ->
  (exists t tmsg tr, f = tile_cache_key name t /\ signed_tree V vs tmsg tr /\
                     tile_ok node_hash (Codec.tH tr) (Codec.tN tr) t d) \/
  ((exists ep ev, f = name ++ B "/lookup/" ++ ep ++ [64] ++ ev) /\
   auth_record leaf_hash V (NodeAt node_hash) vs d).
Proof. exact writes_authenticated_c10. Qed.
Print Assumptions C01_writes_authenticated.

(* ... every WriteConfig writes a signed tree (and more: see C13), every event is safe, and
   ClientInv is preserved for every client *)
Theorem C01_history_safe :
  forall sha leaf_hash node_hash V esc_path esc_vers skip vs name,
  (forall msg t, signed_tree V vs msg t -> Codec.tN t < 2 ^ 62) ->
  forall steps w cs rs evs w' cs',
  (forall i, ClientInv leaf_hash V (NodeAt node_hash) vs name (cs i)) -> key_ok sha vs name w ->
  run sha leaf_hash node_hash V esc_path esc_vers skip steps w cs = (rs, evs, w', cs') ->
  (forall i, ClientInv leaf_hash V (NodeAt node_hash) vs name (cs' i)) /\ key_ok sha vs name w' /\
  Forall (ev_safe leaf_hash node_hash V (NodeAt node_hash) (tile_ok node_hash) vs name) evs.
Proof. exact run_safe_c10. Qed.
Print Assumptions C01_history_safe.

(* one Lookup: invariant, events, result, memoised security errors, and the model's fuel for the
   compare-and-swap loop of mergeLatest never runs out *)
Theorem C01_lookup_spec :
  forall sha leaf_hash node_hash V esc_path esc_vers skip vs name,
  (forall msg t, signed_tree V vs msg t -> Codec.tN t < 2 ^ 62) ->
  forall w c path vers r evs w' c',
  ClientInv leaf_hash V (NodeAt node_hash) vs name c ->
  (c_init c = None -> key_ok sha vs name w) ->
  lookup sha leaf_hash node_hash V esc_path esc_vers skip w c path vers = (r, evs, w', c') ->
  ClientInv leaf_hash V (NodeAt node_hash) vs name c' /\
  Forall (ev_safe leaf_hash node_hash V (NodeAt node_hash) (tile_ok node_hash) vs name) evs /\
  assoc (B "key") (w_config w') = assoc (B "key") (w_config w) /\
  (forall lines, r = LOk lines ->
     exists d, auth_record leaf_hash V (NodeAt node_hash) vs d /\ lines = result_lines path vers d) /\
  (r = LErr ESecurity ->
     Exists is_sec evs \/ c_init c = Some (Some ESecurity) \/ exists f, In (f, RErr ESecurity) (c_records c)) /\
  r <> LErr EFuelC /\
  (sec_memo c' -> sec_memo c \/ Exists is_sec evs).
Proof. exact lookup_spec_c10. Qed.
Print Assumptions C01_lookup_spec.

(* what "safe" means for each kind of event, spelled out *)
Theorem C01_ev_safe_unfold :
  forall leaf_hash node_hash V NodeAt tile_ok vs name e,
  ev_safe leaf_hash node_hash V NodeAt tile_ok vs name e <->
  match e with
  | EvReadRemote _ | EvReadCache _ | EvReadConfig _ => True
  | EvWriteCache f d =>
      (exists t tmsg tr, f = tile_cache_key name t /\ signed_tree V vs tmsg tr /\
                         tile_ok (Codec.tH tr) (Codec.tN tr) t d) \/
      ((exists ep ev, f = name ++ B "/lookup/" ++ ep ++ [64] ++ ev) /\ auth_record leaf_hash V NodeAt vs d)
  | EvWriteConfig f old new ok =>
      f = latest_file name /\
      exists tnew, signed_tree V vs new tnew /\
        (old = [] \/ exists told, signed_tree V vs old told /\ Codec.tN told < Codec.tN tnew /\
                                  Consistent node_hash NodeAt told tnew)
  | EvSecurity msg =>
      exists older newer h p, msg = security_msg older newer h p /\
        (older = [] \/ exists t, signed_tree V vs older t) /\ (newer = [] \/ exists t, signed_tree V vs newer t)
  end.
Proof. intros. destruct e; reflexivity. Qed.
Print Assumptions C01_ev_safe_unfold.

(* the hypotheses are satisfiable: a new client satisfies ClientInv *)
Example C01_new_client_inv : forall leaf_hash V NodeAt vs name,
  ClientInv leaf_hash V NodeAt vs name (new_client 8).
Proof. intros. unfold ClientInv, Fresh, new_client. cbn. repeat split; lia. Qed.


(* non-vacuity of "lookup ... = (LOk lines, ...)": a concrete honest world (a log of one record,
   tile height 1, empty stored head; real SHA-256, the signature oracle is the table in the case)
   evaluated in the kernel: the model returns the server's line, writes the signed head to the
   configuration, the authenticated tile and the lookup file to the cache.  (The case and the
   expected result are one recorded correspondence case of the Go harness, wire format of
   Base/Wire.v.) *)
Example C01_honest_scenario_computes :
  run_line DispatchClient.dispatch
    (B "L2 S5363656e6172696f L7 I1 L2 L2 S6b6579 S6c6f63616c686f73742e6c6f63616c6465762f73756d64622b35346461636234642b416241754769746d6867764a442b4f566e503261766b6d41395a3631597830764b3468353846746d6f4b42350a L2 S6c6f63616c686f73742e6c6f63616c6465762f73756d64622f6c6174657374 S L0 L3 L3 S2f6c6f6f6b75702f6578302e746573742f6d304076312e302e30 S300a6578302e746573742f6d302076312e302e302068313a2b42584672614c37747550434138396977644661726f7150636d4d67304d3345414e43417a62355a3567513d0a6578302e746573742f6d302076312e302e302f676f2e6d6f642068313a636c6e577147456e6f6b36414979625677495154336a585a325337707a734f35796a686c664d575574394d3d0a0a676f2e73756d20646174616261736520747265650a310a4962497833413033715375363953746c312f6d68566776635051394941495342783241766b436a5a7670413d0a0ae28094206c6f63616c686f73742e6c6f63616c6465762f73756d646220564e724c5459575a576945556d716e547a51727a776c4e2f78676670313370696f4c56666b3138777269474e503747465934664f31397643722f64317a4349482f744d5673453848417a5069507375376e61674777616c376441773d0a I0 L3 S2f74696c652f312f302f3030302e702f31 S I1 L3 S2f74696c652f312f302f303030 S21b231dc0d37a92bbaf52b65d7f9a1560bdc3d0f48008481c7602f9028d9be90e1e887e8df8a68a0947111cf66ebb01893ec90e3de33da5afc20f1444e8c857d I0 L1 L3 S01b02e1a2b66860bc90fe3959cfd9abe4980f59eb5631d2f2b8879f05b66a0a079 S676f2e73756d20646174616261736520747265650a310a4962497833413033715375363953746c312f6d68566776635051394941495342783241766b436a5a7670413d0a S85995a21149aa9d3cd0af3c2537fc607e9d77a62a0b55f935f30ae218d3fb1856387ced7dbc2aff775cc2207fed315b04f070333e23ecbbb9da806c1a97b740c L0 L1 L3 I0 S6578302e746573742f6d30 S76312e302e30")
  = B "L5 L1 L2 S6f6b L1 S6578302e746573742f6d302076312e302e302068313a2b42584672614c37747550434138396977644661726f7150636d4d67304d3345414e43417a62355a3567513d L1 L2 L3 S2f6c6f6f6b75702f6578302e746573742f6d304076312e302e30 S2f74696c652f312f302f303030 S2f74696c652f312f302f3030302e702f31 L3 S6c6f63616c686f73742e6c6f63616c6465762f73756d64622f6c6f6f6b75702f6578302e746573742f6d304076312e302e30 S6c6f63616c686f73742e6c6f63616c6465762f73756d64622f74696c652f312f302f303030 S6c6f63616c686f73742e6c6f63616c6465762f73756d64622f74696c652f312f302f3030302e702f31 L6 L2 S72636667 S6b6579 L2 S72636667 S6c6f63616c686f73742e6c6f63616c6465762f73756d64622f6c6174657374 L2 S72636667 S6c6f63616c686f73742e6c6f63616c6465762f73756d64622f6c6174657374 L5 S77636667 S6c6f63616c686f73742e6c6f63616c6465762f73756d64622f6c6174657374 S S676f2e73756d20646174616261736520747265650a310a4962497833413033715375363953746c312f6d68566776635051394941495342783241766b436a5a7670413d0a0ae28094206c6f63616c686f73742e6c6f63616c6465762f73756d646220564e724c5459575a576945556d716e547a51727a776c4e2f78676670313370696f4c56666b3138777269474e503747465934664f31397643722f64317a4349482f744d5673453848417a5069507375376e61674777616c376441773d0a I1 L3 S7763 S6c6f63616c686f73742e6c6f63616c6465762f73756d64622f74696c652f312f302f3030302e702f31 S21b231dc0d37a92bbaf52b65d7f9a1560bdc3d0f48008481c7602f9028d9be90 L3 S7763 S6c6f63616c686f73742e6c6f63616c6465762f73756d64622f6c6f6f6b75702f6578302e746573742f6d304076312e302e30 S300a6578302e746573742f6d302076312e302e302068313a2b42584672614c37747550434138396977644661726f7150636d4d67304d3345414e43417a62355a3567513d0a6578302e746573742f6d302076312e302e302f676f2e6d6f642068313a636c6e577147456e6f6b36414979625677495154336a585a325337707a734f35796a686c664d575574394d3d0a0a676f2e73756d20646174616261736520747265650a310a4962497833413033715375363953746c312f6d68566776635051394941495342783241766b436a5a7670413d0a0ae28094206c6f63616c686f73742e6c6f63616c6465762f73756d646220564e724c5459575a576945556d716e547a51727a776c4e2f78676670313370696f4c56666b3138777269474e503747465934664f31397643722f64317a4349482f744d5673453848417a5069507375376e61674777616c376441773d0a I0 L2 L2 S6b6579 S6c6f63616c686f73742e6c6f63616c6465762f73756d64622b35346461636234642b416241754769746d6867764a442b4f566e503261766b6d41395a3631597830764b3468353846746d6f4b42350a L2 S6c6f63616c686f73742e6c6f63616c6465762f73756d64622f6c6174657374 S676f2e73756d20646174616261736520747265650a310a4962497833413033715375363953746c312f6d68566776635051394941495342783241766b436a5a7670413d0a0ae28094206c6f63616c686f73742e6c6f63616c6465762f73756d646220564e724c5459575a576945556d716e547a51727a776c4e2f78676670313370696f4c56666b3138777269474e503747465934664f31397643722f64317a4349482f744d5673453848417a5069507375376e61674777616c376441773d0a".
Proof. vm_compute. reflexivity. Qed.

(* memoisation (parCache / singleflight): a second lookup of the same module version does no I/O *)
Theorem C01_lookup_memo_no_ops :
  forall sha leaf_hash node_hash V esc_path esc_vers skip w c path vers epath evers r,
  skip path = false ->
  c_init c = Some None ->
  esc_path path = Some epath ->
  esc_vers (trim_suffix vers go_mod_suffix) = Some evers ->
  rec_find (c_name c ++ B "/lookup/" ++ epath ++ [64] ++ evers) (c_records c) = Some r ->
  exists res, lookup sha leaf_hash node_hash V esc_path esc_vers skip w c path vers = (res, [], w, c) /\
              res = match r with RErr e => LErr e | ROk d => LOk (result_lines path vers d) end.
Proof. exact lookup_memo_no_ops. Qed.
Print Assumptions C01_lookup_memo_no_ops.

(* lookup_honest_complete.  The honest world is described by a range-hash function T (T lo hi = the
   RFC 6962 hash of the records [lo, hi); C01_honest_T_exists shows ProofsStore.range_hash of any
   log is one) up to the largest size N the server signs, and by HonestWorld (SeqProofsHonest.v):
     - every tile the tile hash reader can plan for a tree of size m <= N is served with its honest
       content on every read; cache files named like such a tile (or its full version) hold the
       honest content; cached and served lookup responses are honest records (a record id < n with
       leaf hash T id (id+1), followed by a note that opens to the tree (n, T 0 n), n <= N);
     - the stored head is empty or such a note; nobody else writes the configuration; the key file
       is the configured key.
   A GoodClient is a fresh client of tile height h (1..30), or an initialised one whose head is
   honest and whose memo tables hold honest tiles / honest records / "not found".
   Then a lookup never fails with a security error, emits no Security event, keeps world and
   client honest, and — for a module version that escapes and is not memoised — returns exactly
   the go.sum lines of an honest record (the cached file, else the server's response), or
   "not found" when the server has no such record.  Composition of C10 read_hashes_complete and
   make_plan_tiles_valid, tile_path_bijection, C09 (Blocks / fold of the range hashes) and the
   model's control flow; no assumption on the hash function. *)
Theorem C01_lookup_honest_complete :
  forall sha leaf_hash node_hash V esc_path esc_vers skip (T : Z -> Z -> hash) N h,
  ProofsTree.T_splits node_hash T N -> (forall lo hi, length (T lo hi) = 32%nat) ->
  0 < N <= 2 ^ 62 -> 1 <= h <= 30 ->
  forall vs name w c path vers r evs w' c',
  HonestWorld sha leaf_hash V T N h vs name w ->
  GoodClient leaf_hash V T N h vs name c ->
  lookup sha leaf_hash node_hash V esc_path esc_vers skip w c path vers = (r, evs, w', c') ->
  HonestWorld sha leaf_hash V T N h vs name w' /\
  GoodClient leaf_hash V T N h vs name c' /\
  Forall nosec evs /\ r <> LErr ESecurity /\
  (forall ep ev, skip path = false -> esc_path path = Some ep ->
     esc_vers (trim_suffix vers go_mod_suffix) = Some ev ->
     (c_init c = None \/ rec_find (name ++ B "/lookup/" ++ ep ++ [64] ++ ev) (c_records c) = None) ->
     (exists data, r = LOk (result_lines path vers data) /\ honest_record leaf_hash V T N vs data) \/
     (r = LErr ERemote /\ exists k, w_remote w k (B "/lookup/" ++ ep ++ [64] ++ ev) = None)).
Proof. exact lookup_honest. Qed.
Print Assumptions C01_lookup_honest_complete.

(* the hypotheses on T are satisfiable: the range hashes of any log, with SHA-256 *)
Example C01_honest_T_exists : forall recs : list str,
  ProofsTree.T_splits Sha.node_hash_sha (TileProofsInst.sha_range recs) (Spec6962.zlen recs) /\
  (forall lo hi, length (TileProofsInst.sha_range recs lo hi) = 32%nat).
Proof.
  intros recs. split; [apply ProofsStore.range_hash_splits | apply TileProofsInst.sha_range_length].
Qed.

(* "An honest server and honest cache never cause a failure", end to end over the model of the real
   server (Client/Server.v: sumdb.Server.ServeHTTP over sumdb.TestServer, builder server-model, tied
   to the implementation by check B01): the world is the server frozen in any state st reachable
   from NewTestServer (SInv), answering every /lookup/ and /tile/ request from its fixed log, with an
   empty cache; escaping is the model of module.EscapePath / EscapeVersion.  Then a lookup never
   returns a security error, emits no Security event, and when the server has the module version
   recorded it succeeds with the lines of that honest record.  (B01.hashes_ok: the hash functions
   return 32 bytes; B01.keypair_ok: the configured verifier accepts the server's signer — both
   with satisfiability Examples in Props/B01.v.) *)
Theorem C01_honest_server_lookup_succeeds :
  forall sha leaf_hash node_hash gosum sid Sg sgn V vs name st cfg h skip c path vers r evs w' c',
    B01.hashes_ok leaf_hash node_hash -> B01.keypair_ok sid Sg sgn str V vs ->
    ServerProofs.SInv leaf_hash node_hash gosum st ->
    0 < Spec6962.zlen (Server.ts_records st) < 2 ^ 62 -> 1 <= h <= 30 ->
    (exists cm, assoc (latest_file name) cfg = Some cm /\
                honest_msg V (ProofsStore.range_hash leaf_hash node_hash (Server.ts_records st))
                           (Spec6962.zlen (Server.ts_records st)) vs cm) ->
    (exists k hash key, assoc (B "key") cfg = Some k /\
       parse_verifier_key sha (trim_space k) = KOk (name, hash, key) /\
       verifier_list str [ {| v_name := name; v_hash := hash; v_id := key |} ] = vs) ->
    let T := ProofsStore.range_hash leaf_hash node_hash (Server.ts_records st) in
    let N := Spec6962.zlen (Server.ts_records st) in
    let esc_p := fun p => match Escape.escape_path p with Escape.EOk e => Some e | Escape.EErr _ => None end in
    let esc_v := fun v => match Escape.escape_version v with Escape.EOk e => Some e | Escape.EErr _ => None end in
    GoodClient leaf_hash V T N h vs name c ->
    lookup sha leaf_hash node_hash V esc_p esc_v skip
           (ServerProofsWorld.frozen_world leaf_hash node_hash sid Sg sgn st cfg) c path vers = (r, evs, w', c') ->
    r <> LErr ESecurity /\ Forall nosec evs /\
    HonestWorld sha leaf_hash V T N h vs name w' /\ GoodClient leaf_hash V T N h vs name c' /\
    forall ep ev, skip path = false -> Escape.escape_path path = Escape.EOk ep ->
      Escape.escape_version (trim_suffix vers go_mod_suffix) = Escape.EOk ev ->
      (c_init c = None \/ rec_find (name ++ B "/lookup/" ++ ep ++ [64] ++ ev) (c_records c) = None) ->
      ((exists data, r = LOk (result_lines path vers data) /\ honest_record leaf_hash V T N vs data) \/
       r = LErr ERemote) /\
      (forall id text, Server.mod_ver_match (ep ++ 64 :: ev) = true ->
         Server.find_key (Server.version_string path (trim_suffix vers go_mod_suffix)) (Server.ts_lookup st) = Some id ->
         nth_error (Server.ts_records st) (Z.to_nat id) = Some text -> is_valid_record_text text = true ->
         exists data, r = LOk (result_lines path vers data) /\ honest_record leaf_hash V T N vs data).
Proof. exact B01.B01_client_over_server. Qed.
Print Assumptions C01_honest_server_lookup_succeeds.
