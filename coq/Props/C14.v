(* C14 — placeholder while the proofs are being written. *)
From Verif.Base Require Import Bytes.
From Verif.Client Require Import Conc.
