(* C14 — Concurrent lookups behave like sequential ones and fetch each record once.
   Property theorems only; each is closed by [exact] of a lemma of Client/ConcProofs*.v.

   The model (Client/Conc.v) is an interleaving labelled transition system: any number of
   lookups (threads) on any number of clients that share one configuration file and one
   cache, against an honest server whose signed heads form the finite list [chain]
   (a head is (size, hash); [None] is the empty configuration / the initial memory head).
   One step = one mutex-protected section or one ClientOps call of sumdb/client.go.
   [run sched s] executes a schedule (a list of thread ids and server-growth actions; a
   disabled action stutters), [trace sched s] is the list of ClientOps calls it performs.
   All theorems are for ALL schedules, by induction over the schedule.

   Abbreviations used below (definitions in Client/Conc.v, Client/ConcProofs*.v):
     hin chain h      := match h with None => True | Some x => In x chain end
     size h           := match h with None => 0 | Some x => fst x end
     mem_of s ci      := memory head (c.latest) of client ci in s
     wf_init ...      := cur < length chain, cfg and the cached records' heads are heads of
                         the chain, sizes are >= 0, every lookup names an existing client
     nrc/nrr ci k tr  := number of ReadCache / ReadRemote calls for key k by client ci in tr
     covers n seg     := every thread id < n occurs in the schedule segment seg
     unfinished s     := some lookup has not returned in s
   What the LTS cannot express — data races, the atomicity of sync.Mutex / sync.Map /
   atomic — is assumed (each protected section is one step); the tie to the real client is
   the trace replay of the correspondence run (C14_replay_accepts_only_runs). *)
From Verif.Base Require Import Bytes.
From Verif.Module Require Import Match.
From Verif.Client Require Import Conc ConcProofs ConcProofsTrace ConcProofsTerm ConcProofsReplay ConcProofsMain.

(* every head in memory, in a thread's local copies, in the configuration file or in the
   cache is a head of the honest chain *)
Theorem C14_all_schedules_safe :
  forall chain cur cfg cache nos lks, wf_init chain cur cfg cache nos lks ->
  forall sched,
    let s := run sched (init_state chain cur cfg cache nos lks) in
    hin chain (s_cfg s) /\
    (forall ci c, nth_error (s_clients s) ci = Some c -> hin chain (c_mem c)) /\
    (forall t th, nth_error (s_threads s) t = Some th ->
       hin chain (t_msg th) /\ hin chain (t_lat th) /\ hin chain (t_data th) /\ hin chain (t_new th)) /\
    (forall k h, lookup k (s_cache s) = Some h -> In h chain).
Proof. exact all_schedules_heads_honest. Qed.
Print Assumptions C14_all_schedules_safe.

(* the full invariant (ownership of initOnce and of the parCache entries, the size relations
   between local copies, memory and configuration, results) *)
Theorem C14_invariant :
  forall chain cur cfg cache nos lks, wf_init chain cur cfg cache nos lks ->
  forall sched, Inv (run sched (init_state chain cur cfg cache nos lks)).
Proof. exact all_schedules_safe. Qed.
Print Assumptions C14_invariant.

Theorem C14_latest_never_regresses :
  forall chain cur cfg cache nos lks, wf_init chain cur cfg cache nos lks ->
  forall sched1 sched2,
    let s0 := init_state chain cur cfg cache nos lks in
    size (s_cfg (run sched1 s0)) <= size (s_cfg (run (sched1 ++ sched2) s0)) /\
    forall ci, size (mem_of (run sched1 s0) ci) <= size (mem_of (run (sched1 ++ sched2) s0) ci).
Proof. exact latest_never_regresses. Qed.
Print Assumptions C14_latest_never_regresses.

Theorem C14_fetch_once :
  forall chain cur cfg cache nos lks, wf_init chain cur cfg cache nos lks ->
  forall sched ci k,
    (nrc ci k (trace sched (init_state chain cur cfg cache nos lks)) <= 1)%nat /\
    (nrr ci k (trace sched (init_state chain cur cfg cache nos lks)) <= 1)%nat.
Proof. exact fetch_once. Qed.
Print Assumptions C14_fetch_once.

Theorem C14_gonosumdb_no_ops :
  forall chain cur cfg cache nos lks, wf_init chain cur cfg cache nos lks ->
  forall t ci path key globs,
    nth_error lks t = Some (ci, path, key) -> nth_error nos ci = Some globs ->
    match_prefix_patterns globs path = true ->
    forall sched e, In e (trace sched (init_state chain cur cfg cache nos lks)) -> fst e <> t.
Proof. exact gonosumdb_no_ops. Qed.
Print Assumptions C14_gonosumdb_no_ops.

(* a lookup that has returned returned ErrGONOSUMDB when its path matches, and otherwise the
   record of its own key, never an error *)
Theorem C14_results_sequential :
  forall chain cur cfg cache nos lks, wf_init chain cur cfg cache nos lks ->
  forall sched t ci path key globs th,
    nth_error lks t = Some (ci, path, key) -> nth_error nos ci = Some globs ->
    nth_error (s_threads (run sched (init_state chain cur cfg cache nos lks))) t = Some th ->
    t_pc th = PDone ->
    t_res th = if match_prefix_patterns globs path then RSkip else ROk key.
Proof. exact results_sequential. Qed.
Print Assumptions C14_results_sequential.

(* when all lookups have returned, no client's memory head is ahead of the configuration
   file, and every head any ClientOps call served to a client is at most that client's
   memory head (read_of gives the client and size of the head a call returned) *)
Theorem C14_ends_at_max :
  forall chain cur cfg cache nos lks, wf_init chain cur cfg cache nos lks ->
  forall sched,
    let s := run sched (init_state chain cur cfg cache nos lks) in
    quiescent s ->
    (forall ci c, nth_error (s_clients s) ci = Some c -> size (c_mem c) <= size (s_cfg s)) /\
    (forall e ci z, In e (trace sched (init_state chain cur cfg cache nos lks)) ->
       read_of (snd e) = Some (ci, z) -> z <= size (mem_of s ci)).
Proof. exact ends_at_max. Qed.
Print Assumptions C14_ends_at_max.

(* termination: the measure  pot * K + sum of thread ranks + (chain left to grow)  with
   pot = (maxN - size cfg) + sum over clients (maxN - size mem)  strictly decreases on every
   effective action (ConcProofsTerm.step_measure, grow_measure); some thread is enabled
   while a lookup is unfinished; hence every schedule made of enough segments that give
   every thread a turn — whatever else happens in between, growth of the server included —
   ends with all lookups returned, and NO schedule has more than [measure] effective actions *)
Theorem C14_terminates :
  forall chain cur cfg cache nos lks, wf_init chain cur cfg cache nos lks ->
  forall segs,
    (forall seg, In seg segs -> covers (length lks) seg) ->
    (measure (init_state chain cur cfg cache nos lks) <= length segs)%nat ->
    ~ unfinished (run (concat segs) (init_state chain cur cfg cache nos lks)).
Proof. exact terminates. Qed.
Print Assumptions C14_terminates.

Theorem C14_effective_steps_bound :
  forall chain cur cfg cache nos lks, wf_init chain cur cfg cache nos lks ->
  forall sched,
    (effective_count sched (init_state chain cur cfg cache nos lks)
     <= measure (init_state chain cur cfg cache nos lks))%nat.
Proof. exact effective_steps_bound. Qed.
Print Assumptions C14_effective_steps_bound.

Theorem C14_no_deadlock :
  forall chain cur cfg cache nos lks, wf_init chain cur cfg cache nos lks ->
  forall sched,
    unfinished (run sched (init_state chain cur cfg cache nos lks)) ->
    exists t, (t < length lks)%nat /\
              step (run sched (init_state chain cur cfg cache nos lks)) t <> None.
Proof. exact no_deadlock. Qed.
Print Assumptions C14_no_deadlock.

(* the tie: a trace accepted by the replay of the correspondence run ends in a state of a run
   of the LTS, so all of the above holds for every observed execution of the real client *)
Theorem C14_replay_accepts_only_runs :
  forall chain cur cfg cache nos lks, wf_init chain cur cfg cache nos lks ->
  forall tr n s',
    replay O tr (init_state chain cur cfg cache nos lks) = inl s' ->
    exists sched, finish n s' = run sched (init_state chain cur cfg cache nos lks) /\
                  Inv (finish n s').
Proof. exact replay_accepts_only_runs. Qed.
Print Assumptions C14_replay_accepts_only_runs.

(* ---- non-vacuity: a concrete world with two clients, four lookups (one skipped, two on the
   same key), a growing server; a round-robin schedule finishes all of them ------------------ *)
Definition ex_chain : list head := [(1, B "a"); (2, B "b"); (3, B "c")].
Definition ex_lks : list (nat * str * nat) :=
  [(O, B "rsc.io/quote", O); (O, B "rsc.io/quote", O); (1%nat, B "rsc.io/quote", O);
   (1%nat, B "corp.example.com/x", 1%nat)].
Definition ex_nos : list str := [B ""; B "corp.example.com"].
Definition ex_init : state := init_state ex_chain 0 (Some (1, B "a")) [] ex_nos ex_lks.
Definition ex_round : list act := [AThread 0; AThread 1; AGrow; AThread 2; AThread 3].
Definition ex_sched : list act := concat (repeat ex_round 40).

Example C14_example_wf : wf_init ex_chain 0 (Some (1, B "a")) [] ex_nos ex_lks.
Proof.
  constructor; cbn.
  - lia.
  - auto.
  - discriminate.
  - intros x [<-|[<-|[<-|[<-|[]]]]]; cbn; lia.
  - intros h [<-|[<-|[<-|[]]]]; cbn; lia.
Qed.

Example C14_example_finishes :
  all_done (run ex_sched ex_init) = true /\
  List.map t_res (s_threads (run ex_sched ex_init)) = [ROk 0; ROk 0; ROk 0; RSkip] /\
  s_cfg (run ex_sched ex_init) = Some (3, B "c") /\
  nrc 0 0 (trace ex_sched ex_init) = 1%nat /\ nrr 0 0 (trace ex_sched ex_init) = 1%nat /\
  nrc 1 0 (trace ex_sched ex_init) = 1%nat /\ nrr 1 0 (trace ex_sched ex_init) = 1%nat.
Proof. vm_compute. repeat split; reflexivity. Qed.
