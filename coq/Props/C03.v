(* C03 — placeholder while the proofs are being written *)
From Verif.Base Require Import Bytes.
From Verif.Tlog Require Import Index Tree Rfc9162.
