(* C03 — Merkle inclusion and consistency proofs are complete and sound (RFC 6962).
   Property theorems only; each is closed by [exact] of a lemma proved in Tlog/Proofs*.v.
   All statements are parametric in the hash functions (no assumption on them).
   Model: Tlog/Index.v, Tlog/Tree.v (tlog.go 317-605); specification: Tlog/Spec6962.v
   (mth, path = PATH, proof = PROOF of RFC 6962 2.1) and Tlog/Rfc9162.v (the iterative
   verification algorithms of RFC 9162 2.1.3.2 / 2.1.4.2).
   Guard: sizes up to 2^62 (Go uses int64; the model is unbounded).

   Soundness is proved in two forms: as equivalence with the standard (C03_check_record_iff_rfc9162,
   C03_check_tree_iff_rfc9162: the checkers accept a tuple iff the iterative RFC 9162 algorithm
   accepts it) and semantically (C03_check_record_sound, C03_check_tree_sound: whatever is
   accepted under the true tree hash is true, or a concrete collision of the node hash is
   exhibited). *)
From Verif.Base Require Import Bytes.
From Verif.Tlog Require Import Index Tree Spec6962 Rfc9162 ProofsIndex ProofsSpec ProofsTree ProofsStore ProofsRecord ProofsPath ProofsConsistency ProofsRfcIncl ProofsRfcCons.

(* ---- the specification functions are the RFC 6962 recursions ---- *)
Theorem C03_path_is_rfc6962 : forall (node_hash : hash -> hash -> hash),
  (forall m x, path node_hash m [x] = []) /\
  (forall m l, 2 <= zlen l ->
     let k := split_point (zlen l) in
     path node_hash m l =
     if m <? k
     then path node_hash m (firstn (Z.to_nat k) l) ++ [mth node_hash (skipn (Z.to_nat k) l)]
     else path node_hash (m - k) (skipn (Z.to_nat k) l) ++ [mth node_hash (firstn (Z.to_nat k) l)]).
Proof. intros node_hash. split; [reflexivity|exact (path_split node_hash)]. Qed.
Print Assumptions C03_path_is_rfc6962.

Theorem C03_proof_is_rfc6962 : forall (node_hash : hash -> hash -> hash),
  (forall m l, proof node_hash m l = subproof node_hash m l true) /\
  (forall l b, subproof node_hash (zlen l) l b = if b then [] else [mth node_hash l]) /\
  (forall m l b, 0 < m < zlen l ->
     let k := split_point (zlen l) in
     subproof node_hash m l b =
     if m <=? k
     then subproof node_hash m (firstn (Z.to_nat k) l) b ++ [mth node_hash (skipn (Z.to_nat k) l)]
     else subproof node_hash (m - k) (skipn (Z.to_nat k) l) false ++ [mth node_hash (firstn (Z.to_nat k) l)]).
Proof.
  intros node_hash. split; [reflexivity|]. split; [exact (subproof_same node_hash)|exact (subproof_split node_hash)].
Qed.
Print Assumptions C03_proof_is_rfc6962.

(* ---- never a crash: every argument tuple gives Ok or an error ---- *)
Theorem C03_check_never_panics : forall (node_hash : hash -> hash -> hash) p t th n h,
  t <= 2 ^ 63 ->
  check_record node_hash p t th n h <> Panic /\ check_tree node_hash p t th n h <> Panic.
Proof. exact check_never_panics. Qed.
Print Assumptions C03_check_never_panics.

Theorem C03_out_of_range_is_an_error : forall (node_hash : hash -> hash -> hash) p t th n h,
  (t < 0 \/ n < 0 \/ t <= n -> check_record node_hash p t th n h = Err EInvalidInputs) /\
  (t < 1 \/ n < 1 \/ t < n -> check_tree node_hash p t th n h = Err EInvalidInputs).
Proof.
  intros. split; [apply check_record_invalid|apply check_tree_invalid].
Qed.
Print Assumptions C03_out_of_range_is_an_error.

(* ---- the proofs produced are exactly the RFC 6962 ones (and producing them never fails or panics) ---- *)
Theorem C03_prove_record_is_PATH :
  forall (leaf_hash : str -> hash) (node_hash : hash -> hash -> hash) recs t n,
  zlen recs < 2 ^ 62 -> 0 <= n < t -> t <= zlen recs ->
  prove_record node_hash t n (reader_of (store_of leaf_hash node_hash recs))
  = Ok (path node_hash n (map leaf_hash (firstn (Z.to_nat t) recs))).
Proof. exact prove_record_is_PATH. Qed.
Print Assumptions C03_prove_record_is_PATH.

Theorem C03_prove_tree_is_PROOF :
  forall (leaf_hash : str -> hash) (node_hash : hash -> hash -> hash) recs t n,
  zlen recs < 2 ^ 62 -> 1 <= n <= t -> t <= zlen recs ->
  prove_tree node_hash t n (reader_of (store_of leaf_hash node_hash recs))
  = Ok (proof node_hash n (map leaf_hash (firstn (Z.to_nat t) recs))).
Proof. exact prove_tree_is_PROOF. Qed.
Print Assumptions C03_prove_tree_is_PROOF.

(* ---- completeness: the checkers accept the RFC 6962 proofs ---- *)
Theorem C03_check_record_complete : forall (node_hash : hash -> hash -> hash) L n d,
  zlen L <= 2 ^ 62 -> 0 <= n < zlen L ->
  check_record node_hash (path node_hash n L) (zlen L) (mth node_hash L) n (nth (Z.to_nat n) L d) = Ok tt.
Proof. exact check_record_complete. Qed.
Print Assumptions C03_check_record_complete.

Theorem C03_check_tree_complete : forall (node_hash : hash -> hash -> hash) L n,
  zlen L <= 2 ^ 62 -> 1 <= n <= zlen L ->
  check_tree node_hash (proof node_hash n L) (zlen L) (mth node_hash L) n
             (mth node_hash (firstn (Z.to_nat n) L)) = Ok tt.
Proof. exact check_tree_complete. Qed.
Print Assumptions C03_check_tree_complete.

(* ---- soundness, collision-explicit: for ANY proof p, index and hash ---- *)
Theorem C03_check_record_sound : forall (node_hash : hash -> hash -> hash) L p n h d,
  zlen L <= 2 ^ 62 ->
  check_record node_hash p (zlen L) (mth node_hash L) n h = Ok tt ->
  0 <= n < zlen L /\
  (h = nth (Z.to_nat n) L d \/
   exists a b c e : hash, (a, b) <> (c, e) /\ node_hash a b = node_hash c e).
Proof. exact check_record_sound. Qed.
Print Assumptions C03_check_record_sound.

Theorem C03_check_tree_sound : forall (node_hash : hash -> hash -> hash) L p n h,
  zlen L <= 2 ^ 62 ->
  check_tree node_hash p (zlen L) (mth node_hash L) n h = Ok tt ->
  1 <= n <= zlen L /\
  (h = mth node_hash (firstn (Z.to_nat n) L) \/
   exists a b c e : hash, (a, b) <> (c, e) /\ node_hash a b = node_hash c e).
Proof. exact check_tree_sound. Qed.
Print Assumptions C03_check_tree_sound.

(* ---- soundness as equivalence with the standard: CheckRecord / CheckTree accept a tuple iff
   the iterative algorithm of RFC 9162 2.1.3.2 / 2.1.4.2 accepts it; hence any change of a proof
   hash, of the length or order of the proof, of n, t, h or th is rejected unless the RFC
   algorithm accepts the changed tuple ---- *)
Theorem C03_check_record_iff_rfc9162 : forall (node_hash : hash -> hash -> hash) p t th n h,
  t <= 2 ^ 63 ->
  (check_record node_hash p t th n h = Ok tt <-> rfc_verify_inclusion node_hash p t th n h = true).
Proof. exact check_record_iff_rfc9162. Qed.
Print Assumptions C03_check_record_iff_rfc9162.

Theorem C03_check_tree_iff_rfc9162 : forall (node_hash : hash -> hash -> hash) p t th n h,
  t <= 2 ^ 62 ->
  (check_tree node_hash p t th n h = Ok tt <-> rfc_verify_consistency node_hash p t th n h = true).
Proof. exact check_tree_iff_rfc9162. Qed.
Print Assumptions C03_check_tree_iff_rfc9162.

Corollary C03_changed_tuple_rejected_unless_rfc_accepts :
  forall (node_hash : hash -> hash -> hash) p' t' th' n' h',
  t' <= 2 ^ 63 ->
  rfc_verify_inclusion node_hash p' t' th' n' h' = false ->
  check_record node_hash p' t' th' n' h' = Err EInvalidInputs \/
  check_record node_hash p' t' th' n' h' = Err EProofFailed.
Proof. exact check_record_rejects. Qed.
Print Assumptions C03_changed_tuple_rejected_unless_rfc_accepts.

(* ---- non-vacuity: a concrete log with a toy (injective) hash ---- *)
Definition ex_leaf (d : str) : hash := 76 :: d.
Definition ex_node (a b : hash) : hash := 40 :: a ++ b ++ [41].
Definition ex_recs : list str := [B "a"; B "b"; B "c"; B "d"; B "e"; B "f"; B "g"].
Definition ex_L : list hash := map ex_leaf ex_recs.

Example C03_example :
  prove_record ex_node 7 4 (reader_of (store_of ex_leaf ex_node ex_recs))
    = Ok [B "Lf"; B "Lg"; B "((LaLb)(LcLd))"] /\
  check_record ex_node [B "Lf"; B "Lg"; B "((LaLb)(LcLd))"] 7 (mth ex_node ex_L) 4 (B "Le") = Ok tt /\
  rfc_verify_inclusion ex_node [B "Lf"; B "Lg"; B "((LaLb)(LcLd))"] 7 (mth ex_node ex_L) 4 (B "Le") = true /\
  check_record ex_node [B "Lg"; B "Lf"; B "((LaLb)(LcLd))"] 7 (mth ex_node ex_L) 4 (B "Le") = Err EProofFailed /\
  prove_tree ex_node 7 3 (reader_of (store_of ex_leaf ex_node ex_recs))
    = Ok [B "Lc"; B "Ld"; B "(LaLb)"; B "((LeLf)Lg)"] /\
  check_tree ex_node [B "Lc"; B "Ld"; B "(LaLb)"; B "((LeLf)Lg)"] 7 (mth ex_node ex_L) 3
             (mth ex_node (firstn 3 ex_L)) = Ok tt /\
  rfc_verify_consistency ex_node [B "Lc"; B "Ld"; B "(LaLb)"; B "((LeLf)Lg)"] 7 (mth ex_node ex_L) 3
             (mth ex_node (firstn 3 ex_L)) = true.
Proof. vm_compute. repeat split; reflexivity. Qed.
