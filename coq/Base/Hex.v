(* Lower-case hexadecimal encoding of a byte string, as fmt's %x prints a []byte
   (two digits per byte, most significant nibble first, digits 0-9a-f).
   [hex_encode] is total on all of [Z]; on bytes (0 <= b < 256) it is what Go prints.
   The few lemmas here (length, injectivity, alphabet) are what users of a fixed-width
   hex field need. *)
From Verif.Base Require Import Bytes.

Definition hex_digit (n : Z) : Z := if n <? 10 then 48 + n else 87 + n.

Fixpoint hex_encode (s : str) : str :=
  match s with
  | [] => []
  | b :: r => hex_digit (b / 16) :: hex_digit (b mod 16) :: hex_encode r
  end.

(* the inverse on the image; None on anything that is not an even number of [0-9a-f] *)
Definition hex_value (c : Z) : option Z :=
  if (48 <=? c) && (c <=? 57) then Some (c - 48)
  else if (97 <=? c) && (c <=? 102) then Some (c - 87)
  else None.

Fixpoint hex_decode (s : str) : option str :=
  match s with
  | [] => Some []
  | a :: b :: r =>
      match hex_value a, hex_value b, hex_decode r with
      | Some x, Some y, Some t => Some (16 * x + y :: t)
      | _, _, _ => None
      end
  | _ => None
  end.

Definition is_hex_char (c : Z) : bool :=
  ((48 <=? c) && (c <=? 57)) || ((97 <=? c) && (c <=? 102)).

Definition is_byte (b : Z) : Prop := 0 <= b < 256.

Lemma hex_encode_length s : length (hex_encode s) = (2 * length s)%nat.
Proof. induction s as [|b r IH]; cbn [hex_encode length]; [reflexivity | rewrite IH; lia]. Qed.

Lemma hex_encode_app a b : hex_encode (a ++ b) = hex_encode a ++ hex_encode b.
Proof. induction a as [|x a IH]; cbn [hex_encode app]; [reflexivity | now rewrite IH]. Qed.

Lemma hex_digit_inj a b : hex_digit a = hex_digit b -> a = b.
Proof.
  unfold hex_digit. destruct (Z.ltb_spec a 10), (Z.ltb_spec b 10); lia.
Qed.

Lemma hex_encode_inj a b : hex_encode a = hex_encode b -> a = b.
Proof.
  revert b; induction a as [|x a IH]; intros [|y b]; cbn [hex_encode]; intros H;
    try discriminate; [reflexivity|].
  injection H as H1 H2 H3.
  apply hex_digit_inj in H1. apply hex_digit_inj in H2.
  f_equal; [|now apply IH].
  rewrite (Z.div_mod x 16), (Z.div_mod y 16) by lia. now rewrite H1, H2.
Qed.

Lemma hex_digit_is_hex n : 0 <= n < 16 -> is_hex_char (hex_digit n) = true.
Proof. unfold hex_digit, is_hex_char. destruct (Z.ltb_spec n 10); lia. Qed.

Lemma hex_encode_is_hex s : Forall is_byte s -> forallb is_hex_char (hex_encode s) = true.
Proof.
  unfold is_byte. induction 1 as [|b r Hb _ IH]; cbn [hex_encode forallb]; [reflexivity|].
  rewrite IH, !hex_digit_is_hex; [reflexivity | |].
  - apply Z.mod_pos_bound; lia.
  - split; [apply Z.div_pos; lia | apply Z.div_lt_upper_bound; lia].
Qed.

Lemma hex_value_digit n : 0 <= n < 16 -> hex_value (hex_digit n) = Some n.
Proof.
  unfold hex_value, hex_digit. intros Hn. destruct (Z.ltb_spec n 10).
  - replace ((48 <=? 48 + n) && (48 + n <=? 57)) with true by lia. f_equal; lia.
  - replace ((48 <=? 87 + n) && (87 + n <=? 57)) with false by lia.
    replace ((97 <=? 87 + n) && (87 + n <=? 102)) with true by lia. f_equal; lia.
Qed.

Lemma hex_decode_encode s : Forall is_byte s -> hex_decode (hex_encode s) = Some s.
Proof.
  unfold is_byte. induction 1 as [|b r Hb _ IH]; cbn [hex_encode hex_decode]; [reflexivity|].
  rewrite IH, !hex_value_digit.
  - f_equal. f_equal. rewrite (Z.div_mod b 16) at 3 by lia. reflexivity.
  - apply Z.mod_pos_bound; lia.
  - split; [apply Z.div_pos; lia | apply Z.div_lt_upper_bound; lia].
Qed.
