(* Proofs about the base64 model: decode after encode, length and alphabet of the output. *)
From Verif.Base Require Import Bytes Base64.

Definition byte (b : Z) : Prop := 0 <= b < 256.

(* a character of the encoded form: alphabet or '=' *)
Definition is_b64_char (c : Z) : bool :=
  match sextet c with Some _ => true | None => c =? pad_char end.

Ltac zb_step :=
  match goal with
  | |- context [?a <? ?b] => destruct (Z.ltb_spec a b)
  | |- context [?a <=? ?b] => destruct (Z.leb_spec a b)
  | |- context [?a =? ?b] => destruct (Z.eqb_spec a b)
  end.

Lemma sextet_enc_char n : 0 <= n < 64 -> sextet (enc_char n) = Some n.
Proof.
  intros Hn. unfold enc_char.
  destruct (Z.ltb_spec n 26); [|destruct (Z.ltb_spec n 52); [|destruct (Z.ltb_spec n 62);
    [|destruct (Z.eqb_spec n 62)]]];
  unfold sextet, is_upper, is_lower, is_digit;
  repeat (zb_step; try lia; cbn [andb]); f_equal; lia.
Qed.

Lemma sextet_range c v : sextet c = Some v -> 0 <= v < 64.
Proof.
  unfold sextet, is_upper, is_lower, is_digit.
  repeat (zb_step; cbn [andb]); intros [= <-]; lia.
Qed.

Lemma sextet_not_crlf c v : sextet c = Some v -> is_crlf c = false.
Proof.
  unfold sextet, is_upper, is_lower, is_digit, is_crlf.
  repeat (zb_step; cbn [andb orb]); try reflexivity; try lia; intros [=].
Qed.

Lemma sextet_pad : sextet pad_char = None.
Proof. reflexivity. Qed.

Lemma list_ind3 (P : list Z -> Prop) :
  P [] -> (forall a, P [a]) -> (forall a b, P [a; b]) ->
  (forall a b c r, P r -> P (a :: b :: c :: r)) -> forall l, P l.
Proof.
  intros H0 H1 H2 H3. fix IH 1. intros [|a [|b [|c r]]];
    [exact H0 | exact (H1 a) | exact (H2 a b) | exact (H3 a b c r (IH r))].
Qed.

(* ranges of the four 6-bit groups *)
Lemma group_ranges a b c : byte a -> byte b -> byte c ->
  0 <= a / 4 < 64 /\ 0 <= (a mod 4) * 16 + b / 16 < 64 /\
  0 <= (b mod 16) * 4 + c / 64 < 64 /\ 0 <= c mod 64 < 64 /\
  0 <= (a mod 4) * 16 < 64 /\ 0 <= (b mod 16) * 4 < 64.
Proof. unfold byte. intros. Z.div_mod_to_equations. lia. Qed.

Lemma b64_encode_length s : length (encode s) = (4 * ((length s + 2) / 3))%nat.
Proof.
  induction s as [| a | a b | a b c r IH] using list_ind3; try reflexivity.
  cbn [encode length]. rewrite IH.
  replace (S (S (S (length r))) + 2)%nat with (length r + 2 + 1 * 3)%nat by lia.
  rewrite Nat.div_add by lia. lia.
Qed.

Lemma b64_encode_len s : len (encode s) = 4 * ((len s + 2) / 3).
Proof.
  unfold len. rewrite b64_encode_length.
  rewrite Nat2Z.inj_mul, Nat2Z.inj_div, Nat2Z.inj_add. reflexivity.
Qed.

Lemma is_b64_char_enc n : 0 <= n < 64 -> is_b64_char (enc_char n) = true.
Proof. intros H. unfold is_b64_char. rewrite sextet_enc_char by exact H. reflexivity. Qed.

Lemma b64_encode_alphabet s :
  Forall byte s -> Forall (fun c => is_b64_char c = true) (encode s).
Proof.
  induction s as [| a | a b | a b c r IH] using list_ind3; intros Hs; cbn [encode].
  - constructor.
  - inversion_clear Hs as [|? ? Ha _].
    destruct (group_ranges a 0 0 Ha) as (H1 & _ & _ & _ & H5 & _); try (unfold byte; lia).
    repeat constructor; auto using is_b64_char_enc.
  - inversion_clear Hs as [|? ? Ha Hs']. inversion_clear Hs' as [|? ? Hb _].
    destruct (group_ranges a b 0 Ha Hb) as (H1 & H2 & _ & _ & _ & H6); try (unfold byte; lia).
    repeat constructor; auto using is_b64_char_enc.
  - inversion_clear Hs as [|? ? Ha Hs']. inversion_clear Hs' as [|? ? Hb Hs''].
    inversion_clear Hs'' as [|? ? Hc Hr].
    destruct (group_ranges a b c Ha Hb Hc) as (H1 & H2 & H3 & H4 & _ & _).
    repeat (constructor; auto using is_b64_char_enc).
Qed.

Lemma b64_char_not_crlf c : is_b64_char c = true -> is_crlf c = false.
Proof.
  unfold is_b64_char. destruct (sextet c) eqn:E.
  - intros _. eapply sextet_not_crlf; eauto.
  - intros H. apply Z.eqb_eq in H. subst c. reflexivity.
Qed.

Lemma filter_crlf_encode s :
  Forall byte s -> filter (fun c => negb (is_crlf c)) (encode s) = encode s.
Proof.
  intros Hs. apply b64_encode_alphabet in Hs.
  induction Hs as [|c l Hc _ IH]; cbn [filter]; [reflexivity|].
  rewrite (b64_char_not_crlf c Hc). cbn [negb]. now rewrite IH.
Qed.

Lemma decode_quanta_encode s : Forall byte s -> decode_quanta (encode s) = Some s.
Proof.
  induction s as [| a | a b | a b c r IH] using list_ind3; intros Hs; cbn [encode].
  - reflexivity.
  - inversion_clear Hs as [|? ? Ha _].
    destruct (group_ranges a 0 0 Ha) as (H1 & _ & _ & _ & H5 & _); try (unfold byte; lia).
    cbn [decode_quanta]. rewrite !sextet_enc_char by assumption.
    rewrite sextet_pad, Z.eqb_refl. cbn [andb is_nil]. do 2 f_equal.
    unfold byte in Ha. Z.div_mod_to_equations. lia.
  - inversion_clear Hs as [|? ? Ha Hs']. inversion_clear Hs' as [|? ? Hb _].
    destruct (group_ranges a b 0 Ha Hb) as (H1 & H2 & _ & _ & _ & H6); try (unfold byte; lia).
    cbn [decode_quanta]. rewrite !sextet_enc_char by assumption.
    rewrite sextet_pad, Z.eqb_refl. cbn [andb is_nil].
    unfold byte in Ha, Hb. do 2 f_equal; [|f_equal]; Z.div_mod_to_equations; lia.
  - inversion_clear Hs as [|? ? Ha Hs']. inversion_clear Hs' as [|? ? Hb Hs''].
    inversion_clear Hs'' as [|? ? Hc Hr].
    destruct (group_ranges a b c Ha Hb Hc) as (H1 & H2 & H3 & H4 & _ & _).
    cbn [decode_quanta]. rewrite !sextet_enc_char by assumption. rewrite (IH Hr).
    unfold byte in Ha, Hb, Hc.
    do 2 f_equal; [|f_equal; [|f_equal]]; Z.div_mod_to_equations; lia.
Qed.

Theorem b64_decode_encode s : Forall byte s -> decode (encode s) = Some s.
Proof.
  intros Hs. unfold decode. rewrite filter_crlf_encode by exact Hs.
  apply decode_quanta_encode, Hs.
Qed.

(* decoded bytes are bytes *)
Lemma decode_quanta_bytes s t : decode_quanta s = Some t -> Forall byte t.
Proof.
  revert t. assert (H : forall n s t, (length s <= n)%nat -> decode_quanta s = Some t -> Forall byte t).
  { induction n as [|n IH]; intros s0 t Hl.
    - destruct s0; [|cbn in Hl; lia]. intros [= <-]. constructor.
    - destruct s0 as [|a [|b [|c [|d r]]]]; cbn [decode_quanta]; try discriminate.
      + intros [= <-]. constructor.
      + destruct (sextet a) as [x|] eqn:Ea; [|discriminate].
        destruct (sextet b) as [y|] eqn:Eb; [|discriminate].
        apply sextet_range in Ea. apply sextet_range in Eb.
        destruct (sextet c) as [z|] eqn:Ec.
        * apply sextet_range in Ec.
          destruct (sextet d) as [w|] eqn:Ed.
          -- apply sextet_range in Ed.
             destruct (decode_quanta r) as [t'|] eqn:Er; [|discriminate].
             intros [= <-]. apply IH in Er; [|cbn in Hl; lia].
             repeat constructor; auto; unfold byte; Z.div_mod_to_equations; lia.
          -- destruct ((d =? pad_char) && is_nil r); [|discriminate].
             intros [= <-]. repeat constructor; unfold byte; Z.div_mod_to_equations; lia.
        * destruct ((c =? pad_char) && (d =? pad_char) && is_nil r); [|discriminate].
          intros [= <-]. repeat constructor; unfold byte; Z.div_mod_to_equations; lia. }
  intros t. apply (H (length s)). lia.
Qed.

Lemma b64_decode_bytes s t : decode s = Some t -> Forall byte t.
Proof. unfold decode. apply decode_quanta_bytes. Qed.
