(* Facts about the UTF-8 model: decode after encode, encode after a successful decode. *)
From Verif.Base Require Import Bytes Utf8.

Definition valid_rune_p (r : Z) : Prop := 0 <= r < 55296 \/ 57343 < r <= 1114111.

(* decide boolean comparisons whose outcome follows from the context by lia *)
Ltac decide_cmp :=
  match goal with
  | |- context [?a <? ?b] =>
      first [rewrite (proj2 (Z.ltb_lt a b)) by lia | rewrite (proj2 (Z.ltb_ge a b)) by lia]
  | |- context [?a <=? ?b] =>
      first [rewrite (proj2 (Z.leb_le a b)) by lia | rewrite (proj2 (Z.leb_gt a b)) by lia]
  | |- context [?a =? ?b] =>
      first [rewrite (proj2 (Z.eqb_eq a b)) by lia | rewrite (proj2 (Z.eqb_neq a b)) by lia]
  end.
Ltac list_eq :=
  repeat (match goal with |- _ :: _ = _ :: _ => apply f_equal2 end); try reflexivity.
Ltac decide_cmps := repeat (decide_cmp; cbn [andb orb negb]).

Lemma encode_ascii r : 0 <= r < 128 -> encode r = [r].
Proof. intros H. unfold encode, rune_error. decide_cmps. reflexivity. Qed.

Lemma encode_valid r : valid_rune_p r ->
  encode r =
  if r <? 128 then [r]
  else if r <? 2048 then [192 + r / 64; 128 + r mod 64]
  else if r <? 65536 then [224 + r / 4096; 128 + (r / 64) mod 64; 128 + r mod 64]
  else [240 + r / 262144; 128 + (r / 4096) mod 64; 128 + (r / 64) mod 64; 128 + r mod 64].
Proof. intros [H|H]; unfold encode, rune_error; decide_cmps; reflexivity. Qed.

Lemma decode_ascii b rest : b < 128 -> decode (b :: rest) = (b, 1%nat).
Proof. intros H. unfold decode. decide_cmps. reflexivity. Qed.

Lemma encode_length_pos r : (1 <= length (encode r))%nat.
Proof.
  unfold encode.
  repeat match goal with |- context [if ?c then _ else _] => destruct c end; cbn [length]; lia.
Qed.

(* the four shapes of encode *)
Lemma encode_cases r : valid_rune_p r ->
  (r < 128 /\ encode r = [r]) \/
  (128 <= r < 2048 /\ exists b0 b1, encode r = [b0; b1] /\ 194 <= b0 <= 223 /\ 128 <= b1 <= 191 /\
      r = (b0 - 192) * 64 + (b1 - 128)) \/
  (2048 <= r < 65536 /\ exists b0 b1 b2, encode r = [b0; b1; b2] /\ 224 <= b0 <= 239 /\
      128 <= b1 <= 191 /\ 128 <= b2 <= 191 /\ (b0 = 224 -> 160 <= b1) /\ (b0 = 237 -> b1 <= 159) /\
      r = (b0 - 224) * 4096 + (b1 - 128) * 64 + (b2 - 128)) \/
  (65536 <= r /\ exists b0 b1 b2 b3, encode r = [b0; b1; b2; b3] /\ 240 <= b0 <= 244 /\
      128 <= b1 <= 191 /\ 128 <= b2 <= 191 /\ 128 <= b3 <= 191 /\
      (b0 = 240 -> 144 <= b1) /\ (b0 = 244 -> b1 <= 143) /\
      r = (b0 - 240) * 262144 + (b1 - 128) * 4096 + (b2 - 128) * 64 + (b3 - 128)).
Proof.
  intros Hv. unfold valid_rune_p in Hv. unfold encode, rune_error.
  assert (E : (r <? 0) || (1114111 <? r) || (55296 <=? r) && (r <=? 57343) = false) by (destruct Hv; decide_cmps; reflexivity).
  rewrite E. clear E.
  destruct (Z.ltb_spec r 128); [left; split; [lia|reflexivity]|].
  destruct (Z.ltb_spec r 2048).
  { right; left. split; [lia|]. eexists _, _. split; [reflexivity|]. Z.div_mod_to_equations. lia. }
  destruct (Z.ltb_spec r 65536).
  { right; right; left. split; [lia|]. eexists _, _, _. split; [reflexivity|]. Z.div_mod_to_equations. lia. }
  right; right; right. split; [lia|]. eexists _, _, _, _. split; [reflexivity|]. Z.div_mod_to_equations. lia.
Qed.

Theorem decode_encode r tail : valid_rune_p r ->
  decode (encode r ++ tail) = (r, length (encode r)).
Proof.
  intros Hv. destruct (encode_cases r Hv) as
    [(H & ->) | [(H & b0 & b1 & -> & H0 & H1 & ->) | [(H & b0 & b1 & b2 & -> & H0 & H1 & H2 & Hlo & Hhi & ->)
    | (H & b0 & b1 & b2 & b3 & -> & H0 & H1 & H2 & H3 & Hlo & Hhi & ->)]]]; cbn [app length].
  - apply decode_ascii. exact H.
  - unfold decode, cont. decide_cmps. reflexivity.
  - unfold decode, cont. decide_cmps.
    destruct (Z.eqb_spec b0 224), (Z.eqb_spec b0 237); try lia; decide_cmps; reflexivity.
  - unfold decode, cont. decide_cmps.
    destruct (Z.eqb_spec b0 240), (Z.eqb_spec b0 244); try lia; decide_cmps; reflexivity.
Qed.

Lemma encode_first_byte r : valid_rune_p r -> 128 <= r ->
  exists b0 rest, encode r = b0 :: rest /\ 128 <= b0.
Proof.
  intros Hv Hr. destruct (encode_cases r Hv) as
    [(H & _) | [(H & b0 & b1 & -> & H0 & _) | [(H & b0 & b1 & b2 & -> & H0 & _)
    | (H & b0 & b1 & b2 & b3 & -> & H0 & _)]]]; [lia| | |]; eexists _, _; (split; [reflexivity|lia]).
Qed.

(* one step of decoding a byte string: either an invalid byte (RuneError, width 1), or a
   valid rune whose encoding is exactly the bytes consumed *)
Theorem decode_step b rest rn w : 0 <= b < 256 -> decode (b :: rest) = (rn, w) ->
  (w = 1%nat /\ rn = rune_error /\ 128 <= b) \/
  (valid_rune_p rn /\ encode rn = firstn w (b :: rest) /\ (1 <= w)%nat /\
   (w = 1%nat -> rn <> rune_error)).
Proof.
  intros Hb. unfold decode, cont, rune_error.
  destruct (Z.ltb_spec b 128) as [H1|H1].
  { intros [= <- <-]. right. unfold valid_rune_p. rewrite encode_ascii by lia.
    repeat split; try reflexivity; lia. }
  assert (Hbad : forall rn w, (65533, 1%nat) = (rn, w) ->
     (w = 1%nat /\ rn = 65533 /\ 128 <= b) \/
     (valid_rune_p rn /\ encode rn = firstn w (b :: rest) /\ (1 <= w)%nat /\ (w = 1%nat -> rn <> 65533))).
  { intros ? ? [= <- <-]. left. repeat split; lia. }
  destruct ((194 <=? b) && (b <=? 223)) eqn:E2.
  { apply andb_true_iff in E2. rewrite !Z.leb_le in E2.
    destruct rest as [|b1 rest]; [apply Hbad|].
    destruct ((128 <=? b1) && (b1 <=? 191)) eqn:C1; [|apply Hbad].
    apply andb_true_iff in C1. rewrite !Z.leb_le in C1.
    intros [= <- <-]. right. split; [unfold valid_rune_p; lia|]. split; [|split; [lia|discriminate]].
    rewrite encode_valid by (unfold valid_rune_p; lia). decide_cmps. cbn [firstn]. list_eq; Z.div_mod_to_equations; lia. }
  destruct ((224 <=? b) && (b <=? 239)) eqn:E3.
  { apply andb_true_iff in E3. rewrite !Z.leb_le in E3.
    destruct rest as [|b1 [|b2 rest]]; try apply Hbad.
    destruct (((if b =? 224 then 160 else 128) <=? b1) && (b1 <=? (if b =? 237 then 159 else 191))
              && ((128 <=? b2) && (b2 <=? 191))) eqn:C; [|apply Hbad].
    rewrite !andb_true_iff, !Z.leb_le in C. destruct C as ((Clo & Chi) & C2).
    intros [= <- <-]. right.
    assert (Hr : 2048 <= (b - 224) * 4096 + (b1 - 128) * 64 + (b2 - 128) < 65536 /\
                 ((b - 224) * 4096 + (b1 - 128) * 64 + (b2 - 128) < 55296 \/
                  57343 < (b - 224) * 4096 + (b1 - 128) * 64 + (b2 - 128)) /\ 128 <= b1 <= 191).
    { destruct (Z.eqb_spec b 224), (Z.eqb_spec b 237); lia. }
    split; [unfold valid_rune_p; lia|]. split; [|split; [lia|discriminate]].
    rewrite encode_valid by (unfold valid_rune_p; lia). decide_cmps. cbn [firstn].
    list_eq; Z.div_mod_to_equations; lia. }
  destruct ((240 <=? b) && (b <=? 244)) eqn:E4; [|apply Hbad].
  apply andb_true_iff in E4. rewrite !Z.leb_le in E4.
  destruct rest as [|b1 [|b2 [|b3 rest]]]; try apply Hbad.
  destruct (((if b =? 240 then 144 else 128) <=? b1) && (b1 <=? (if b =? 244 then 143 else 191))
            && ((128 <=? b2) && (b2 <=? 191)) && ((128 <=? b3) && (b3 <=? 191))) eqn:C; [|apply Hbad].
  rewrite !andb_true_iff, !Z.leb_le in C. destruct C as (((Clo & Chi) & C2) & C3).
  intros [= <- <-]. right.
  assert (Hr : 65536 <= (b - 240) * 262144 + (b1 - 128) * 4096 + (b2 - 128) * 64 + (b3 - 128) <= 1114111
               /\ 128 <= b1 <= 191).
  { destruct (Z.eqb_spec b 240), (Z.eqb_spec b 244); lia. }
  split; [unfold valid_rune_p; lia|]. split; [|split; [lia|discriminate]].
  rewrite encode_valid by (unfold valid_rune_p; lia). decide_cmps. cbn [firstn].
  list_eq; Z.div_mod_to_equations; lia.
Qed.
