(* The wire format shared by the Go harness, the extracted OCaml driver and in-kernel
   evaluation: a value is a string, an integer or a list; a line of text encodes one value.
     S<hex>      byte string (lower-case hex, possibly empty)
     I<dec>      integer, optional leading '-'
     L<n> v1..vn list of n values
   tokens are separated by one space. *)
From Verif.Base Require Import Bytes.

Inductive val := VS (s : str) | VI (z : Z) | VL (l : list val).

Definition hexdigit (n : Z) : Z := if n <? 10 then 48 + n else 87 + n.
Definition unhexdigit (c : Z) : option Z :=
  if is_digit c then Some (c - 48)
  else if (97 <=? c) && (c <=? 102) then Some (c - 87) else None.

Fixpoint hex (s : str) : str :=
  match s with
  | [] => []
  | b :: r => hexdigit (b / 16) :: hexdigit (b mod 16) :: hex r
  end.

Fixpoint unhex (s : str) : option str :=
  match s with
  | [] => Some []
  | a :: b :: r =>
      match unhexdigit a, unhexdigit b, unhex r with
      | Some x, Some y, Some t => Some (16 * x + y :: t)
      | _, _, _ => None
      end
  | _ => None
  end.

(* decimal printing of a non-negative number, fuelled by the number of binary digits *)
Fixpoint dec_pos (fuel : nat) (n : Z) (acc : str) : str :=
  match fuel with
  | O => acc
  | S f => if n <? 10 then (48 + n) :: acc else dec_pos f (n / 10) (48 + n mod 10 :: acc)
  end.

Definition dec_nonneg (n : Z) : str := dec_pos (S (Z.to_nat (Z.log2 n))) n [].
Definition dec (n : Z) : str := if n <? 0 then 45 :: dec_nonneg (- n) else dec_nonneg n.

Fixpoint undec_digits (s : str) (acc : Z) : option Z :=
  match s with
  | [] => Some acc
  | c :: r => if is_digit c then undec_digits r (10 * acc + (c - 48)) else None
  end.

Definition undec (s : str) : option Z :=
  match s with
  | [] => None
  | 45 :: r => match r with [] => None | _ => option_map Z.opp (undec_digits r 0) end
  | _ => undec_digits s 0
  end.

Fixpoint print_val (v : val) : str :=
  match v with
  | VS s => 83 :: hex s
  | VI z => 73 :: dec z
  | VL l => 76 :: dec (Z.of_nat (length l)) ++ flat_map (fun x => 32 :: print_val x) l
  end.

Fixpoint parse_val (fuel : nat) (ts : list str) : option (val * list str) :=
  match fuel with
  | O => None
  | S f =>
      match ts with
      | [] => None
      | (83 :: h) :: rest => match unhex h with Some s => Some (VS s, rest) | None => None end
      | (73 :: d) :: rest => match undec d with Some z => Some (VI z, rest) | None => None end
      | (76 :: d) :: rest =>
          match undec d with
          | Some n =>
              (fix items (k : nat) (ts : list str) (acc : list val) : option (val * list str) :=
                 match k with
                 | O => Some (VL (rev acc), ts)
                 | S k' => match parse_val f ts with
                           | Some (v, ts') => items k' ts' (v :: acc)
                           | None => None
                           end
                 end) (Z.to_nat n) rest []
          | None => None
          end
      | _ => None
      end
  end.

Definition parse_line (s : str) : option val :=
  let ts := split_on 32 s in
  match parse_val (S (length ts)) ts with
  | Some (v, []) => Some v
  | _ => None
  end.

(* Results common to all dispatchers. *)
Definition VB (b : bool) : val := VI (if b then 1 else 0).
Definition VErr (kind : String.string) : val := VL [VS (B "err"); VS (B kind)].
Arguments VErr kind%string_scope.
Definition VOk (v : val) : val := VL [VS (B "ok"); v].
Definition VPanic : val := VL [VS (B "panic")].
Definition VBadCase : val := VL [VS (B "badcase")].

(* A dispatcher maps (function name, argument value) to a result value. *)
Definition run_line (dispatch : str -> val -> val) (line : str) : str :=
  match parse_line line with
  | Some (VL [VS f; arg]) => print_val (dispatch f arg)
  | _ => print_val VBadCase
  end.

(* in-kernel evaluation: cases are (line, expected) pairs of Coq string literals *)
Definition mismatches (dispatch : str -> val -> val) (cases : list (String.string * String.string))
  : list (String.string * str) :=
  flat_map (fun c => let r := run_line dispatch (B (fst c)) in
                     if str_eqb r (B (snd c)) then [] else [(fst c, r)]) cases.
