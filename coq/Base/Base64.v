(* Go's encoding/base64.StdEncoding: EncodeToString and DecodeString (success value only).
   Model file: no proofs here (see Base64Proofs.v).

   DecodeString semantics (encoding/base64/base64.go, decodeQuantum), padded, non-strict:
   '\r' and '\n' are skipped wherever they occur (also inside and after the padding);
   the remaining characters are read in groups of four; a group is four alphabet
   characters, or - only as the last group - xx== or xxx=; anything else (a character
   outside the alphabet, '=' in the first two positions, a lone '=' in position three, a
   truncated last group, anything after the padding) is CorruptInputError.  The unused
   low bits of the last character before the padding are NOT required to be zero
   (StdEncoding is not Strict()).  Because only success/failure and the decoded bytes are
   observed, skipping the line breaks first is equivalent to skipping them on the fly. *)
From Verif.Base Require Import Bytes.

Definition pad_char : Z := 61.   (* '=' *)

(* the alphabet A-Z a-z 0-9 + / as a function of the 6-bit value *)
Definition enc_char (n : Z) : Z :=
  if n <? 26 then 65 + n
  else if n <? 52 then 71 + n
  else if n <? 62 then n - 4
  else if n =? 62 then 43 else 47.

(* enc.decodeMap: the 6-bit value of an alphabet character *)
Definition sextet (c : Z) : option Z :=
  if is_upper c then Some (c - 65)
  else if is_lower c then Some (c - 71)
  else if is_digit c then Some (c + 4)
  else if c =? 43 then Some 62
  else if c =? 47 then Some 63
  else None.

Fixpoint encode (s : str) : str :=
  match s with
  | [] => []
  | [a] => [enc_char (a / 4); enc_char ((a mod 4) * 16); pad_char; pad_char]
  | [a; b] => [enc_char (a / 4); enc_char ((a mod 4) * 16 + b / 16);
               enc_char ((b mod 16) * 4); pad_char]
  | a :: b :: c :: r =>
      enc_char (a / 4) :: enc_char ((a mod 4) * 16 + b / 16)
        :: enc_char ((b mod 16) * 4 + c / 64) :: enc_char (c mod 64) :: encode r
  end.

Definition is_crlf (c : Z) : bool := (c =? 10) || (c =? 13).

Definition is_nil (s : str) : bool := match s with [] => true | _ => false end.

(* groups of four over the input without line breaks *)
Fixpoint decode_quanta (s : str) : option str :=
  match s with
  | [] => Some []
  | a :: b :: c :: d :: r =>
      match sextet a, sextet b with
      | Some x, Some y =>
          let b0 := x * 4 + y / 16 in
          match sextet c with
          | Some z =>
              let b1 := (y mod 16) * 16 + z / 4 in
              match sextet d with
              | Some w =>
                  match decode_quanta r with
                  | Some t => Some (b0 :: b1 :: (z mod 4) * 64 + w :: t)
                  | None => None
                  end
              | None => if (d =? pad_char) && is_nil r then Some [b0; b1] else None
              end
          | None => if (c =? pad_char) && (d =? pad_char) && is_nil r then Some [b0] else None
          end
      | _, _ => None
      end
  | _ => None
  end.

Definition decode (s : str) : option str :=
  decode_quanta (filter (fun c => negb (is_crlf c)) s).

(* names that do not clash with Utf8.encode/decode *)
Definition b64_encode : str -> str := encode.
Definition b64_decode : str -> option str := decode.
