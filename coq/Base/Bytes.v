(* Byte strings as lists of Z, with the few string operations the models share. *)
From Coq Require Export List ZArith Bool Lia.
From Coq Require Strings.String Strings.Ascii Strings.Byte.
Export String.StringSyntax.
Export ListNotations.
Open Scope Z_scope.

Definition str := list Z.

(* literals: B "text" *)
Definition B (s : String.string) : str :=
  List.map (fun b => Z.of_N (Byte.to_N b)) (String.list_byte_of_string s).
Arguments B s%string_scope.

Fixpoint str_eqb (a b : str) : bool :=
  match a, b with
  | [], [] => true
  | x :: a', y :: b' => (x =? y) && str_eqb a' b'
  | _, _ => false
  end.

(* Go's string comparison: lexicographic by byte *)
Fixpoint str_cmp (a b : str) : comparison :=
  match a, b with
  | [], [] => Eq
  | [], _ :: _ => Lt
  | _ :: _, [] => Gt
  | x :: a', y :: b' =>
      match x ?= y with
      | Eq => str_cmp a' b'
      | c => c
      end
  end.

Definition str_ltb (a b : str) : bool :=
  match str_cmp a b with Lt => true | _ => false end.

Definition len (a : str) : Z := Z.of_nat (length a).

Fixpoint span (p : Z -> bool) (s : str) : str * str :=
  match s with
  | [] => ([], [])
  | c :: r => if p c then let (a, b) := span p r in (c :: a, b) else ([], s)
  end.

(* split at every occurrence of sep: split_on 46 "a.b" = ["a";"b"]; split_on _ "" = [""] *)
Fixpoint split_on (sep : Z) (s : str) : list str :=
  match s with
  | [] => [[]]
  | c :: r =>
      if c =? sep then [] :: split_on sep r
      else match split_on sep r with
           | [] => [[c]]            (* unreachable: split_on never returns [] *)
           | h :: t => (c :: h) :: t
           end
  end.

Fixpoint has_prefix (s p : str) : bool :=
  match p, s with
  | [], _ => true
  | x :: p', y :: s' => (x =? y) && has_prefix s' p'
  | _ :: _, [] => false
  end.

Definition has_suffix (s p : str) : bool := has_prefix (rev s) (rev p).

Fixpoint index_of (c : Z) (s : str) : option nat :=
  match s with
  | [] => None
  | x :: r => if x =? c then Some O else option_map S (index_of c r)
  end.

Definition contains_byte (c : Z) (s : str) : bool :=
  existsb (fun x => x =? c) s.

Definition is_digit (c : Z) : bool := (48 <=? c) && (c <=? 57).
Definition is_lower (c : Z) : bool := (97 <=? c) && (c <=? 122).
Definition is_upper (c : Z) : bool := (65 <=? c) && (c <=? 90).

Lemma str_eqb_spec a b : reflect (a = b) (str_eqb a b).
Proof.
  revert b; induction a as [|x a IH]; intros [|y b]; simpl; try (constructor; congruence).
  destruct (Z.eqb_spec x y) as [->|Hn]; simpl.
  - destruct (IH b) as [->|Hn]; constructor; congruence.
  - constructor; congruence.
Qed.

Lemma str_eqb_refl a : str_eqb a a = true.
Proof. destruct (str_eqb_spec a a); congruence. Qed.

Lemma str_eqb_eq a b : str_eqb a b = true <-> a = b.
Proof. destruct (str_eqb_spec a b); split; congruence. Qed.

Lemma str_cmp_eq a b : str_cmp a b = Eq <-> a = b.
Proof.
  revert b; induction a as [|x a IH]; intros [|y b]; simpl; split; try congruence; try reflexivity.
  - destruct (Z.compare_spec x y); try discriminate. intros H'. apply IH in H'. congruence.
  - intros [= -> ->]. rewrite Z.compare_refl. apply IH; reflexivity.
Qed.

Lemma str_cmp_antisym a b : str_cmp b a = CompOpp (str_cmp a b).
Proof.
  revert b; induction a as [|x a IH]; intros [|y b]; simpl; try reflexivity.
  rewrite (Z.compare_antisym x y). destruct (x ?= y); simpl; auto.
Qed.

Lemma str_cmp_trans c a b d :
  str_cmp a b = c -> str_cmp b d = c -> str_cmp a d = c.
Proof.
  revert b d; induction a as [|x a IH]; intros [|y b] [|z d]; simpl; intros H1 H2;
    try congruence; try (rewrite <- H1 in H2; discriminate).
  destruct (Z.compare_spec x y) as [->|Hxy|Hxy].
  - destruct (Z.compare_spec y z) as [->|Hyz|Hyz]; [eapply IH; eauto | congruence | congruence].
  - subst c. destruct (Z.compare_spec y z) as [->|Hyz|Hyz]; try congruence.
    + apply Z.compare_lt_iff in Hxy. rewrite Hxy. reflexivity.
    + assert (Hxz : x < z) by lia. apply Z.compare_lt_iff in Hxz. rewrite Hxz. reflexivity.
  - subst c. destruct (Z.compare_spec y z) as [->|Hyz|Hyz]; try congruence.
    + apply Z.compare_gt_iff in Hxy. rewrite Hxy. reflexivity.
    + assert (Hxz : z < x) by lia. apply Z.compare_gt_iff in Hxz. rewrite Hxz. reflexivity.
Qed.
