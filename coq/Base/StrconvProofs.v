(* Proofs about the strconv model: ParseInt/Atoi after FormatInt, shape of FormatInt output. *)
From Verif.Base Require Import Bytes Strconv.

Definition all_digits (s : str) : Prop := Forall (fun c => is_digit c = true) s.

(* value of a digit string read left to right, starting from acc *)
Fixpoint dval (s : str) (acc : Z) : Z :=
  match s with
  | [] => acc
  | c :: r => dval r (10 * acc + (c - 48))
  end.

Lemma dval_app s t a : dval (s ++ t) a = dval t (dval s a).
Proof. revert a; induction s as [|c s IH]; intros a; cbn [dval app]; auto. Qed.

Lemma is_digit_range c : is_digit c = true <-> 48 <= c <= 57.
Proof. unfold is_digit. rewrite andb_true_iff, !Z.leb_le. tauto. Qed.

Lemma dval_ge s a : all_digits s -> 0 <= a -> a <= dval s a.
Proof.
  intros Hs; revert a; induction Hs as [|c s Hc _ IH]; intros a Ha; cbn [dval]; [lia|].
  apply is_digit_range in Hc. specialize (IH (10 * a + (c - 48))). lia.
Qed.

Lemma parse_digits_dval s a :
  all_digits s -> 0 <= a -> dval s a <= max_uint64 -> parse_digits s a = POk (dval s a).
Proof.
  intros Hs; revert a; induction Hs as [|c s Hc Hs IH]; intros a Ha Hle; cbn [parse_digits dval] in *.
  - reflexivity.
  - rewrite Hc. apply is_digit_range in Hc.
    assert (H1 : 10 * a + (c - 48) <= dval s (10 * a + (c - 48))) by (apply dval_ge; [exact Hs | lia]).
    destruct (Z.ltb_spec max_uint64 (10 * a + (c - 48))); [lia|].
    apply IH; lia.
Qed.

(* ---- fmt_pos *)

Lemma fmt_pos_acc f : forall n acc, fmt_pos f n acc = fmt_pos f n [] ++ acc.
Proof.
  induction f as [|f IH]; intros n acc; cbn [fmt_pos]; [reflexivity|].
  destruct (n <? 10); [reflexivity|].
  rewrite (IH (n / 10) (_ :: acc)), (IH (n / 10) [_]), <- app_assoc. reflexivity.
Qed.

Lemma fmt_pos_step f n : 10 <= n ->
  fmt_pos (S f) n [] = fmt_pos f (n / 10) [] ++ [48 + n mod 10].
Proof.
  intros Hn. cbn [fmt_pos]. destruct (Z.ltb_spec n 10); [lia|]. apply fmt_pos_acc.
Qed.

Lemma fmt_pos_small f n : n < 10 -> fmt_pos (S f) n [] = [48 + n].
Proof. intros Hn. cbn [fmt_pos]. destruct (Z.ltb_spec n 10); [reflexivity|lia]. Qed.

Lemma fmt_pos_spec f : forall n, 0 <= n < 2 ^ Z.of_nat f ->
  all_digits (fmt_pos f n []) /\ dval (fmt_pos f n []) 0 = n /\
  (0 < n -> exists c r, fmt_pos f n [] = c :: r /\ c <> 48).
Proof.
  induction f as [|f IH]; intros n Hn.
  - cbn in Hn. assert (n = 0) by lia. subst n. cbn. repeat split; [constructor | lia].
  - destruct (Z.lt_ge_cases n 10) as [Hs|Hb].
    + rewrite fmt_pos_small by exact Hs. repeat split.
      * constructor; [|constructor]. apply is_digit_range. lia.
      * cbn [dval]. lia.
      * intros Hp. exists (48 + n), []. split; [reflexivity|lia].
    + rewrite fmt_pos_step by exact Hb.
      assert (Hq : 0 <= n / 10 < 2 ^ Z.of_nat f).
      { rewrite Nat2Z.inj_succ, Z.pow_succ_r in Hn by lia. Z.div_mod_to_equations. lia. }
      destruct (IH _ Hq) as (Hd & Hv & Hh). repeat split.
      * apply Forall_app. split; [exact Hd|]. constructor; [|constructor].
        apply is_digit_range. Z.div_mod_to_equations. lia.
      * rewrite dval_app, Hv. cbn [dval]. Z.div_mod_to_equations. lia.
      * intros _. destruct Hh as (c & r & -> & Hc); [Z.div_mod_to_equations; lia|].
        exists c, (r ++ [48 + n mod 10]). split; [reflexivity|exact Hc].
Qed.

Lemma format_uint_spec n : 0 <= n ->
  all_digits (format_uint n) /\ dval (format_uint n) 0 = n /\
  exists c r, format_uint n = c :: r /\ is_digit c = true /\ (0 < n -> c <> 48).
Proof.
  intros Hn. unfold format_uint.
  assert (Hb : 0 <= n < 2 ^ Z.of_nat (S (Z.to_nat (Z.log2 n)))).
  { rewrite Nat2Z.inj_succ, Z2Nat.id by apply Z.log2_nonneg.
    destruct (Z.eq_dec n 0) as [->|Hnz]; [cbn; lia|].
    split; [lia|]. apply Z.log2_spec. lia. }
  destruct (fmt_pos_spec _ _ Hb) as (Hd & Hv & Hh). split; [exact Hd|]. split; [exact Hv|].
  destruct (Z.eq_dec n 0) as [->|Hnz].
  - exists 48, []. cbn. repeat split; lia.
  - destruct Hh as (c & r & E & Hc); [lia|]. exists c, r. rewrite E in Hd |- *.
    inversion_clear Hd. repeat split; auto.
Qed.

Lemma format_uint_zero : format_uint 0 = [48].
Proof. reflexivity. Qed.

Theorem parse_uint_format_uint n : 0 <= n <= max_uint64 ->
  parse_uint64_r (format_uint n) = POk n.
Proof.
  intros Hn. destruct (format_uint_spec n) as (Hd & Hv & c & r & E & _); [lia|].
  unfold parse_uint64_r. rewrite E. rewrite <- E.
  rewrite parse_digits_dval; rewrite ?Hv; auto; lia.
Qed.

(* ---- ParseInt(FormatInt(n)) *)

Theorem parse_format_int_r n : - 2 ^ 63 <= n < 2 ^ 63 -> parse_int64_r (format_int n) = POk n.
Proof.
  intros Hn. change (2 ^ 63) with two63 in Hn. unfold format_int.
  destruct (Z.ltb_spec n 0) as [Hneg|Hpos].
  - unfold parse_int64_r. change (45 =? 45) with true. change (45 =? 43) with false.
    cbn [orb]. rewrite parse_uint_format_uint by (unfold max_uint64, two63 in *; lia).
    destruct (Z.ltb_spec two63 (- n)); [lia|]. f_equal. lia.
  - destruct (format_uint_spec n Hpos) as (_ & _ & c & r & E & Hc & _).
    pose proof (parse_uint_format_uint n) as HP. rewrite E in HP |- *.
    unfold parse_int64_r. apply is_digit_range in Hc.
    destruct (Z.eqb_spec c 45); [lia|]. destruct (Z.eqb_spec c 43); [lia|]. cbn [orb].
    rewrite HP by (unfold max_uint64, two63 in *; lia).
    destruct (Z.leb_spec two63 n); [lia|reflexivity].
Qed.

Theorem parse_format_int n : - 2 ^ 63 <= n < 2 ^ 63 -> parse_int64 (format_int n) = Some n.
Proof. intros Hn. unfold parse_int64. now rewrite parse_format_int_r. Qed.

Theorem atoi_format_int n : - 2 ^ 63 <= n < 2 ^ 63 -> atoi (format_int n) = Some n.
Proof. intros Hn. unfold atoi, atoi_r. now rewrite parse_format_int_r. Qed.

Theorem parse_uint64_format_uint n : 0 <= n < 2 ^ 64 -> parse_uint64 (format_uint n) = Some n.
Proof.
  intros Hn. unfold parse_uint64. rewrite parse_uint_format_uint; [reflexivity|].
  unfold max_uint64. lia.
Qed.

(* shape of the output: optional '-', then digits without a leading zero (except "0") *)
Theorem format_int_shape n :
  exists ds, format_int n = (if n <? 0 then [45] else []) ++ ds /\
             all_digits ds /\ ds <> [] /\ (n = 0 -> ds = [48]) /\
             (n <> 0 -> exists c r, ds = c :: r /\ c <> 48).
Proof.
  unfold format_int. destruct (Z.ltb_spec n 0) as [Hneg|Hpos].
  - destruct (format_uint_spec (- n)) as (Hd & _ & c & r & E & _ & Hc); [lia|].
    exists (format_uint (- n)). split; [reflexivity|]. split; [exact Hd|].
    split; [rewrite E; discriminate|]. split; [lia|].
    intros _. exists c, r. split; [exact E|apply Hc; lia].
  - destruct (format_uint_spec n Hpos) as (Hd & _ & c & r & E & _ & Hc).
    exists (format_uint n). split; [reflexivity|]. split; [exact Hd|].
    split; [rewrite E; discriminate|]. split; [intros ->; reflexivity|].
    intros Hnz. exists c, r. split; [exact E|apply Hc; lia].
Qed.

(* FormatInt is injective (on all of Z) *)
Theorem format_int_inj n m : format_int n = format_int m -> n = m.
Proof.
  assert (Hneg : forall k, k < 0 -> exists r, format_int k = 45 :: r /\ dval r 0 = - k).
  { intros k Hk. unfold format_int. destruct (Z.ltb_spec k 0); [|lia].
    destruct (format_uint_spec (- k)) as (_ & Hv & _); [lia|]. eauto. }
  assert (Hpos : forall k, 0 <= k -> exists c r, format_int k = c :: r /\ c <> 45 /\ dval (c :: r) 0 = k).
  { intros k Hk. unfold format_int. destruct (Z.ltb_spec k 0); [lia|].
    destruct (format_uint_spec k Hk) as (_ & Hv & c & r & E & Hc & _).
    exists c, r. rewrite <- E. apply is_digit_range in Hc. repeat split; auto; lia. }
  intros E. destruct (Z.lt_ge_cases n 0) as [Hn|Hn], (Z.lt_ge_cases m 0) as [Hm|Hm].
  - destruct (Hneg n Hn) as (r1 & E1 & V1), (Hneg m Hm) as (r2 & E2 & V2).
    rewrite E1, E2 in E. injection E as ->. lia.
  - destruct (Hneg n Hn) as (r1 & E1 & V1), (Hpos m Hm) as (c & r2 & E2 & Hc & V2).
    rewrite E1, E2 in E. injection E as <- _. lia.
  - destruct (Hpos n Hn) as (c & r1 & E1 & Hc & V1), (Hneg m Hm) as (r2 & E2 & V2).
    rewrite E1, E2 in E. injection E as -> _. lia.
  - destruct (Hpos n Hn) as (c1 & r1 & E1 & _ & V1), (Hpos m Hm) as (c2 & r2 & E2 & _ & V2).
    rewrite E1, E2 in E. rewrite E in V1. lia.
Qed.
