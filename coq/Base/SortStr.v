(* sort.Strings: sorting byte strings by Go's string order ([str_cmp], bytewise
   lexicographic).  Go guarantees only that the result is a sorted permutation of the
   input; because the order is total and antisymmetric there is exactly one such list
   ([sorted_perm_unique]), so the algorithm (Go: pdqsort, here: insertion sort) does not
   matter and stability is vacuous (equal keys are equal strings).

   Exported:
     str_leb, sort_strs, str_sorted
     sort_strs_perm, sort_strs_sorted, sorted_perm_unique, sort_strs_unique,
     sort_strs_perm_eq (Permutation l1 l2 -> sort_strs l1 = sort_strs l2),
     sort_strs_sorted_id, sort_strs_idem, sort_strs_in, sort_strs_length, sort_strs_nodup *)
From Verif.Base Require Import Bytes.
From Coq Require Import Sorting.Permutation Sorting.Sorted.

Definition str_leb (a b : str) : bool :=
  match str_cmp a b with Gt => false | _ => true end.

Fixpoint insert_str (x : str) (l : list str) : list str :=
  match l with
  | [] => [x]
  | y :: r => if str_leb x y then x :: l else y :: insert_str x r
  end.

Definition sort_strs (l : list str) : list str := fold_right insert_str [] l.

Definition str_le (a b : str) : Prop := str_leb a b = true.
Definition str_sorted (l : list str) : Prop := StronglySorted str_le l.

(* ---- the order ---- *)

Lemma str_cmp_refl a : str_cmp a a = Eq.
Proof. now apply str_cmp_eq. Qed.

Lemma str_le_refl a : str_le a a.
Proof. unfold str_le, str_leb. now rewrite str_cmp_refl. Qed.

Lemma str_le_total a b : str_le a b \/ str_le b a.
Proof.
  unfold str_le, str_leb. rewrite (str_cmp_antisym a b).
  destruct (str_cmp a b); cbn; auto.
Qed.

Lemma str_leb_false_le a b : str_leb a b = false -> str_le b a.
Proof. intros H. destruct (str_le_total a b) as [H'|H']; [unfold str_le in H'; congruence | exact H']. Qed.

Lemma str_le_antisym a b : str_le a b -> str_le b a -> a = b.
Proof.
  unfold str_le, str_leb. rewrite (str_cmp_antisym a b).
  destruct (str_cmp a b) eqn:E; cbn; try discriminate.
  intros _ _. now apply str_cmp_eq.
Qed.

Lemma str_le_trans a b c : str_le a b -> str_le b c -> str_le a c.
Proof.
  unfold str_le, str_leb.
  destruct (str_cmp a b) eqn:E1; try discriminate; intros _.
  - apply str_cmp_eq in E1. now subst.
  - destruct (str_cmp b c) eqn:E2; try discriminate; intros _.
    + apply str_cmp_eq in E2. subst. now rewrite E1.
    + now rewrite (str_cmp_trans Lt a b c E1 E2).
Qed.

(* ---- insertion sort returns a sorted permutation ---- *)

Lemma insert_str_perm x l : Permutation (insert_str x l) (x :: l).
Proof.
  induction l as [|y r IH]; cbn [insert_str]; [reflexivity|].
  destruct (str_leb x y); [reflexivity|].
  rewrite IH. apply perm_swap.
Qed.

Lemma sort_strs_perm l : Permutation (sort_strs l) l.
Proof.
  induction l as [|x l IH]; cbn [sort_strs fold_right]; [reflexivity|].
  fold (sort_strs l). rewrite insert_str_perm. now constructor.
Qed.

Lemma insert_str_sorted x l : str_sorted l -> str_sorted (insert_str x l).
Proof.
  unfold str_sorted. induction 1 as [|y r Hs IH Hall]; cbn [insert_str].
  - constructor; constructor.
  - destruct (str_leb x y) eqn:E.
    + constructor; [now constructor|].
      constructor; [exact E|].
      eapply Forall_impl; [|exact Hall]. intros z Hz. eapply str_le_trans; [exact E|exact Hz].
    + constructor; [exact IH|].
      assert (Hxr : Forall (str_le y) (x :: r))
        by (constructor; [now apply str_leb_false_le | exact Hall]).
      rewrite Forall_forall in Hxr |- *. intros z Hz. apply Hxr.
      eapply Permutation_in; [apply insert_str_perm | exact Hz].
Qed.

Lemma sort_strs_sorted l : str_sorted (sort_strs l).
Proof.
  induction l as [|x l IH]; cbn [sort_strs fold_right]; [constructor|].
  now apply insert_str_sorted.
Qed.

(* ---- uniqueness ---- *)

Lemma sorted_perm_unique l1 l2 :
  str_sorted l1 -> str_sorted l2 -> Permutation l1 l2 -> l1 = l2.
Proof.
  unfold str_sorted. intros H1; revert l2.
  induction H1 as [|x r1 Hs1 IH Hall1]; intros l2 H2 HP.
  - apply Permutation_nil in HP. now subst.
  - destruct H2 as [|y r2 Hs2 Hall2].
    + symmetry in HP. apply Permutation_nil in HP. discriminate.
    + assert (Hxy : x = y).
      { assert (Hx : In x (y :: r2)) by (eapply Permutation_in; [exact HP | now left]).
        assert (Hy : In y (x :: r1)) by (eapply Permutation_in; [symmetry; exact HP | now left]).
        destruct Hx as [->|Hx]; [reflexivity|].
        destruct Hy as [->|Hy]; [reflexivity|].
        rewrite Forall_forall in Hall1, Hall2.
        apply str_le_antisym; [now apply Hall1 | now apply Hall2]. }
      subst y. f_equal. apply IH; [exact Hs2|].
      eapply Permutation_cons_inv; exact HP.
Qed.

Lemma sort_strs_unique l l' : Permutation l l' -> str_sorted l' -> l' = sort_strs l.
Proof.
  intros HP Hs. apply sorted_perm_unique; [exact Hs | apply sort_strs_sorted|].
  rewrite sort_strs_perm. now symmetry.
Qed.

Lemma sort_strs_perm_eq l1 l2 : Permutation l1 l2 -> sort_strs l1 = sort_strs l2.
Proof.
  intros HP. apply sorted_perm_unique; try apply sort_strs_sorted.
  now rewrite !sort_strs_perm.
Qed.

Lemma sort_strs_sorted_id l : str_sorted l -> sort_strs l = l.
Proof. intros Hs. symmetry. now apply sort_strs_unique. Qed.

Lemma sort_strs_idem l : sort_strs (sort_strs l) = sort_strs l.
Proof. apply sort_strs_sorted_id, sort_strs_sorted. Qed.

Lemma sort_strs_in x l : In x (sort_strs l) <-> In x l.
Proof.
  split; apply Permutation_in; [apply sort_strs_perm | symmetry; apply sort_strs_perm].
Qed.

Lemma sort_strs_length l : length (sort_strs l) = length l.
Proof. apply Permutation_length, sort_strs_perm. Qed.

Lemma sort_strs_nodup l : NoDup l -> NoDup (sort_strs l).
Proof. apply Permutation_NoDup. symmetry. apply sort_strs_perm. Qed.

(* adjacent elements of a sorted duplicate-free list are strictly increasing *)
Lemma str_sorted_cons_inv x l : str_sorted (x :: l) -> str_sorted l /\ Forall (str_le x) l.
Proof. intros H. inversion H; subst. split; assumption. Qed.
