(* Go's unicode/utf8: DecodeRune, ValidString, range-over-string, EncodeRune.
   Modelled (exercised by the correspondence runs of the properties that use it). *)
From Verif.Base Require Import Bytes.

Definition rune_error : Z := 65533.

Definition cont (b : Z) : bool := (128 <=? b) && (b <=? 191).

(* utf8.DecodeRune on the bytes of s: (rune, width); (RuneError, 0) on empty input,
   (RuneError, 1) on an invalid or incomplete encoding *)
Definition decode (s : str) : Z * nat :=
  match s with
  | [] => (rune_error, O)
  | b0 :: r =>
      if b0 <? 128 then (b0, 1%nat)
      else if (194 <=? b0) && (b0 <=? 223) then
        match r with
        | b1 :: _ => if cont b1 then ((b0 - 192) * 64 + (b1 - 128), 2%nat) else (rune_error, 1%nat)
        | _ => (rune_error, 1%nat)
        end
      else if (224 <=? b0) && (b0 <=? 239) then
        match r with
        | b1 :: b2 :: _ =>
            let lo := if b0 =? 224 then 160 else 128 in
            let hi := if b0 =? 237 then 159 else 191 in
            if (lo <=? b1) && (b1 <=? hi) && cont b2
            then ((b0 - 224) * 4096 + (b1 - 128) * 64 + (b2 - 128), 3%nat)
            else (rune_error, 1%nat)
        | _ => (rune_error, 1%nat)
        end
      else if (240 <=? b0) && (b0 <=? 244) then
        match r with
        | b1 :: b2 :: b3 :: _ =>
            let lo := if b0 =? 240 then 144 else 128 in
            let hi := if b0 =? 244 then 143 else 191 in
            if (lo <=? b1) && (b1 <=? hi) && cont b2 && cont b3
            then ((b0 - 240) * 262144 + (b1 - 128) * 4096 + (b2 - 128) * 64 + (b3 - 128), 4%nat)
            else (rune_error, 1%nat)
        | _ => (rune_error, 1%nat)
        end
      else (rune_error, 1%nat)
  end.

(* `for _, r := range s`: the runes with their byte widths, RuneError/1 for bad bytes *)
Fixpoint runes_w (fuel : nat) (s : str) : list (Z * nat) :=
  match fuel with
  | O => []
  | S f =>
      match s with
      | [] => []
      | _ => let (r, w) := decode s in (r, w) :: runes_w f (skipn w s)
      end
  end.

Definition runes (s : str) : list Z := map fst (runes_w (length s) s).

(* utf8.ValidString *)
Definition valid (s : str) : bool :=
  forallb (fun rw => negb ((fst rw =? rune_error) && Nat.eqb (snd rw) 1)) (runes_w (length s) s).

(* utf8.EncodeRune / string(rune): invalid runes and surrogates encode as U+FFFD *)
Definition encode (r : Z) : str :=
  let r := if (r <? 0) || (1114111 <? r) || ((55296 <=? r) && (r <=? 57343)) then rune_error else r in
  if r <? 128 then [r]
  else if r <? 2048 then [192 + r / 64; 128 + r mod 64]
  else if r <? 65536 then [224 + r / 4096; 128 + (r / 64) mod 64; 128 + r mod 64]
  else [240 + r / 262144; 128 + (r / 4096) mod 64; 128 + (r / 64) mod 64; 128 + r mod 64].
