(* Structural facts about the SHA-256 model: the digest has 32 bytes, all in range. *)
From Verif.Base Require Import Bytes Sha256.

Lemma byte_of_range x k : 0 <= byte_of x k < 256.
Proof.
  unfold byte_of. change 255 with (Z.ones 8). rewrite Z.land_ones by lia.
  apply Z.mod_pos_bound. lia.
Qed.

Lemma digest_length s : length (digest s) = 32%nat.
Proof. destruct s. reflexivity. Qed.

Lemma digest_bytes s : Forall (fun b => 0 <= b < 256) (digest s).
Proof.
  destruct s. unfold digest, be32. cbn [app].
  repeat (constructor; [apply byte_of_range|]). constructor.
Qed.

Theorem sha256_length s : length (sha256 s) = 32%nat.
Proof. apply digest_length. Qed.

Theorem sha256_bytes s : Forall (fun b => 0 <= b < 256) (sha256 s).
Proof. apply digest_bytes. Qed.

Lemma trunc32_mod x : trunc32 x = x mod 2 ^ 32.
Proof. unfold trunc32, mask32. change 4294967295 with (Z.ones 32). apply Z.land_ones. lia. Qed.

Lemma trunc32_range x : 0 <= trunc32 x < 2 ^ 32.
Proof. rewrite trunc32_mod. apply Z.mod_pos_bound. lia. Qed.
