(* Go's strconv: FormatInt/Itoa (base 10), ParseUint/ParseInt/Atoi (base 10, 64 bit),
   Quote, UnquoteChar, Unquote.  Model file: no proofs here (see StrconvProofs.v).
   Validated against the Go standard library by the correspondence run of check B00. *)
From Verif.Base Require Import Bytes Utf8.
From Verif.Gen Require Import GenUnicode.

(* ---------------------------------------------------------------- integers *)

(* decimal digits of a non-negative number; the fuel (number of binary digits) always
   suffices: StrconvProofs.format_uint_spec *)
Fixpoint fmt_pos (fuel : nat) (n : Z) (acc : str) : str :=
  match fuel with
  | O => acc
  | S f => if n <? 10 then (48 + n) :: acc else fmt_pos f (n / 10) ((48 + n mod 10) :: acc)
  end.

Definition format_uint (n : Z) : str := fmt_pos (S (Z.to_nat (Z.log2 n))) n [].

(* strconv.FormatInt(n, 10), strconv.Itoa(n) *)
Definition format_int (n : Z) : str :=
  if n <? 0 then 45 :: format_uint (- n) else format_uint n.

Inductive perr := ESyntax | ERange.
Inductive pres := POk (n : Z) | PErr (e : perr).

Definition max_uint64 : Z := 18446744073709551615.
Definition two63 : Z := 9223372036854775808.

(* the digit loop of ParseUint(s, 10, 64): the first offending character decides between
   ErrSyntax and ErrRange (the loop returns at once on overflow) *)
Fixpoint parse_digits (s : str) (acc : Z) : pres :=
  match s with
  | [] => POk acc
  | c :: r =>
      if is_digit c then
        let acc' := 10 * acc + (c - 48) in
        if max_uint64 <? acc' then PErr ERange else parse_digits r acc'
      else PErr ESyntax
  end.

(* strconv.ParseUint(s, 10, 64): no sign, no underscores (base is given explicitly) *)
Definition parse_uint64_r (s : str) : pres :=
  match s with [] => PErr ESyntax | _ => parse_digits s 0 end.

(* strconv.ParseInt(s, 10, 64) *)
Definition parse_int64_r (s : str) : pres :=
  match s with
  | [] => PErr ESyntax
  | c :: r =>
      let neg := c =? 45 in
      let body := if (c =? 43) || (c =? 45) then r else s in
      match parse_uint64_r body with
      | PErr e => PErr e
      | POk un =>
          if neg then (if two63 <? un then PErr ERange else POk (- un))
          else (if two63 <=? un then PErr ERange else POk un)
      end
  end.

(* strconv.Atoi on a platform with 64-bit int: the fast path and ParseInt(s, 10, 0)
   accept the same strings with the same values and error kinds *)
Definition atoi_r (s : str) : pres := parse_int64_r s.

Definition pres_value (r : pres) : option Z := match r with POk n => Some n | PErr _ => None end.

Definition parse_uint64 (s : str) : option Z := pres_value (parse_uint64_r s).
Definition parse_int64 (s : str) : option Z := pres_value (parse_int64_r s).
Definition atoi (s : str) : option Z := pres_value (atoi_r s).

(* ---------------------------------------------------------------- Quote *)

Definition lowerhex (n : Z) : Z := if n <? 10 then 48 + n else 87 + n.

Definition valid_rune (v : Z) : bool :=
  ((0 <=? v) && (v <? 55296)) || ((57343 <? v) && (v <=? 1114111)).

(* \uXXXX resp. \UXXXXXXXX digits *)
Definition hex4 (r : Z) : str :=
  [lowerhex ((r / 4096) mod 16); lowerhex ((r / 256) mod 16); lowerhex ((r / 16) mod 16); lowerhex (r mod 16)].
Definition hex8 (r : Z) : str := hex4 ((r / 65536) mod 65536) ++ hex4 (r mod 65536).

(* appendEscapedRune(buf, r, quote, ASCIIonly=false, graphicOnly=false) *)
Definition escape_rune (q : Z) (r : Z) : str :=
  if (r =? q) || (r =? 92) then [92; r]
  else if unicode_IsPrint r then Utf8.encode r
  else if r =? 7 then [92; 97]      (* \a *)
  else if r =? 8 then [92; 98]      (* \b *)
  else if r =? 12 then [92; 102]    (* \f *)
  else if r =? 10 then [92; 110]    (* \n *)
  else if r =? 13 then [92; 114]    (* \r *)
  else if r =? 9 then [92; 116]     (* \t *)
  else if r =? 11 then [92; 118]    (* \v *)
  else if (r <? 32) || (r =? 127) then [92; 120; lowerhex ((r / 16) mod 16); lowerhex (r mod 16)]
  else if negb (valid_rune r) then 92 :: 117 :: hex4 rune_error
  else if r <? 65536 then 92 :: 117 :: hex4 r
  else 92 :: 85 :: hex8 r.

(* the loop of appendQuotedWith; [skip] counts the remaining bytes of the rune that was
   just handled (structural recursion instead of s = s[width:]) *)
Fixpoint quote_body (q : Z) (skip : nat) (s : str) : str :=
  match s with
  | [] => []
  | b0 :: rest =>
      match skip with
      | S k => quote_body q k rest
      | O =>
          let (r, w) := Utf8.decode s in
          (if Nat.eqb w 1 && (r =? rune_error)
           then [92; 120; lowerhex (b0 / 16); lowerhex (b0 mod 16)]
           else escape_rune q r) ++ quote_body q (Nat.pred w) rest
      end
  end.

Definition quote_with (q : Z) (s : str) : str := q :: quote_body q O s ++ [q].

(* strconv.Quote *)
Definition quote (s : str) : str := quote_with 34 s.

(* ---------------------------------------------------------------- Unquote *)

Definition unhex1 (c : Z) : option Z :=
  if is_digit c then Some (c - 48)
  else if (97 <=? c) && (c <=? 102) then Some (c - 87)
  else if (65 <=? c) && (c <=? 70) then Some (c - 55)
  else None.

(* exactly n hexadecimal digits at the front of s *)
Fixpoint hex_val (n : nat) (s : str) (acc : Z) : option Z :=
  match n with
  | O => Some acc
  | S n' =>
      match s with
      | [] => None
      | c :: r => match unhex1 c with Some x => hex_val n' r (acc * 16 + x) | None => None end
      end
  end.

Definition is_octal (c : Z) : bool := (48 <=? c) && (c <=? 55).

(* strconv.UnquoteChar(s, quote): the bytes that Unquote appends for the character, and
   the number of input bytes consumed (always >= 1) *)
Definition unquote_char_n (q : Z) (s : str) : option (str * nat) :=
  match s with
  | [] => None
  | c :: r =>
      if (c =? q) && ((q =? 39) || (q =? 34)) then None
      else if 128 <=? c then
        let (rn, w) := Utf8.decode s in Some (Utf8.encode rn, w)
      else if negb (c =? 92) then Some ([c], 1%nat)
      else
        match r with
        | [] => None
        | e :: t =>
            if e =? 97 then Some ([7], 2%nat)
            else if e =? 98 then Some ([8], 2%nat)
            else if e =? 102 then Some ([12], 2%nat)
            else if e =? 110 then Some ([10], 2%nat)
            else if e =? 114 then Some ([13], 2%nat)
            else if e =? 116 then Some ([9], 2%nat)
            else if e =? 118 then Some ([11], 2%nat)
            else if e =? 120 then                                   (* \xHH: one byte *)
              match hex_val 2 t 0 with Some v => Some ([v], 4%nat) | None => None end
            else if e =? 117 then                                   (* \uXXXX *)
              match hex_val 4 t 0 with
              | Some v => if valid_rune v then Some (Utf8.encode v, 6%nat) else None
              | None => None
              end
            else if e =? 85 then                                    (* \UXXXXXXXX *)
              match hex_val 8 t 0 with
              | Some v => if valid_rune v then Some (Utf8.encode v, 10%nat) else None
              | None => None
              end
            else if is_octal e then                                 (* \ooo: one byte *)
              match t with
              | o1 :: o2 :: _ =>
                  if is_octal o1 && is_octal o2 then
                    let v := ((e - 48) * 8 + (o1 - 48)) * 8 + (o2 - 48) in
                    if 255 <? v then None else Some ([v], 4%nat)
                  else None
              | _ => None
              end
            else if e =? 92 then Some ([92], 2%nat)
            else if (e =? 39) || (e =? 34) then
              (if e =? q then Some ([e], 2%nat) else None)
            else None
        end
  end.

(* the (bytes, tail) form *)
Definition unquote_char (q : Z) (s : str) : option (str * str) :=
  match unquote_char_n q s with
  | Some (bs, n) => Some (bs, skipn n s)
  | None => None
  end.

Definition is_empty (s : str) : bool := match s with [] => true | _ => false end.

(* body of a double-quoted literal up to and including the closing quote, which must be
   the last byte; [skip] as in quote_body *)
Fixpoint unquote_dq (skip : nat) (s : str) : option str :=
  match s with
  | [] => None                                   (* no terminating quote *)
  | c :: r =>
      match skip with
      | S k => unquote_dq k r
      | O =>
          if c =? 34 then (if is_empty r then Some [] else None)
          else if c =? 10 then None
          else match unquote_char_n 34 s with
               | None => None
               | Some (bs, n) =>
                   match unquote_dq (Nat.pred n) r with
                   | Some t => Some (bs ++ t)
                   | None => None
                   end
               end
      end
  end.

(* body of a single-quoted literal: at most one character, then the closing quote *)
Definition unquote_sq (s : str) : option str :=
  match s with
  | [] => None
  | c :: r =>
      if c =? 39 then (if is_empty r then Some [] else None)      (* Unquote("''") = "", nil *)
      else if c =? 10 then None
      else match unquote_char_n 39 s with
           | None => None
           | Some (bs, n) =>
               match skipn n s with
               | [c'] => if c' =? 39 then Some bs else None
               | _ => None
               end
           end
  end.

(* body of a raw literal: everything up to the first backquote, which must be the last
   byte; carriage returns are dropped *)
Fixpoint unquote_raw (s : str) : option str :=
  match s with
  | [] => None
  | c :: r =>
      if c =? 96 then (if is_empty r then Some [] else None)
      else match unquote_raw r with
           | Some t => Some (if c =? 13 then t else c :: t)
           | None => None
           end
  end.

(* strconv.Unquote.  (The fast path of unquote for literals without backslash and newline
   returns what the general path returns, so only the general path is modelled.) *)
Definition unquote (s : str) : option str :=
  match s with
  | [] => None
  | q :: body =>
      if q =? 96 then unquote_raw body
      else if q =? 34 then unquote_dq O body
      else if q =? 39 then unquote_sq body
      else None
  end.
