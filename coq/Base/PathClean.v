(* Go's package path on slash-separated paths (path.Clean, Split, Dir, Base, IsAbs) and
   path/filepath.Join / Dir as they behave on linux (Separator '/', no volume names:
   filepath.Clean = path.Clean, Join = Clean of the "/"-join starting at the first
   non-empty element).  Definitions only; lemmas are in Zip/ProofsPath.v.

   path.Clean is written in the source as a byte loop over a lazily allocated buffer; the
   model processes the '/'-separated elements with a stack, which is the same function
   (rules 1-4 of the documentation of path.Clean); the correspondence run compares the two
   on generated paths (functions "path.Clean", "path.Split", "path.Dir", "path.Base",
   "filepath.Join" of Zip/DispatchZip.v).

   Exported: is_nil_s, dot, dotdot, join_slash, clean_stack, path_clean, path_split,
   path_dir, path_base, path_is_abs, filepath_join, filepath_dir, strip_trailing_slashes,
   slash_prefixes. *)
From Verif.Base Require Import Bytes.

Definition is_nil_s (s : str) : bool := match s with [] => true | _ => false end.

Definition dot : str := [46].
Definition dotdot : str := [46; 46].

(* strings.Join(elems, "/") *)
Fixpoint join_slash (elems : list str) : str :=
  match elems with
  | [] => []
  | [e] => e
  | e :: r => e ++ 47 :: join_slash r
  end.

(* The element stack of path.Clean, top first.  In an unrooted path a ".." that cannot be
   cancelled is pushed (and is never popped: `dotdot = out.w`); in a rooted path it is
   dropped.  A ".." on top of the stack therefore means "nothing left to cancel". *)
Fixpoint clean_stack (rooted : bool) (elems : list str) (st : list str) : list str :=
  match elems with
  | [] => st
  | e :: r =>
      if is_nil_s e || str_eqb e dot then clean_stack rooted r st
      else if str_eqb e dotdot then
        match st with
        | top :: st' =>
            if str_eqb top dotdot then clean_stack rooted r (dotdot :: st)
            else clean_stack rooted r st'
        | [] => if rooted then clean_stack rooted r [] else clean_stack rooted r [dotdot]
        end
      else clean_stack rooted r (e :: st)
  end.

(* path.Clean *)
Definition path_clean (p : str) : str :=
  match p with
  | [] => dot
  | c :: _ =>
      let rooted := c =? 47 in
      let body := join_slash (rev (clean_stack rooted (split_on 47 p) [])) in
      if rooted then 47 :: body
      else if is_nil_s body then dot else body
  end.

(* path.Split: (path[:i+1], path[i+1:]) for the last '/' at i; ("", path) if there is none *)
Definition path_split (p : str) : str * str :=
  let (base_rev, dir_rev) := span (fun c => negb (c =? 47)) (rev p) in
  (rev dir_rev, rev base_rev).

(* path.Dir *)
Definition path_dir (p : str) : str := path_clean (fst (path_split p)).

Fixpoint drop_slashes (s : str) : str :=
  match s with
  | 47 :: r => drop_slashes r
  | _ => s
  end.

Definition strip_trailing_slashes (p : str) : str := rev (drop_slashes (rev p)).

(* path.Base *)
Definition path_base (p : str) : str :=
  match p with
  | [] => dot
  | _ =>
      let b := snd (path_split (strip_trailing_slashes p)) in
      if is_nil_s b then [47] else b
  end.

(* path.IsAbs *)
Definition path_is_abs (p : str) : bool :=
  match p with 47 :: _ => true | _ => false end.

(* filepath.Join(a, b) on linux *)
Definition filepath_join (a b : str) : str :=
  if negb (is_nil_s a) then path_clean (a ++ 47 :: b)
  else if negb (is_nil_s b) then path_clean b
  else [].

(* filepath.Dir on linux: Clean(path[:i+1]) for the last separator at i *)
Definition filepath_dir (p : str) : str := path_dir p.

(* all prefixes of p that end in '/', shortest first *)
Fixpoint slash_prefixes_aux (acc_rev : str) (s : str) : list str :=
  match s with
  | [] => []
  | c :: r =>
      let acc' := c :: acc_rev in
      if c =? 47 then rev acc' :: slash_prefixes_aux acc' r
      else slash_prefixes_aux acc' r
  end.

Definition slash_prefixes (p : str) : list str := slash_prefixes_aux [] p.
