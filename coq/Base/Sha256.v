(* Executable SHA-256 (FIPS 180-4) over byte strings, = Go's crypto/sha256.Sum256.
   Words are Z in [0, 2^32); truncation is [Z.land _ (2^32-1)] (= mod 2^32).
   Model file: no proofs here (see Sha256Proofs.v).  Validated against crypto/sha256 by
   the correspondence run of check B00. *)
From Verif.Base Require Import Bytes.

Definition mask32 : Z := 0xffffffff.
Definition trunc32 (x : Z) : Z := Z.land x mask32.

Definition rotr (n : Z) (x : Z) : Z :=
  Z.lor (Z.shiftr x n) (trunc32 (Z.shiftl x (32 - n))).

Definition big_sigma0 (a : Z) : Z := Z.lxor (Z.lxor (rotr 2 a) (rotr 13 a)) (rotr 22 a).
Definition big_sigma1 (e : Z) : Z := Z.lxor (Z.lxor (rotr 6 e) (rotr 11 e)) (rotr 25 e).
Definition small_sigma0 (x : Z) : Z := Z.lxor (Z.lxor (rotr 7 x) (rotr 18 x)) (Z.shiftr x 3).
Definition small_sigma1 (x : Z) : Z := Z.lxor (Z.lxor (rotr 17 x) (rotr 19 x)) (Z.shiftr x 10).
(* (e and f) xor (not e and g) *)
Definition ch (e f g : Z) : Z := Z.lxor (Z.land e f) (Z.ldiff g e).
Definition maj (a b c : Z) : Z := Z.lxor (Z.lxor (Z.land a b) (Z.land a c)) (Z.land b c).

Definition K256 : list Z := [
  0x428a2f98; 0x71374491; 0xb5c0fbcf; 0xe9b5dba5; 0x3956c25b; 0x59f111f1; 0x923f82a4; 0xab1c5ed5;
  0xd807aa98; 0x12835b01; 0x243185be; 0x550c7dc3; 0x72be5d74; 0x80deb1fe; 0x9bdc06a7; 0xc19bf174;
  0xe49b69c1; 0xefbe4786; 0x0fc19dc6; 0x240ca1cc; 0x2de92c6f; 0x4a7484aa; 0x5cb0a9dc; 0x76f988da;
  0x983e5152; 0xa831c66d; 0xb00327c8; 0xbf597fc7; 0xc6e00bf3; 0xd5a79147; 0x06ca6351; 0x14292967;
  0x27b70a85; 0x2e1b2138; 0x4d2c6dfc; 0x53380d13; 0x650a7354; 0x766a0abb; 0x81c2c92e; 0x92722c85;
  0xa2bfe8a1; 0xa81a664b; 0xc24b8b70; 0xc76c51a3; 0xd192e819; 0xd6990624; 0xf40e3585; 0x106aa070;
  0x19a4c116; 0x1e376c08; 0x2748774c; 0x34b0bcb5; 0x391c0cb3; 0x4ed8aa4a; 0x5b9cca4f; 0x682e6ff3;
  0x748f82ee; 0x78a5636f; 0x84c87814; 0x8cc70208; 0x90befffa; 0xa4506ceb; 0xbef9a3f7; 0xc67178f2 ].

Inductive st8 := St8 (a b c d e f g h : Z).

Definition H0 : st8 :=
  St8 0x6a09e667 0xbb67ae85 0x3c6ef372 0xa54ff53a 0x510e527f 0x9b05688c 0x1f83d9ab 0x5be0cd19.

Definition round (s : st8) (k w : Z) : st8 :=
  let '(St8 a b c d e f g h) := s in
  let t1 := h + big_sigma1 e + ch e f g + k + w in
  let t2 := big_sigma0 a + maj a b c in
  St8 (trunc32 (t1 + t2)) a b c (trunc32 (d + t1)) e f g.

(* 64 rounds by structural recursion over the round constants; [w] is the sliding window
   W[t..t+15] of the message schedule *)
Fixpoint rounds (ks : list Z) (w : list Z) (s : st8) : st8 :=
  match ks with
  | [] => s
  | k :: ks' =>
      match w with
      | w0 :: w1 :: w2 :: w3 :: w4 :: w5 :: w6 :: w7 :: w8 :: w9 :: w10 :: w11 :: w12
           :: w13 :: w14 :: w15 :: _ =>
          let nw := trunc32 (small_sigma1 w14 + w9 + small_sigma0 w1 + w0) in
          rounds ks' [w1; w2; w3; w4; w5; w6; w7; w8; w9; w10; w11; w12; w13; w14; w15; nw]
                 (round s k w0)
      | _ => s   (* unreachable: the window always has 16 words *)
      end
  end.

Definition compress (s : st8) (w : list Z) : st8 :=
  let '(St8 a b c d e f g h) := s in
  let '(St8 a' b' c' d' e' f' g' h') := rounds K256 w s in
  St8 (trunc32 (a + a')) (trunc32 (b + b')) (trunc32 (c + c')) (trunc32 (d + d'))
      (trunc32 (e + e')) (trunc32 (f + f')) (trunc32 (g + g')) (trunc32 (h + h')).

(* big-endian 32-bit words of a byte string whose length is a multiple of 4 *)
Fixpoint words (s : str) : list Z :=
  match s with
  | a :: b :: c :: d :: r => (((a * 256 + b) * 256 + c) * 256 + d) :: words r
  | _ => []
  end.

Fixpoint process (ws : list Z) (s : st8) : st8 :=
  match ws with
  | w0 :: w1 :: w2 :: w3 :: w4 :: w5 :: w6 :: w7 :: w8 :: w9 :: w10 :: w11 :: w12
       :: w13 :: w14 :: w15 :: r =>
      process r (compress s [w0; w1; w2; w3; w4; w5; w6; w7; w8; w9; w10; w11; w12; w13; w14; w15])
  | _ => s
  end.

Definition byte_of (x : Z) (shift : Z) : Z := Z.land (Z.shiftr x shift) 255.

Definition be32 (x : Z) : str := [byte_of x 24; byte_of x 16; byte_of x 8; byte_of x 0].
Definition be64 (x : Z) : str :=
  [byte_of x 56; byte_of x 48; byte_of x 40; byte_of x 32;
   byte_of x 24; byte_of x 16; byte_of x 8; byte_of x 0].

(* message || 0x80 || 0x00* || 64-bit big-endian bit length, a multiple of 64 bytes *)
Definition pad (s : str) : str :=
  let n := len s in
  s ++ 128 :: repeat 0 (Z.to_nat ((55 - n) mod 64)) ++ be64 (8 * n).

Definition digest (s : st8) : str :=
  let '(St8 a b c d e f g h) := s in
  be32 a ++ be32 b ++ be32 c ++ be32 d ++ be32 e ++ be32 f ++ be32 g ++ be32 h.

Definition sha256 (s : str) : str := digest (process (words (pad s)) H0).
