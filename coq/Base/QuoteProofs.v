(* strconv.Unquote(strconv.Quote(s)) = s for every byte string s (valid UTF-8 or not). *)
From Verif.Base Require Import Bytes Utf8 Strconv Utf8Proofs.
From Verif.Gen Require Import GenUnicode.

Definition byte (b : Z) : Prop := 0 <= b < 256.

(* ---- hexadecimal digits *)

Lemma unhex1_lowerhex x : 0 <= x < 16 -> unhex1 (lowerhex x) = Some x.
Proof.
  intros Hx. unfold lowerhex. destruct (Z.ltb_spec x 10); unfold unhex1, is_digit;
    decide_cmps; f_equal; lia.
Qed.

Lemma hex_val_cons n x tail acc : 0 <= x < 16 ->
  hex_val (S n) (lowerhex x :: tail) acc = hex_val n tail (acc * 16 + x).
Proof. intros Hx. cbn [hex_val]. now rewrite unhex1_lowerhex. Qed.

Lemma hex_val_hex4 r tail acc : 0 <= r < 65536 ->
  hex_val 4 (hex4 r ++ tail) acc = Some (acc * 65536 + r).
Proof.
  intros Hr. unfold hex4. cbn [app].
  rewrite !hex_val_cons by (apply Z.mod_pos_bound; lia). cbn [hex_val]. f_equal.
  Z.div_mod_to_equations. lia.
Qed.

Lemma hex_val_hex8 r tail : 0 <= r < 4294967296 -> hex_val 8 (hex8 r ++ tail) 0 = Some r.
Proof.
  intros Hr. unfold hex8, hex4. rewrite <- app_assoc. cbn [app].
  rewrite !hex_val_cons by (apply Z.mod_pos_bound; lia). cbn [hex_val]. f_equal.
  Z.div_mod_to_equations. lia.
Qed.

(* ---- unicode.IsPrint on ASCII *)

Lemma isprint_ascii r : 0 <= r < 128 -> unicode_IsPrint r = true -> 32 <= r <= 126.
Proof.
  intros Hr Hp.
  assert (H : forallb (fun n => implb (unicode_IsPrint (Z.of_nat n))
                                  ((32 <=? Z.of_nat n) && (Z.of_nat n <=? 126))) (seq 0 128) = true)
    by (vm_compute; reflexivity).
  rewrite forallb_forall in H. specialize (H (Z.to_nat r)).
  rewrite Z2Nat.id in H by lia. rewrite Hp in H. cbn [implb] in H.
  assert (Hin : In (Z.to_nat r) (seq 0 128)) by (apply in_seq; lia).
  apply H in Hin. apply andb_true_iff in Hin. rewrite !Z.leb_le in Hin. exact Hin.
Qed.

Lemma valid_rune_iff r : valid_rune r = true <-> valid_rune_p r.
Proof.
  unfold valid_rune, valid_rune_p.
  rewrite orb_true_iff, !andb_true_iff, !Z.leb_le, !Z.ltb_lt. tauto.
Qed.

(* ---- the skip counters *)

Lemma unquote_dq_skip x tail : unquote_dq (length x) (x ++ tail) = unquote_dq O tail.
Proof. induction x as [|c x IH]; [reflexivity|]. cbn [length app unquote_dq]. exact IH. Qed.

Lemma quote_body_skip q s : forall k, quote_body q k s = quote_body q O (skipn k s).
Proof.
  induction s as [|b r IH]; intros k.
  - destruct k; reflexivity.
  - destruct k as [|k]; [reflexivity|]. cbn [quote_body skipn]. apply IH.
Qed.

(* one escaped character in front of the rest of a double-quoted body *)
Lemma dq_piece c p tail bs :
  c <> 34 -> c <> 10 ->
  unquote_char_n 34 (c :: p ++ tail) = Some (bs, S (length p)) ->
  unquote_dq O ((c :: p) ++ tail) =
  match unquote_dq O tail with Some t => Some (bs ++ t) | None => None end.
Proof.
  intros H34 H10 Hu. cbn [app unquote_dq].
  destruct (Z.eqb_spec c 34); [contradiction|]. destruct (Z.eqb_spec c 10); [contradiction|].
  rewrite Hu. cbn [Nat.pred]. now rewrite unquote_dq_skip.
Qed.

Lemma uq_x t : unquote_char_n 34 (92 :: 120 :: t) =
  match hex_val 2 t 0 with Some v => Some ([v], 4%nat) | None => None end.
Proof. reflexivity. Qed.

Lemma uq_u t : unquote_char_n 34 (92 :: 117 :: t) =
  match hex_val 4 t 0 with
  | Some v => if valid_rune v then Some (Utf8.encode v, 6%nat) else None
  | None => None
  end.
Proof. reflexivity. Qed.

Lemma uq_U t : unquote_char_n 34 (92 :: 85 :: t) =
  match hex_val 8 t 0 with
  | Some v => if valid_rune v then Some (Utf8.encode v, 10%nat) else None
  | None => None
  end.
Proof. reflexivity. Qed.

(* \xHH gives back the byte *)
Lemma dq_hex_byte b tail : byte b ->
  unquote_dq O ([92; 120; lowerhex (b / 16); lowerhex (b mod 16)] ++ tail) =
  match unquote_dq O tail with Some t => Some ([b] ++ t) | None => None end.
Proof.
  intros Hb. unfold byte in Hb.
  apply (dq_piece 92 [120; lowerhex (b / 16); lowerhex (b mod 16)]); try lia.
  cbn [app]. rewrite uq_x.
  rewrite !hex_val_cons by (Z.div_mod_to_equations; lia). cbn [hex_val length].
  do 3 f_equal. Z.div_mod_to_equations. lia.
Qed.

Lemma dq_simple e v tail :
  unquote_char_n 34 (92 :: e :: tail) = Some ([v], 2%nat) ->
  unquote_dq O ([92; e] ++ tail) =
  match unquote_dq O tail with Some t => Some ([v] ++ t) | None => None end.
Proof. intros H. apply (dq_piece 92 [e]); try lia. exact H. Qed.

(* every escaped rune is read back as its UTF-8 encoding *)
Lemma escape_ok rn tail : valid_rune_p rn ->
  unquote_dq O (escape_rune 34 rn ++ tail) =
  match unquote_dq O tail with Some t => Some (Utf8.encode rn ++ t) | None => None end.
Proof.
  intros Hv. unfold escape_rune.
  destruct (Z.eqb_spec rn 34) as [->|N34]; [apply (dq_simple 34 34); reflexivity|].
  destruct (Z.eqb_spec rn 92) as [->|N92]; [apply (dq_simple 92 92); reflexivity|].
  cbn [orb].
  destruct (unicode_IsPrint rn) eqn:HP.
  { destruct (Z.lt_ge_cases rn 128) as [Hs|Hl].
    - assert (H0 : 0 <= rn) by (destruct Hv; lia).
      pose proof (isprint_ascii rn (conj H0 Hs) HP) as Hr.
      rewrite encode_ascii by lia.
      apply (dq_piece rn []); try lia. cbn [app length]. unfold unquote_char_n.
      decide_cmps. reflexivity.
    - destruct (encode_first_byte rn Hv Hl) as (b0 & rest & E & Hb0).
      pose proof (decode_encode rn tail Hv) as HD. rewrite E in HD |- *.
      apply (dq_piece b0 rest); try lia.
      unfold unquote_char_n. decide_cmps. cbn [app] in HD. rewrite HD, E. reflexivity. }
  destruct (Z.eqb_spec rn 7) as [->|N7]; [apply (dq_simple 97 7); reflexivity|].
  destruct (Z.eqb_spec rn 8) as [->|N8]; [apply (dq_simple 98 8); reflexivity|].
  destruct (Z.eqb_spec rn 12) as [->|N12]; [apply (dq_simple 102 12); reflexivity|].
  destruct (Z.eqb_spec rn 10) as [->|N10]; [apply (dq_simple 110 10); reflexivity|].
  destruct (Z.eqb_spec rn 13) as [->|N13]; [apply (dq_simple 114 13); reflexivity|].
  destruct (Z.eqb_spec rn 9) as [->|N9]; [apply (dq_simple 116 9); reflexivity|].
  destruct (Z.eqb_spec rn 11) as [->|N11]; [apply (dq_simple 118 11); reflexivity|].
  destruct ((rn <? 32) || (rn =? 127)) eqn:Hc.
  { assert (Hr : 0 <= rn < 128).
    { apply orb_true_iff in Hc. rewrite Z.ltb_lt, Z.eqb_eq in Hc. destruct Hv; lia. }
    rewrite encode_ascii by exact Hr.
    replace ((rn / 16) mod 16) with (rn / 16) by (Z.div_mod_to_equations; lia).
    replace (rn mod 16) with (rn mod 16) by reflexivity.
    apply dq_hex_byte. unfold byte. lia. }
  apply orb_false_iff in Hc. rewrite Z.ltb_ge, Z.eqb_neq in Hc.
  rewrite (proj2 (valid_rune_iff rn) Hv). cbn [negb].
  destruct (Z.ltb_spec rn 65536) as [H16|H16].
  - change (92 :: 117 :: hex4 rn) with ([92; 117] ++ hex4 rn).
    apply (dq_piece 92 (117 :: hex4 rn)); try lia.
    cbn [app]. rewrite uq_u, hex_val_hex4 by lia. cbn [Z.mul Z.add].
    rewrite (proj2 (valid_rune_iff rn) Hv). reflexivity.
  - change (92 :: 85 :: hex8 rn) with ([92; 85] ++ hex8 rn).
    apply (dq_piece 92 (85 :: hex8 rn)); try lia.
    cbn [app]. rewrite uq_U, hex_val_hex8 by (destruct Hv; lia).
    rewrite (proj2 (valid_rune_iff rn) Hv). reflexivity.
Qed.

Lemma Forall_skipn_byte k (s : str) : Forall byte s -> Forall byte (skipn k s).
Proof.
  revert s; induction k as [|k IH]; intros s Hs; [exact Hs|].
  destruct s; [constructor|]. inversion_clear Hs. cbn [skipn]. auto.
Qed.

Lemma unquote_quote_body n : forall s, (length s <= n)%nat -> Forall byte s ->
  unquote_dq O (quote_body 34 O s ++ [34]) = Some s.
Proof.
  induction n as [|n IH]; intros s Hl Hs.
  - destruct s; [reflexivity | cbn in Hl; lia].
  - destruct s as [|b rest]; [reflexivity|].
    inversion Hs as [|? ? Hb Hrest]; subst.
    cbn [quote_body]. destruct (Utf8.decode (b :: rest)) as [rn w] eqn:D.
    destruct (decode_step b rest rn w Hb D) as [(-> & -> & Hb128) | (Hv & He & Hw & Hne)].
    + cbn [Nat.eqb andb Nat.pred]. rewrite Z.eqb_refl. rewrite <- app_assoc.
      rewrite dq_hex_byte by exact Hb. rewrite IH; [reflexivity | cbn in Hl; lia | exact Hrest].
    + assert (Ht : Nat.eqb w 1 && (rn =? rune_error) = false).
      { destruct (Nat.eqb_spec w 1) as [->|]; [|reflexivity].
        cbn [andb]. apply Z.eqb_neq. auto. }
      rewrite Ht. rewrite <- app_assoc. rewrite escape_ok by exact Hv.
      rewrite quote_body_skip. rewrite IH.
      * rewrite He. destruct w as [|w]; [lia|]. cbn [Nat.pred].
        change (skipn w rest) with (skipn (S w) (b :: rest)). now rewrite firstn_skipn.
      * rewrite skipn_length. cbn in Hl. lia.
      * apply Forall_skipn_byte. exact Hrest.
Qed.

Theorem unquote_quote s : Forall byte s -> unquote (quote s) = Some s.
Proof.
  intros Hs. unfold quote, quote_with, unquote. cbn [Z.eqb Pos.eqb].
  apply (unquote_quote_body (length s)); [lia | exact Hs].
Qed.

(* ---- shape of Quote's output, as a lexer for double-quoted strings sees it: plain
   characters other than backslash, double quote and newline, and backslash followed by
   one character other than newline.  (modfile's lexer skips the character after a
   backslash and stops at the first other double quote.) *)

Inductive dq_safe : str -> Prop :=
| dqs_nil : dq_safe []
| dqs_plain c r : c <> 92 -> c <> 34 -> c <> 10 -> dq_safe r -> dq_safe (c :: r)
| dqs_esc e r : e <> 10 -> dq_safe r -> dq_safe (92 :: e :: r).

Lemma dq_safe_app a b : dq_safe a -> dq_safe b -> dq_safe (a ++ b).
Proof. induction 1; intros Hb; cbn [app]; [exact Hb | apply dqs_plain; auto | apply dqs_esc; auto]. Qed.

Definition plain (c : Z) : Prop := c <> 92 /\ c <> 34 /\ c <> 10.

Lemma dq_safe_plain l : Forall plain l -> dq_safe l.
Proof. induction 1 as [|c l (H1 & H2 & H3) _ IH]; [constructor | apply dqs_plain; auto]. Qed.

Lemma lowerhex_plain x : 0 <= x < 16 -> plain (lowerhex x).
Proof. intros Hx. unfold lowerhex, plain. destruct (Z.ltb_spec x 10); lia. Qed.

Lemma hex4_plain r : Forall plain (hex4 r).
Proof. unfold hex4. repeat constructor; try (apply lowerhex_plain, Z.mod_pos_bound; lia). Qed.

Lemma hex8_plain r : Forall plain (hex8 r).
Proof. unfold hex8. apply Forall_app. split; apply hex4_plain. Qed.

Lemma encode_high_bytes r : valid_rune_p r -> 128 <= r -> Forall (fun b => 128 <= b) (Utf8.encode r).
Proof.
  intros Hv Hr. destruct (encode_cases r Hv) as
    [(H & _) | [(H & b0 & b1 & -> & ?) | [(H & b0 & b1 & b2 & -> & ?)
    | (H & b0 & b1 & b2 & b3 & -> & ?)]]]; [lia| | |]; repeat constructor; lia.
Qed.

Lemma escape_safe rn : valid_rune_p rn -> dq_safe (escape_rune 34 rn).
Proof.
  intros Hv. unfold escape_rune.
  destruct (Z.eqb_spec rn 34) as [->|N34]; [apply dqs_esc; [lia|constructor]|].
  destruct (Z.eqb_spec rn 92) as [->|N92]; [apply dqs_esc; [lia|constructor]|].
  cbn [orb].
  destruct (unicode_IsPrint rn) eqn:HP.
  { apply dq_safe_plain. destruct (Z.lt_ge_cases rn 128) as [Hs|Hl].
    - assert (H0 : 0 <= rn) by (destruct Hv; lia).
      pose proof (isprint_ascii rn (conj H0 Hs) HP) as Hr.
      rewrite encode_ascii by lia. repeat constructor; lia.
    - eapply Forall_impl; [|apply encode_high_bytes; assumption].
      intros b Hb. unfold plain. cbn beta in Hb. lia. }
  repeat match goal with
         | |- dq_safe (if ?x =? ?y then _ else _) =>
             destruct (Z.eqb_spec x y); [apply dqs_esc; [lia|constructor]|]
         end.
  destruct ((rn <? 32) || (rn =? 127)).
  { apply dqs_esc; [lia|]. apply dq_safe_plain.
    repeat constructor; apply lowerhex_plain, Z.mod_pos_bound; lia. }
  rewrite (proj2 (valid_rune_iff rn) Hv). cbn [negb].
  destruct (rn <? 65536); (apply dqs_esc; [lia|]); apply dq_safe_plain;
    [apply hex4_plain | apply hex8_plain].
Qed.

Lemma quote_body_safe n : forall s, (length s <= n)%nat -> Forall byte s -> dq_safe (quote_body 34 O s).
Proof.
  induction n as [|n IH]; intros s Hl Hs.
  - destruct s; [constructor | cbn in Hl; lia].
  - destruct s as [|b rest]; [constructor|].
    inversion Hs as [|? ? Hb Hrest]; subst.
    cbn [quote_body]. destruct (Utf8.decode (b :: rest)) as [rn w] eqn:D.
    destruct (decode_step b rest rn w Hb D) as [(-> & -> & Hb128) | (Hv & He & Hw & Hne)].
    + cbn [Nat.eqb andb Nat.pred]. rewrite Z.eqb_refl. unfold byte in Hb.
      apply (dqs_esc 120); [lia|]. apply dqs_plain; try (apply lowerhex_plain; Z.div_mod_to_equations; lia).
      apply dqs_plain; try (apply lowerhex_plain; Z.div_mod_to_equations; lia).
      apply IH; [cbn in Hl; lia | exact Hrest].
    + assert (Ht : Nat.eqb w 1 && (rn =? rune_error) = false).
      { destruct (Nat.eqb_spec w 1) as [->|]; [|reflexivity].
        cbn [andb]. apply Z.eqb_neq. auto. }
      rewrite Ht. apply dq_safe_app; [apply escape_safe; exact Hv|].
      rewrite quote_body_skip. apply IH.
      * rewrite skipn_length. cbn in Hl. lia.
      * apply Forall_skipn_byte. exact Hrest.
Qed.

(* Quote(s) = '"' body '"' where the body is dq_safe *)
Theorem quote_shape s : Forall byte s ->
  exists body, quote s = 34 :: body ++ [34] /\ dq_safe body.
Proof.
  intros Hs. exists (quote_body 34 O s). split; [reflexivity|].
  apply (quote_body_safe (length s)); [lia | exact Hs].
Qed.
