(* Wire dispatcher for the shared base libraries (function names "base.*").
   Other groups' dispatchers fall through to [dispatch_base]. *)
From Verif.Base Require Import Bytes Wire Utf8 Base64 Sha256 Strconv.

Definition pres_val (r : pres) : val :=
  match r with
  | POk n => VOk (VI n)
  | PErr ESyntax => VErr "syntax"
  | PErr ERange => VErr "range"
  end.

Definition opt_str_val (r : option str) : val :=
  match r with Some s => VOk (VS s) | None => VErr "syntax" end.

Definition dispatch_base (f : str) (a : val) : option val :=
  match a with
  | VS s =>
      if str_eqb f (B "base.Sha256") then Some (VS (sha256 s))
      else if str_eqb f (B "base.B64Enc") then Some (VS (Base64.encode s))
      else if str_eqb f (B "base.B64Dec") then Some (opt_str_val (Base64.decode s))
      else if str_eqb f (B "base.ParseInt64") then Some (pres_val (parse_int64_r s))
      else if str_eqb f (B "base.ParseUint64") then Some (pres_val (parse_uint64_r s))
      else if str_eqb f (B "base.Atoi") then Some (pres_val (atoi_r s))
      else if str_eqb f (B "base.Quote") then Some (VS (quote s))
      else if str_eqb f (B "base.Unquote") then Some (opt_str_val (unquote s))
      else if str_eqb f (B "base.Utf8Valid") then Some (VB (Utf8.valid s))
      else if str_eqb f (B "base.Utf8Runes") then Some (VL (List.map VI (Utf8.runes s)))
      else None
  | VI n =>
      if str_eqb f (B "base.FormatInt") then Some (VS (format_int n))
      else if str_eqb f (B "base.Utf8Encode") then Some (VS (Utf8.encode n))
      else None
  | _ => None
  end.

Definition dispatch (f : str) (a : val) : val :=
  match dispatch_base f a with Some v => v | None => VBadCase end.
