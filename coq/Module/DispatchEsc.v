(* Wire dispatcher for the escaping (C11) and pseudo-version (C18) models. *)
From Verif.Base Require Import Bytes Wire.
From Verif.Module Require Import Escape Pseudo.

Definition on_str (a : val) (k : str -> val) : val :=
  match a with VS s => k s | _ => VBadCase end.

Definition enc_esc (r : esc_res) : val :=
  match r with
  | EOk s => VOk (VS s)
  | EErr EInvalid => VErr "invalid"
  | EErr EInternal => VErr "internal"
  end.

(* error kinds 1 and 2 of PseudoVersionBase are one class: the implementation's two
   errors differ only in their message text *)
Definition enc_pres (r : pres str) : val :=
  match r with
  | POk s => VOk (VS s)
  | PErr k => if k =? 0 then VErr "syntax" else if k =? 3 then VErr "time" else VErr "base"
  | PPanic => VPanic
  end.

Definition dispatch (f : str) (a : val) : val :=
  if str_eqb f (B "EscapePath") then on_str a (fun s => enc_esc (escape_path s))
  else if str_eqb f (B "EscapeVersion") then on_str a (fun s => enc_esc (escape_version s))
  else if str_eqb f (B "UnescapePath") then on_str a (fun s => enc_esc (unescape_path s))
  else if str_eqb f (B "UnescapeVersion") then on_str a (fun s => enc_esc (unescape_version s))
  else if str_eqb f (B "PseudoVersion") then
    match a with
    | VL [VS major; VS older; VS ts; VS rv] =>
        match pseudo_version major older ts rv with Some s => VOk (VS s) | None => VPanic end
    | _ => VBadCase
    end
  else if str_eqb f (B "IsPseudoVersion") then on_str a (fun v => VB (is_pseudo_version v))
  else if str_eqb f (B "IsZeroPseudoVersion") then on_str a (fun v => VB (is_zero_pseudo_version v))
  else if str_eqb f (B "PseudoVersionBase") then on_str a (fun v => enc_pres (pseudo_version_base v))
  else if str_eqb f (B "PseudoVersionRev") then on_str a (fun v => enc_pres (pseudo_version_rev v))
  else if str_eqb f (B "PseudoVersionTime") then on_str a (fun v => enc_pres (pseudo_version_ts v))
  else VBadCase.
