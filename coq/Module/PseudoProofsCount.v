(* The test strings.Count(v, "-") >= 2 in IsPseudoVersion is implied by the regular
   expression: every string the recogniser accepts contains two '-'.  (So a change of that
   test to ">= 1" or its removal is not observable; it is a fast path only.) *)
From Verif.Base Require Import Bytes.
From Verif.Semver Require Import Model ProofsStr.
From Verif.Module Require Import Pseudo PseudoProofsStr PseudoProofsRe.

(* case analysis on a byte against a literal pattern: leaves only the literal itself *)
Ltac zlit c H :=
  destruct c as [|c|c]; try discriminate H;
  do 7 (try (destruct c as [c|c|]; try discriminate H)).

Lemma count_ge1 c s : In c s -> (1 <= count_byte c s)%nat.
Proof.
  induction s as [|x s IH]; [intros []|]. intros [->|Hin].
  - rewrite count_byte_cons_eq. lia.
  - change (x :: s) with ([x] ++ s). rewrite count_byte_app. specialize (IH Hin). lia.
Qed.

Lemma count_two_in c a b : In c a -> In c b -> (2 <= count_byte c (a ++ b))%nat.
Proof. intros Ha Hb. rewrite count_byte_app. pose proof (count_ge1 c a Ha). pose proof (count_ge1 c b Hb). lia. Qed.

Lemma in_skipn {A} (x : A) n l : In x (skipn n l) -> In x l.
Proof. intros H. rewrite <- (firstn_skipn n l). apply in_or_app. now right. Qed.

Lemma re_tail_dash s : re_tail s = true -> In 45 s.
Proof.
  unfold re_tail. intros H. apply andb_true_iff in H as [_ H].
  apply (in_skipn 45 14 s). destruct (skipn 14 s) as [|c r]; [discriminate|].
  zlit c H. now left.
Qed.

Lemma re_pre_dash here s : re_pre here s = true -> In 45 s.
Proof.
  revert here. induction s as [|c r IH]; intros here H.
  - cbn in H. rewrite andb_false_r in H. discriminate.
  - rewrite re_pre_cons in H. apply orb_true_iff in H as [H|H].
    + apply andb_true_iff in H as [_ H]. zlit c H.
      destruct r as [|c2 t]; [discriminate|]. zlit c2 H.
      right. right. now apply re_tail_dash.
    + destruct (c =? 43); [discriminate|]. right. eapply IH, H.
Qed.

Lemma re_digits_then_inv sep s r :
  re_digits_then sep s = Some r -> exists ds, s = ds ++ sep :: r.
Proof.
  unfold re_digits_then. destruct (span is_digit s) as [ds r0] eqn:E.
  apply span_inv in E as (-> & _ & _).
  destruct ds as [|d ds]; [discriminate|]. destruct r0 as [|c r']; [discriminate|].
  destruct (Z.eqb_spec c sep) as [->|]; [|discriminate]. intros [= ->]. eauto.
Qed.

Theorem pseudo_re_two_dashes v : pseudo_re_match v = true -> (2 <= count_byte 45 v)%nat.
Proof.
  intros H. destruct v as [|c s1]; [discriminate|]. zlit c H.
  rewrite pseudo_re_match_eq in H.
  destruct (re_digits_then 46 s1) as [s2|] eqn:E1; [|discriminate].
  apply re_digits_then_inv in E1 as (ds1 & ->).
  apply orb_true_iff in H as [H|H].
  - destruct s2 as [|c1 [|c2 [|c3 [|c4 t]]]]; try discriminate H;
      zlit c1 H; try discriminate H; zlit c2 H; try discriminate H;
      zlit c3 H; try discriminate H; zlit c4 H.
    apply re_tail_dash in H.
    replace (118 :: ds1 ++ 46 :: 48 :: 46 :: 48 :: 45 :: t)
      with ((118 :: ds1 ++ [46; 48; 46; 48; 45]) ++ t) by (norm_app; reflexivity).
    apply count_two_in; [|exact H]. right. apply in_or_app. right. cbn. tauto.
  - destruct (re_digits_then 46 s2) as [s3|] eqn:E2; [|discriminate].
    apply re_digits_then_inv in E2 as (ds2 & ->).
    destruct (re_digits_then 45 s3) as [s4|] eqn:E3; [|discriminate].
    apply re_digits_then_inv in E3 as (ds3 & ->).
    apply re_pre_dash in H.
    replace (118 :: ds1 ++ 46 :: ds2 ++ 46 :: ds3 ++ 45 :: s4)
      with ((118 :: ds1 ++ 46 :: ds2 ++ 46 :: ds3 ++ [45]) ++ s4) by (norm_app; reflexivity).
    apply count_two_in; [|exact H]. right. apply in_or_app. right. right. apply in_or_app. right.
    right. apply in_or_app. right. now left.
Qed.

Corollary is_pseudo_version_without_count v :
  is_pseudo_version v = is_valid v && pseudo_re_match v.
Proof.
  unfold is_pseudo_version. destruct (pseudo_re_match v) eqn:H.
  - apply pseudo_re_two_dashes in H. apply Nat.leb_le in H. now rewrite H.
  - now rewrite !andb_false_r.
Qed.
