(* Executable model of the path checks of golang.org/x/mod/module (module/module.go):
   checkElem, checkPath, CheckPath, CheckImportPath, CheckFilePath, SplitPathVersion,
   splitGopkgIn, CheckPathMajor, MatchPathMajor, PathMajorPrefix, Check.
   Definitions only; proofs live in Module/PathProofs*.v.

   INTERFACE (stable names, used by Module/Escape.v and Module/Pseudo.v):

     Inductive kind := KModule | KImport | KFile.
     Inductive err_kind := EInvalidUtf8 | EEmpty | ... (one constructor per error site).
     check_elem        : kind -> str -> option err_kind     (module.checkElem;  None = nil)
     check_path        : kind -> str -> option err_kind     (module.checkPath)
     check_module_path : str -> option err_kind             (module.CheckPath;  None = nil)
     check_import_path : str -> option err_kind             (module.CheckImportPath)
     check_file_path   : str -> option err_kind             (module.CheckFilePath)
     split_path_version: str -> str * str * bool            (module.SplitPathVersion)
     check_path_major  : str -> str -> bool                 (true = CheckPathMajor returns nil)
     match_path_major  : str -> str -> bool
     path_major_prefix : str -> pmp_result                  (PMPOk s | PMPPanic)
     check             : str -> str -> option check_err     (module.Check; None = nil)
     ok_b              : option err_kind -> bool            (true for None)

   Everywhere `None` means "the Go function returned nil (accepted)" and `Some e` names the
   return statement that produced the error.  The functions are total on arbitrary byte
   strings (invalid UTF-8, '/' inside an element given to check_elem, ...).

   Character classes are the regenerated ones (Gen/GenChars.v), the reserved names come
   from Gen/GenConsts.v, case folding from the SimpleFold orbit table of Gen/GenUnicode.v. *)
From Verif.Base Require Import Bytes Utf8.
From Verif.Gen Require Import GenChars GenConsts GenUnicode.
From Verif.Semver Require Import Model.

Inductive kind := KModule | KImport | KFile.

Inductive err_kind :=
  (* checkPath *)
  | EInvalidUtf8 | EEmpty | ELeadingDash | EDoubleSlash | ETrailingSlash
  (* checkElem *)
  | EEmptyElem | EAllDots | ELeadingDot | ETrailingDot | EInvalidChar | EWindowsName | ETildeDigits
  (* CheckPath *)
  | ELeadingSlash | EMissingDot | EFirstLeadingDash | EFirstInvalidChar | EInvalidVersion.

Definition ok_b (r : option err_kind) : bool :=
  match r with None => true | Some _ => false end.

Definition is_nil (s : str) : bool := match s with [] => true | _ => false end.

(* s[0] == c / s[i] == c, false when the index is out of range (the Go code guards it) *)
Definition head_is (c : Z) (s : str) : bool :=
  match s with x :: _ => x =? c | [] => false end.
Definition byte_at_is (i : nat) (c : Z) (s : str) : bool :=
  match nth_error s i with Some x => x =? c | None => false end.

(* the switch on kind inside checkElem's character loop *)
Definition char_ok (k : kind) (r : Z) : bool :=
  match k with
  | KModule => module_modPathOK r
  | KImport => module_importPathOK r
  | KFile => module_fileNameOK r
  end.

(* ---- strings.EqualFold --------------------------------------------------------------
   EqualFold(s, t) holds iff s and t decode (range-over-string, RuneError for bad bytes) to
   equally long rune sequences that are pairwise in the same unicode.SimpleFold orbit.
   fold_min maps a rune to the least rune of its orbit: runes below 128 by the ASCII rule
   (their orbit minimum is the upper-case letter; PathProofs checks this against the
   regenerated table), all others by lookup in fold_min_table. *)
Fixpoint assoc_z (r : Z) (t : list (Z * Z)) : option Z :=
  match t with
  | [] => None
  | (a, b) :: t' => if a =? r then Some b else assoc_z r t'
  end.

Definition fold_min_tbl (r : Z) : Z :=
  match assoc_z r fold_min_table with Some m => m | None => r end.

Definition fold_min (r : Z) : Z :=
  if r <? 128 then (if is_lower r then r - 32 else r) else fold_min_tbl r.

Fixpoint fold_eq_runes (a b : list Z) : bool :=
  match a, b with
  | [], [] => true
  | x :: a', y :: b' => (fold_min x =? fold_min y) && fold_eq_runes a' b'
  | _, _ => false
  end.

Definition equal_fold (s t : str) : bool := fold_eq_runes (runes s) (runes t).

(* ---- checkElem ---------------------------------------------------------------------- *)

(* elem up to (excluding) the first '.', all of elem if there is none *)
Definition short_of (elem : str) : str := fst (span (fun c => negb (c =? 46)) elem).

Definition is_bad_windows_name (short : str) : bool :=
  let rs := runes short in
  existsb (fun bad => fold_eq_runes (runes bad) rs) module_badWindowsNames.

(* the text after the last '~' of short, if there is a '~' *)
Definition after_last_tilde (short : str) : option str :=
  let (suf_rev, rest_rev) := span (fun c => negb (c =? 126)) (rev short) in
  match rest_rev with
  | [] => None
  | _ :: _ => Some (rev suf_rev)
  end.

(* "tilde >= 0 && tilde < len(short)-1 && the suffix is all ASCII digits".  The Go loop
   ranges over runes; a rune is in '0'..'9' exactly when it is that single byte, so the
   byte-wise test is the same function. *)
Definition tilde_digits (short : str) : bool :=
  match after_last_tilde short with
  | Some (c :: suf) => forallb is_digit (c :: suf)
  | _ => false
  end.

Definition check_elem (k : kind) (elem : str) : option err_kind :=
  if is_nil elem then Some EEmptyElem
  else if forallb (fun c => c =? 46) elem then Some EAllDots
  else if head_is 46 elem && (match k with KModule => true | _ => false end) then Some ELeadingDot
  else if last elem 0 =? 46 then Some ETrailingDot
  else if negb (forallb (char_ok k) (runes elem)) then Some EInvalidChar
  else
    let short := short_of elem in
    if is_bad_windows_name short then Some EWindowsName
    else match k with
         | KFile => None
         | _ => if tilde_digits short then Some ETildeDigits else None
         end.

(* ---- checkPath ---------------------------------------------------------------------- *)

Fixpoint contains_dslash (s : str) : bool :=
  match s with
  | a :: ((b :: _) as r) => ((a =? 47) && (b =? 47)) || contains_dslash r
  | _ => false
  end.

Fixpoint first_err (k : kind) (elems : list str) : option err_kind :=
  match elems with
  | [] => None
  | e :: r => match check_elem k e with
              | Some x => Some x
              | None => first_err k r
              end
  end.

(* The Go loop cuts the path at every rune '/'; a byte 47 is never part of a multi-byte
   encoding, so this is split_on 47. *)
Definition check_path (k : kind) (p : str) : option err_kind :=
  if negb (valid p) then Some EInvalidUtf8
  else if is_nil p then Some EEmpty
  else if head_is 45 p && (match k with KFile => false | _ => true end) then Some ELeadingDash
  else if contains_dslash p then Some EDoubleSlash
  else if last p 0 =? 47 then Some ETrailingSlash
  else first_err k (split_on 47 p).

Definition check_import_path (p : str) : option err_kind := check_path KImport p.
Definition check_file_path (p : str) : option err_kind := check_path KFile p.

(* ---- SplitPathVersion --------------------------------------------------------------- *)

Definition gopkg_in : str := B "gopkg.in/".
Definition unstable : str := B "-unstable".

Definition trim_suffix (s suf : str) : str :=
  if has_suffix s suf then firstn (length s - length suf)%nat s else s.

(* splitGopkgIn *)
Definition split_gopkgin (p : str) : str * str * bool :=
  if negb (has_prefix p gopkg_in) then (p, [], false)
  else
    let uns := has_suffix p unstable in
    let body_rev := if uns then skipn (length unstable) (rev p) else rev p in
    let (digits_rev, rest_rev) := span is_digit body_rev in
    match rest_rev with
    | a :: b :: pre_rev =>
        if (a =? 118) && (b =? 46) then
          let pm := 46 :: 118 :: rev digits_rev ++ (if uns then unstable else []) in
          if (len pm <=? 2)
             || byte_at_is 2 45 pm
             || (byte_at_is 2 48 pm && negb (str_eqb pm (B ".v0")))
          then (p, [], false)
          else (rev pre_rev, pm, true)
        else (p, [], false)
    | _ => (p, [], false)
    end.

Definition digit_or_dot (c : Z) : bool := is_digit c || (c =? 46).

Definition split_path_version (p : str) : str * str * bool :=
  if has_prefix p gopkg_in then split_gopkgin p
  else
    let (tail_rev, rest_rev) := span digit_or_dot (rev p) in
    match tail_rev, rest_rev with
    | _ :: _, a :: b :: pre_rev =>
        if (a =? 118) && (b =? 47) then
          let pm := 47 :: 118 :: rev tail_rev in
          if contains_byte 46 tail_rev
             || (len pm <=? 2)
             || byte_at_is 2 48 pm
             || str_eqb pm (B "/v1")
          then (p, [], false)
          else (rev pre_rev, pm, true)
        else (p, [], true)
    | _, _ => (p, [], true)
    end.

(* ---- CheckPath ----------------------------------------------------------------------- *)

(* path[:i] with i the index of the first '/' (len(path) if none) *)
Definition first_elem (p : str) : str := fst (span (fun c => negb (c =? 47)) p).

Definition check_module_path (p : str) : option err_kind :=
  match check_path KModule p with
  | Some e => Some e
  | None =>
      let fe := first_elem p in
      if is_nil fe then Some ELeadingSlash
      else if negb (contains_byte 46 fe) then Some EMissingDot
      else if head_is 45 p then Some EFirstLeadingDash
      else if negb (forallb module_firstPathOK (runes fe)) then Some EFirstInvalidChar
      else match split_path_version p with
           | (_, _, true) => None
           | (_, _, false) => Some EInvalidVersion
           end
  end.

(* ---- CheckPathMajor, MatchPathMajor, PathMajorPrefix --------------------------------- *)

Definition trim_unstable (pm : str) : str :=
  if has_prefix pm (B ".v") && has_suffix pm unstable then trim_suffix pm unstable else pm.

(* true = CheckPathMajor returns nil *)
Definition check_path_major (v pathMajor : str) : bool :=
  let pm := trim_unstable pathMajor in
  if has_prefix v (B "v0.0.0-") && str_eqb pm (B ".v1") then true
  else
    let m := major v in
    match pm with
    | [] => str_eqb m (B "v0") || str_eqb m (B "v1") || str_eqb (build v) (B "+incompatible")
    | c :: rest => if (c =? 47) || (c =? 46) then str_eqb m rest else false
    end.

Definition match_path_major (v pathMajor : str) : bool := check_path_major v pathMajor.

Inductive pmp_result := PMPOk (s : str) | PMPPanic.

Definition path_major_prefix (pathMajor : str) : pmp_result :=
  match pathMajor with
  | [] => PMPOk []
  | c :: _ =>
      if negb (c =? 47) && negb (c =? 46) then PMPPanic
      else match trim_unstable pathMajor with
           | [] => PMPPanic              (* unreachable: the first byte survives the trim *)
           | _ :: m => if str_eqb m (major m) then PMPOk m else PMPPanic
           end
  end.

(* ---- Check ---------------------------------------------------------------------------- *)

Inductive check_err := CEPath (e : err_kind) | CENotSemver | CEMajorMismatch.

Definition check (p v : str) : option check_err :=
  match check_module_path p with
  | Some e => Some (CEPath e)
  | None =>
      if negb (is_valid v) then Some CENotSemver
      else match split_path_version p with
           | (_, pm, _) => if check_path_major v pm then None else Some CEMajorMismatch
           end
  end.
