(* Pseudo-versions: validity, recognition, round trip and ordering of the constructed
   strings (the C18 theorems). *)
From Verif.Base Require Import Bytes.
From Verif.Semver Require Import Model Spec Proofs ProofsStr ProofsParse.
From Verif.Module Require Import Pseudo PseudoProofsStr PseudoProofsDec PseudoProofsRe PseudoProofs.

Lemma numeral_digits_ne d : numeral d = true -> d <> [] /\ forallb is_digit d = true.
Proof. intros H. destruct (numeral_digits d H). auto. Qed.

Lemma alnum_no_dash rv : forallb is_alnum rv = true -> ~ In 45 rv.
Proof. intros H. eapply notin_forallb; [exact H|reflexivity]. Qed.

Lemma digits_no_dash ts : forallb is_digit ts = true -> ~ In 45 ts.
Proof. intros H. eapply notin_forallb; [exact H|reflexivity]. Qed.

Lemma digits_no_dot ts : forallb is_digit ts = true -> ~ In 46 ts.
Proof. intros H. eapply notin_forallb; [exact H|reflexivity]. Qed.

Lemma pre_body_no_plus body :
  forallb pre_ident (split_on 46 body) = true -> ~ In 43 body.
Proof.
  intros H. apply no_sep_notin. unfold no_sep. apply body_no_plus.
  eapply idents_body_chars; [|exact H]. apply pre_ident_chars.
Qed.

(* ---- IsPseudoVersion on the constructed shapes --------------------------------------------- *)

(* forms 2-5: vM.m.pt "-" X "0." ts "-" rv b, with X empty or "<no plus>." *)
Lemma is_pseudo_dot M m pt X ts rv b :
  numeral M = true -> numeral m = true -> numeral pt = true ->
  (X = [] \/ exists Y, X = Y ++ [46] /\ ~ In 43 Y) ->
  pre_str (45 :: X ++ 48 :: 46 :: ts ++ 45 :: rv) -> build_str b ->
  ts14 ts -> rev_ok rv ->
  is_valid (mk M m pt (45 :: X ++ 48 :: 46 :: ts ++ 45 :: rv) b) = true /\
  is_pseudo_version (mk M m pt (45 :: X ++ 48 :: 46 :: ts ++ 45 :: rv) b) = true.
Proof.
  intros HM Hm Hp HX Hpre Hb Hts Hrv.
  assert (Hv : is_valid (mk M m pt (45 :: X ++ 48 :: 46 :: ts ++ 45 :: rv) b) = true).
  { unfold is_valid. now rewrite parse_mk. }
  split; [exact Hv|]. unfold is_pseudo_version. rewrite Hv.
  replace (mk M m pt (45 :: X ++ 48 :: 46 :: ts ++ 45 :: rv) b)
    with ((118 :: M ++ 46 :: m ++ 46 :: pt) ++ 45 :: (X ++ 48 :: 46 :: ts) ++ 45 :: (rv ++ b))
    by (unfold mk; norm_app; reflexivity).
  replace (2 <=? count_byte 45 _)%nat with true by (symmetry; apply Nat.leb_le, count_two).
  cbn [andb].
  replace ((118 :: M ++ 46 :: m ++ 46 :: pt) ++ 45 :: (X ++ 48 :: 46 :: ts) ++ 45 :: (rv ++ b))
    with (118 :: M ++ 46 :: m ++ 46 :: pt ++ 45 :: (X ++ 48 :: 46 :: (ts ++ 45 :: rv ++ b)))
    by (norm_app; reflexivity).
  destruct (numeral_digits_ne _ HM), (numeral_digits_ne _ Hm), (numeral_digits_ne _ Hp).
  apply pseudo_re_match_form2; auto.
  pose proof (re_tail_ok ts rv b Hts Hrv Hb) as HT.
  destruct HX as [->|(Y & -> & HY)].
  - cbn [app]. now apply re_pre_here.
  - rewrite <- app_assoc. cbn [app]. now apply re_pre_group.
Qed.

(* form 1: vM.0.0-ts-rv *)
Lemma is_pseudo_dash M ts rv :
  numeral M = true -> ts14 ts -> rev_ok rv ->
  is_valid (mk M [48] [48] (45 :: ts ++ 45 :: rv) []) = true /\
  is_pseudo_version (mk M [48] [48] (45 :: ts ++ 45 :: rv) []) = true.
Proof.
  intros HM Hts Hrv.
  assert (Hv : is_valid (mk M [48] [48] (45 :: ts ++ 45 :: rv) []) = true).
  { unfold is_valid. rewrite parse_mk; auto using pre_str_form1. now left. }
  split; [exact Hv|]. unfold is_pseudo_version. rewrite Hv.
  replace (mk M [48] [48] (45 :: ts ++ 45 :: rv) [])
    with ((118 :: M ++ [46; 48; 46; 48]) ++ 45 :: ts ++ 45 :: (rv ++ []))
    by (unfold mk; norm_app; reflexivity).
  replace (2 <=? count_byte 45 _)%nat with true by (symmetry; apply Nat.leb_le, count_two).
  cbn [andb].
  replace ((118 :: M ++ [46; 48; 46; 48]) ++ 45 :: ts ++ 45 :: (rv ++ []))
    with (118 :: M ++ 46 :: 48 :: 46 :: 48 :: 45 :: (ts ++ 45 :: rv ++ []))
    by (norm_app; reflexivity).
  destruct (numeral_digits_ne _ HM).
  apply pseudo_re_match_form1; auto. apply re_tail_ok; auto. now left.
Qed.

(* ---- parsePseudoVersion on the constructed shapes -------------------------------------------- *)

Lemma parse_pseudo_common W rv b pv :
  pv = W ++ 45 :: rv ++ b -> is_pseudo_version pv = true -> build pv = b -> rev_ok rv ->
  parse_pseudo_version pv =
  (let i := last_index 45 W in
   let dot := last_index 46 W in
   let dot_after := match dot, i with
                    | Some j2, Some i => (i <? j2)%nat
                    | Some _, None => true
                    | None, _ => false
                    end in
   if dot_after then
     match dot with
     | Some j2 => POk (mkParts (firstn j2 W) (skipn (S j2) W) rv b)
     | None => PPanic
     end
   else match i with
        | Some i => POk (mkParts (firstn i W) (skipn (S i) W) rv b)
        | None => PPanic
        end).
Proof.
  intros -> Hps Hb [_ Hrv]. unfold parse_pseudo_version. rewrite Hps, Hb. cbn [negb].
  replace (W ++ 45 :: rv ++ b) with ((W ++ 45 :: rv) ++ b) by (norm_app; reflexivity).
  rewrite trim_suffix_app.
  rewrite (last_index_app_notin 45 W rv (alnum_no_dash rv Hrv)). cbv beta iota zeta.
  rewrite skipn_S_app. rewrite (firstn_app_exact W (45 :: rv)). reflexivity.
Qed.

Lemma parse_pseudo_dot base ts rv b pv :
  pv = base ++ 46 :: ts ++ 45 :: rv ++ b -> is_pseudo_version pv = true -> build pv = b ->
  In 45 base -> ts14 ts -> rev_ok rv ->
  parse_pseudo_version pv = POk (mkParts base ts rv b).
Proof.
  intros -> Hps Hb Hin [_ Hts] Hrv.
  rewrite (parse_pseudo_common (base ++ 46 :: ts) rv b) by (auto; norm_app; reflexivity).
  rewrite (last_index_app_notin 46 base ts (digits_no_dot ts Hts)).
  destruct (last_index_in 45 base Hin) as [i Hi].
  rewrite (last_index_app_r 45 base (46 :: ts) i); [|intros [E|E]; [discriminate|now apply (digits_no_dash ts Hts)]|exact Hi].
  pose proof (last_index_lt _ _ _ Hi) as Hlt. cbv beta iota zeta.
  replace (i <? length base)%nat with true by (symmetry; now apply Nat.ltb_lt).
  rewrite (firstn_app_exact base (46 :: ts)). now rewrite skipn_S_app.
Qed.

Lemma parse_pseudo_dash base ts rv b pv :
  pv = base ++ 45 :: ts ++ 45 :: rv ++ b -> is_pseudo_version pv = true -> build pv = b ->
  ts14 ts -> rev_ok rv ->
  parse_pseudo_version pv = POk (mkParts base ts rv b).
Proof.
  intros -> Hps Hb [_ Hts] Hrv.
  rewrite (parse_pseudo_common (base ++ 45 :: ts) rv b) by (auto; norm_app; reflexivity).
  rewrite (last_index_app_notin 45 base ts (digits_no_dash ts Hts)). cbv zeta.
  assert (Hnd : ~ In 46 (45 :: ts)) by (intros [E|E]; [discriminate|now apply (digits_no_dot ts Hts)]).
  destruct (last_index 46 base) as [j|] eqn:Hj.
  - rewrite (last_index_app_r 46 base (45 :: ts) j Hnd Hj).
    pose proof (last_index_lt _ _ _ Hj) as Hlt. cbv beta iota zeta.
    replace (length base <? j)%nat with false by (symmetry; apply Nat.ltb_ge; lia).
    rewrite (firstn_app_exact base (45 :: ts)). now rewrite skipn_S_app.
  - rewrite (last_index_notin 46 (base ++ 45 :: ts)).
    + cbv beta iota zeta. rewrite (firstn_app_exact base (45 :: ts)). now rewrite skipn_S_app.
    + intros Hin. apply in_app_or in Hin as [Hin|Hin]; [|auto].
      destruct (last_index_in 46 base Hin) as [k Hk]. congruence.
Qed.

Lemma build_mk M m pt pre b :
  numeral M = true -> numeral m = true -> numeral pt = true -> pre_str pre -> build_str b ->
  build (mk M m pt pre b) = b.
Proof. intros. unfold build. now rewrite parse_mk. Qed.

Lemma prerelease_mk M m pt pre b :
  numeral M = true -> numeral m = true -> numeral pt = true -> pre_str pre -> build_str b ->
  prerelease (mk M m pt pre b) = pre.
Proof. intros. unfold prerelease. now rewrite parse_mk. Qed.

(* ---- the property theorems, one shape at a time ----------------------------------------------- *)

Record roundtrip (older ts rv pv : str) : Prop := mkRoundtrip {
  rt_valid : is_valid pv = true;
  rt_pseudo : is_pseudo_version pv = true;
  rt_base : pseudo_version_base pv = POk (canonical older ++ build older);
  rt_rev : pseudo_version_rev pv = POk rv;
  rt_ts : pseudo_version_ts pv = if ts_valid ts then POk ts else PErr 3 }.

Lemma from_parts older ts rv pv base b :
  is_valid pv = true -> is_pseudo_version pv = true ->
  parse_pseudo_version pv = POk (mkParts base ts rv b) ->
  pseudo_version_base pv = POk (canonical older ++ build older) ->
  roundtrip older ts rv pv.
Proof.
  intros Hv Hp Hpp Hbase. constructor; auto.
  - unfold pseudo_version_rev. now rewrite Hpp.
  - unfold pseudo_version_ts. rewrite Hpp. reflexivity.
Qed.

Lemma zero_numeral : numeral [48] = true.
Proof. reflexivity. Qed.

Lemma roundtrip_form1 M older ts rv :
  numeral M = true -> parse older = None -> ts14 ts -> rev_ok rv ->
  roundtrip older ts rv (mk M [48] [48] (45 :: ts ++ 45 :: rv) []).
Proof.
  intros HM Ho Hts Hrv. destruct (is_pseudo_dash M ts rv HM Hts Hrv) as [Hv Hp].
  pose proof (pre_str_form1 ts rv Hts Hrv) as Hpre.
  assert (Hbs : build_str []) by now left.
  assert (Hpp : parse_pseudo_version (mk M [48] [48] (45 :: ts ++ 45 :: rv) [])
                = POk (mkParts (mk M [48] [48] [] []) ts rv [])).
  { apply parse_pseudo_dash; auto using build_mk, zero_numeral.
    unfold mk. norm_app. reflexivity. }
  eapply from_parts; eauto.
  unfold pseudo_version_base. rewrite Hpp. cbn [pp_base pp_build].
  rewrite prerelease_mk by (auto using zero_numeral; now left).
  rewrite (canonical_invalid older Ho). unfold build. rewrite Ho. reflexivity.
Qed.

Lemma roundtrip_form2 older p pt' ts rv :
  parse older = Some p -> p_prerelease p = [] ->
  inc_decimal (p_patch p) = Some pt' -> numeral pt' = true -> ts14 ts -> rev_ok rv ->
  roundtrip older ts rv
    (mk (p_major p) (p_minor p) pt' (45 :: 48 :: 46 :: ts ++ 45 :: rv) (p_build p)).
Proof.
  intros Ho Hnp Hinc Hn' Hts Hrv.
  destruct (parse_fields older p Ho) as (HM & Hm & Hpt & _ & Hb).
  pose proof (pre_str_form2 ts rv Hts Hrv) as Hpre.
  destruct (is_pseudo_dot (p_major p) (p_minor p) pt' [] ts rv (p_build p)) as [Hv Hp]; auto.
  cbn [app] in Hv, Hp.
  assert (Hp0 : pre_str [45; 48]) by (right; exists [48]; split; reflexivity).
  assert (Hbs : build_str []) by now left.
  assert (Hpp : parse_pseudo_version (mk (p_major p) (p_minor p) pt' (45 :: 48 :: 46 :: ts ++ 45 :: rv) (p_build p))
                = POk (mkParts (mk (p_major p) (p_minor p) pt' [45; 48] []) ts rv (p_build p))).
  { apply parse_pseudo_dot; auto using build_mk.
    - unfold mk. norm_app. reflexivity.
    - unfold mk. right. apply in_or_app. right. right. apply in_or_app. right. right.
      apply in_or_app. right. now left. }
  eapply from_parts; eauto.
  unfold pseudo_version_base. rewrite Hpp. cbn [pp_base pp_build].
  rewrite prerelease_mk by auto. cbn [is_nil].
  replace (str_eqb [45; 48] (B "-0")) with true by reflexivity.
  replace (mk (p_major p) (p_minor p) pt' [45; 48] [])
    with (((118 :: p_major p ++ 46 :: p_minor p) ++ 46 :: pt') ++ [45; 48])
    by (unfold mk; norm_app; reflexivity).
  rewrite trim_suffix_app.
  destruct (split_patch (118 :: p_major p ++ 46 :: p_minor p) pt') as (E1 & E2 & E3).
  { apply digits_no_dot. apply (numeral_digits _ Hn'). }
  rewrite E1, E2, E3, (inc_dec_decimal _ _ Hpt Hinc).
  replace (is_nil (p_patch p)) with false
    by (symmetry; apply is_nil_false; apply (numeral_digits _ Hpt)).
  f_equal. rewrite (canonical_mk older p Ho), Hnp. unfold build. rewrite Ho.
  unfold mk. norm_app. reflexivity.
Qed.

Lemma in_mk_pre c M m pt pre b : In c pre -> In c (mk M m pt pre b).
Proof.
  intros H. unfold mk. right. apply in_or_app. right. right. apply in_or_app. right. right.
  apply in_or_app. right. apply in_or_app. now left.
Qed.

Lemma roundtrip_form4 older p ts rv :
  parse older = Some p -> p_prerelease p <> [] -> ts14 ts -> rev_ok rv ->
  roundtrip older ts rv
    (mk (p_major p) (p_minor p) (p_patch p)
        (p_prerelease p ++ 46 :: 48 :: 46 :: ts ++ 45 :: rv) (p_build p)).
Proof.
  intros Ho Hne Hts Hrv.
  destruct (parse_fields older p Ho) as (HM & Hm & Hpt & Hpre & Hb).
  pose proof (pre_str_form4 _ ts rv Hpre Hne Hts Hrv) as Hpre4.
  pose proof (pre_str_dot0 _ Hpre Hne) as Hpre0.
  assert (Hbs : build_str []) by now left.
  destruct Hpre as [E|(body & Ebody & Hbody)]; [congruence|].
  destruct (is_pseudo_dot (p_major p) (p_minor p) (p_patch p) (body ++ [46]) ts rv (p_build p)) as [Hv Hp]; auto.
  { right. exists body. split; [reflexivity|]. now apply pre_body_no_plus. }
  { rewrite Ebody in Hpre4. norm_app_in Hpre4. norm_app. exact Hpre4. }
  replace (45 :: (body ++ [46]) ++ 48 :: 46 :: ts ++ 45 :: rv)
    with (p_prerelease p ++ 46 :: 48 :: 46 :: ts ++ 45 :: rv) in Hv, Hp
    by (rewrite Ebody; norm_app; reflexivity).
  assert (Hpp : parse_pseudo_version (mk (p_major p) (p_minor p) (p_patch p)
                   (p_prerelease p ++ 46 :: 48 :: 46 :: ts ++ 45 :: rv) (p_build p))
                = POk (mkParts (mk (p_major p) (p_minor p) (p_patch p) (p_prerelease p ++ [46; 48]) [])
                               ts rv (p_build p))).
  { apply parse_pseudo_dot; auto using build_mk.
    - unfold mk. norm_app. reflexivity.
    - apply in_mk_pre. apply in_or_app. left. rewrite Ebody. now left. }
  eapply from_parts; eauto.
  unfold pseudo_version_base. rewrite Hpp. cbn [pp_base pp_build].
  rewrite prerelease_mk by auto.
  replace (is_nil (p_prerelease p ++ [46; 48])) with false by (rewrite Ebody; reflexivity).
  replace (str_eqb (p_prerelease p ++ [46; 48]) (B "-0")) with false.
  2:{ symmetry. apply str_eqb_false. rewrite Ebody. intros E. apply (f_equal (@length Z)) in E.
      cbn [app length] in E. rewrite app_length in E. cbn [length] in E. change (length (B "-0")) with 2%nat in E. lia. }
  replace (mk (p_major p) (p_minor p) (p_patch p) (p_prerelease p ++ [46; 48]) [])
    with (mk (p_major p) (p_minor p) (p_patch p) (p_prerelease p) [] ++ [46; 48])
    by (unfold mk; rewrite !app_nil_r; norm_app; reflexivity).
  change (B ".0") with [46; 48]. rewrite has_suffix_app. cbn [negb]. rewrite trim_suffix_app.
  f_equal. rewrite (canonical_mk older p Ho). unfold build. now rewrite Ho.
Qed.

(* ---- assembled: validity and round trip -------------------------------------------------------- *)

Lemma eff_major_mk major :
  major_ok major -> exists M, numeral M = true /\ eff_major major = 118 :: M.
Proof.
  intros [->|(M & -> & HM)]; [exists [48]; split; reflexivity|]. exists M. split; [exact HM|reflexivity].
Qed.

Theorem pseudo_valid_roundtrip major older ts rv :
  major_ok major -> ts14 ts -> rev_ok rv ->
  exists pv, pseudo_version major older ts rv = Some pv /\ roundtrip older ts rv pv.
Proof.
  intros Hmaj Hts Hrv. destruct (parse older) as [p|] eqn:Ho.
  - destruct (p_prerelease p) as [|c pre] eqn:Hpre.
    + destruct (pv_form2 major older p ts rv Ho Hpre) as (pt' & Hinc & Hn' & _ & ->).
      eexists. split; [reflexivity|]. now apply roundtrip_form2.
    + rewrite (pv_form4 major older p ts rv Ho) by (rewrite Hpre; discriminate).
      eexists. split; [reflexivity|]. apply roundtrip_form4; auto.
      rewrite Hpre. discriminate.
  - rewrite (pv_form1 major older ts rv Ho).
    destruct (eff_major_mk major Hmaj) as (M & HM & ->).
    eexists. split; [reflexivity|].
    replace ((118 :: M) ++ [46; 48; 46; 48; 45] ++ ts ++ 45 :: rv)
      with (mk M [48] [48] (45 :: ts ++ 45 :: rv) [])
      by (unfold mk; rewrite ?app_nil_r; norm_app; reflexivity).
    now apply roundtrip_form1.
Qed.

Theorem pseudo_valid major older ts rv pv :
  major_ok major -> ts14 ts -> rev_ok rv ->
  pseudo_version major older ts rv = Some pv ->
  is_valid pv = true /\ is_pseudo_version pv = true.
Proof.
  intros Hmaj Hts Hrv H.
  destruct (pseudo_valid_roundtrip major older ts rv Hmaj Hts Hrv) as (pv' & H' & R).
  assert (pv' = pv) as -> by congruence. destruct R. auto.
Qed.

Theorem pseudo_roundtrip major older ts rv pv :
  major_ok major -> ts14 ts -> rev_ok rv ->
  pseudo_version major older ts rv = Some pv ->
  pseudo_version_base pv = POk (canonical older ++ build older) /\
  pseudo_version_rev pv = POk rv /\
  pseudo_version_ts pv = (if ts_valid ts then POk ts else PErr 3).
Proof.
  intros Hmaj Hts Hrv H.
  destruct (pseudo_valid_roundtrip major older ts rv Hmaj Hts Hrv) as (pv' & H' & R).
  assert (pv' = pv) as -> by congruence. destruct R. auto.
Qed.
