(* Pseudo-versions: shape of the constructed string, validity, round trip, ordering. *)
From Verif.Base Require Import Bytes.
From Verif.Semver Require Import Model Spec ProofsStr ProofsParse.
From Verif.Module Require Import Pseudo PseudoProofsStr PseudoProofsDec PseudoProofsRe.

(* a full version string from its fields *)
Definition mk (M m pt pre b : str) : str := 118 :: M ++ 46 :: m ++ 46 :: pt ++ pre ++ b.

(* the hypotheses of the property *)
Definition major_ok (major : str) : Prop :=
  major = [] \/ exists M, major = 118 :: M /\ numeral M = true.

Lemma parse_mk M m pt pre b :
  numeral M = true -> numeral m = true -> numeral pt = true -> pre_str pre -> build_str b ->
  parse (mk M m pt pre b) = Some (mkParsed M m pt [] pre b).
Proof. intros. apply parse_complete. now constructor. Qed.

Lemma parse_fields v p :
  parse v = Some p ->
  numeral (p_major p) = true /\ numeral (p_minor p) = true /\ numeral (p_patch p) = true /\
  pre_str (p_prerelease p) /\ build_str (p_build p).
Proof.
  intros H. apply parse_sound in H.
  destruct H; cbn [p_major p_minor p_patch p_prerelease p_build];
    repeat split; auto; try reflexivity; now left.
Qed.

Lemma canonical_mk v p :
  parse v = Some p ->
  canonical v = mk (p_major p) (p_minor p) (p_patch p) (p_prerelease p) [].
Proof. intros H. rewrite (canonical_parts v p H). unfold mk. now rewrite app_nil_r. Qed.

Lemma parse_canonical v p :
  parse v = Some p ->
  parse (canonical v) = Some (mkParsed (p_major p) (p_minor p) (p_patch p) [] (p_prerelease p) []).
Proof.
  intros H. rewrite (canonical_mk v p H).
  destruct (parse_fields v p H) as (HM & Hm & Hp & Hpre & _).
  apply parse_mk; auto. now left.
Qed.

(* ---- the segment yyyymmddhhmmss-rev as a prerelease identifier ---------------------------- *)

Lemma digit_ident c : is_digit c = true -> ident_char c = true.
Proof. intros H. unfold ident_char. now rewrite H. Qed.

Lemma alnum_ident c : is_alnum c = true -> ident_char c = true.
Proof. intros H. unfold ident_char. unfold is_alnum in H. now rewrite H. Qed.

Lemma seg_chars ts rv : ts14 ts -> rev_ok rv -> forallb ident_char (ts ++ 45 :: rv) = true.
Proof.
  intros [_ Hd] [_ Hr]. rewrite forallb_app. cbn [forallb].
  rewrite (forallb_impl _ _ _ digit_ident Hd), (forallb_impl _ _ _ alnum_ident Hr). reflexivity.
Qed.

Lemma seg_pre_ident ts rv : ts14 ts -> rev_ok rv -> pre_ident (ts ++ 45 :: rv) = true.
Proof.
  intros Hts Hrv. unfold pre_ident. rewrite (seg_chars ts rv Hts Hrv).
  replace (Spec.is_nil (ts ++ 45 :: rv)) with false by (now destruct ts).
  unfold all_digits. rewrite forallb_app. cbn [forallb].
  replace (is_digit 45) with false by reflexivity. cbn [andb]. now rewrite andb_false_r.
Qed.

Lemma seg_no_dot ts rv : ts14 ts -> rev_ok rv -> no_sep 46 (ts ++ 45 :: rv) = true.
Proof. intros Hts Hrv. apply ident_chars_no_dot. now apply seg_chars. Qed.

Lemma seg_split ts rv : ts14 ts -> rev_ok rv -> split_on 46 (ts ++ 45 :: rv) = [ts ++ 45 :: rv].
Proof. intros Hts Hrv. apply split_on_no_sep. now apply seg_no_dot. Qed.

(* "-" seg : form 1 *)
Lemma pre_str_form1 ts rv : ts14 ts -> rev_ok rv -> pre_str (45 :: ts ++ 45 :: rv).
Proof.
  intros Hts Hrv. right. eexists. split; [reflexivity|].
  rewrite seg_split by assumption. cbn [forallb]. now rewrite seg_pre_ident.
Qed.

(* "-0." seg : forms 2, 3 *)
Lemma pre_str_form2 ts rv : ts14 ts -> rev_ok rv -> pre_str (45 :: 48 :: 46 :: ts ++ 45 :: rv).
Proof.
  intros Hts Hrv. right. eexists. split; [reflexivity|].
  change (48 :: 46 :: ts ++ 45 :: rv) with ([48] ++ 46 :: ts ++ 45 :: rv).
  rewrite split_on_app, seg_split by assumption.
  replace (split_on 46 [48]) with [[48]] by reflexivity. cbn [app forallb].
  rewrite seg_pre_ident by assumption. reflexivity.
Qed.

(* pre ".0." seg : forms 4, 5 *)
Lemma pre_str_form4 pre ts rv :
  pre_str pre -> pre <> [] -> ts14 ts -> rev_ok rv ->
  pre_str (pre ++ 46 :: 48 :: 46 :: ts ++ 45 :: rv).
Proof.
  intros [->|(body & -> & Hb)] Hne Hts Hrv; [congruence|].
  right. exists (body ++ 46 :: 48 :: 46 :: ts ++ 45 :: rv). split; [reflexivity|].
  rewrite split_on_app.
  change (48 :: 46 :: ts ++ 45 :: rv) with ([48] ++ 46 :: ts ++ 45 :: rv).
  rewrite split_on_app, seg_split by assumption. rewrite forallb_app, Hb.
  replace (split_on 46 [48]) with [[48]] by reflexivity. cbn [app forallb].
  rewrite seg_pre_ident by assumption. reflexivity.
Qed.

(* pre ".0" : the base recovered from forms 4, 5 *)
Lemma pre_str_dot0 pre : pre_str pre -> pre <> [] -> pre_str (pre ++ [46; 48]).
Proof.
  intros [->|(body & -> & Hb)] Hne; [congruence|].
  right. exists (body ++ [46; 48]). split; [reflexivity|].
  rewrite split_on_app, forallb_app, Hb. reflexivity.
Qed.

(* ---- the three shapes of PseudoVersion ----------------------------------------------------- *)

Definition eff_major (major : str) : str := if is_nil major then [118; 48] else major.

Lemma pv_form1 major older ts rv :
  parse older = None ->
  pseudo_version major older ts rv =
  Some (eff_major major ++ [46; 48; 46; 48; 45] ++ ts ++ 45 :: rv).
Proof.
  intros H. unfold pseudo_version. rewrite (canonical_invalid older H). reflexivity.
Qed.

Lemma pv_form4 major older p ts rv :
  parse older = Some p -> p_prerelease p <> [] ->
  pseudo_version major older ts rv =
  Some (mk (p_major p) (p_minor p) (p_patch p)
           (p_prerelease p ++ 46 :: 48 :: 46 :: ts ++ 45 :: rv) (p_build p)).
Proof.
  intros H Hpre. unfold pseudo_version, prerelease.
  rewrite (parse_canonical older p H). cbn [p_prerelease].
  rewrite (canonical_mk older p H). unfold build. rewrite H.
  replace (is_nil (mk (p_major p) (p_minor p) (p_patch p) (p_prerelease p) [])) with false by reflexivity.
  replace (is_nil (p_prerelease p)) with false by (symmetry; now apply is_nil_false).
  cbn [negb]. f_equal. unfold mk. change (B ".0.") with [46; 48; 46].
  rewrite app_nil_r. norm_app. reflexivity.
Qed.

Lemma split_patch (X pt : str) :
  ~ In 46 pt ->
  last_index 46 (X ++ 46 :: pt) = Some (length X) /\
  firstn (S (length X)) (X ++ 46 :: pt) = X ++ [46] /\
  skipn (S (length X)) (X ++ 46 :: pt) = pt.
Proof.
  intros H. split; [now apply last_index_app_notin|]. split; [apply firstn_S_app | apply skipn_S_app].
Qed.

Lemma digits_no c s : forallb is_digit s = true -> is_digit c = false -> ~ In c s.
Proof. intros. eapply notin_forallb; eauto. Qed.

Lemma pv_form2 major older p ts rv :
  parse older = Some p -> p_prerelease p = [] ->
  exists pt', inc_decimal (p_patch p) = Some pt' /\ numeral pt' = true /\
              compare_int (p_patch p) pt' = -1 /\
  pseudo_version major older ts rv =
  Some (mk (p_major p) (p_minor p) pt' (45 :: 48 :: 46 :: ts ++ 45 :: rv) (p_build p)).
Proof.
  intros H Hpre. destruct (parse_fields older p H) as (HM & Hm & Hp & _ & _).
  destruct (inc_decimal_numeral _ Hp) as (pt' & Hinc & Hn' & Hcmp).
  exists pt'. repeat split; auto.
  unfold pseudo_version, prerelease.
  rewrite (parse_canonical older p H). cbn [p_prerelease].
  rewrite (canonical_mk older p H). unfold build. rewrite H, Hpre.
  replace (is_nil (mk (p_major p) (p_minor p) (p_patch p) [] [])) with false by reflexivity.
  cbn [is_nil negb].
  replace (mk (p_major p) (p_minor p) (p_patch p) [] [])
    with ((118 :: p_major p ++ 46 :: p_minor p) ++ 46 :: p_patch p)
    by (unfold mk; rewrite !app_nil_r; norm_app; reflexivity).
  destruct (split_patch (118 :: p_major p ++ 46 :: p_minor p) (p_patch p)) as (E1 & E2 & E3).
  { apply digits_no; [apply (numeral_digits _ Hp) | reflexivity]. }
  rewrite E1, E2, E3, Hinc. f_equal. unfold mk. change (B "-0.") with [45; 48; 46].
  norm_app. reflexivity.
Qed.

(* PseudoVersion cannot reach the fault in incDecimal, whatever its arguments *)
Theorem pseudo_version_no_panic major older ts rv : pseudo_version major older ts rv <> None.
Proof.
  destruct (parse older) as [p|] eqn:H.
  - destruct (p_prerelease p) eqn:Hpre.
    + destruct (pv_form2 major older p ts rv H Hpre) as (pt' & _ & _ & _ & ->). discriminate.
    + rewrite (pv_form4 major older p ts rv H) by (rewrite Hpre; discriminate). discriminate.
  - rewrite (pv_form1 major older ts rv H). discriminate.
Qed.
