(* Proofs about the pseudo-version model: the regular expression source, sanity examples. *)
From Verif.Base Require Import Bytes.
From Verif.Gen Require Import GenRegex.
From Verif.Semver Require Import Model.
From Verif.Module Require Import Pseudo.

(* The recogniser Pseudo.pseudo_re_match was written for exactly this source; a change of
   module/pseudo.go's expression changes Gen/GenRegex.v and breaks this example. *)
Example pseudo_re_source :
  module_pseudoVersionRE =
  B "^v[0-9]+\.(0\.0-|\d+\.\d+-([^+]*\.)?0\.)\d{14}-[A-Za-z0-9]+(\+[0-9A-Za-z-]+(\.[0-9A-Za-z-]+)*)?$".
Proof. reflexivity. Qed.
