(* Executable model of module/pseudo.go.  Definitions only; proofs in Module/PseudoProofs*.v.

   A time is represented by its 14-digit timestamp string: t.UTC().Format("20060102150405")
   and time.Parse of that layout are Go standard library and stay in the harness; the
   model contains only the acceptance test of time.Parse for this fixed layout
   ([ts_valid]), which the correspondence run validates. *)
From Verif.Base Require Import Bytes.
From Verif.Semver Require Import Model.

(* ---- small string helpers (Go: strings.LastIndex, TrimSuffix, Count) ------------------- *)

Fixpoint last_index (c : Z) (s : str) : option nat :=
  match s with
  | [] => None
  | x :: r => match last_index c r with
              | Some i => Some (S i)
              | None => if x =? c then Some O else None
              end
  end.

Definition trim_suffix (s suf : str) : str :=
  if has_suffix s suf then firstn (length s - length suf) s else s.

Definition count_byte (c : Z) (s : str) : nat := length (filter (fun x => x =? c) s).

Definition is_nil (s : str) : bool := match s with [] => true | _ => false end.

(* ---- incDecimal / decDecimal ---------------------------------------------------------- *)

(* incDecimal: scan right to left turning 9s into 0s, then increment the digit found; when
   every digit was 9 (or the string is empty) write '1' over digits[0] and append '0'.
   On the empty string digits[0] faults: None is that panic.
   (digits[i]++ is modelled as +1 on Z; at the only call site the bytes are digits.) *)
Definition inc_decimal (d : str) : option str :=
  let (nines, rest) := span (fun c => c =? 57) (rev d) in
  let zeros := map (fun _ => 48) nines in
  match rest with
  | x :: pre => Some (rev pre ++ [x + 1] ++ zeros)
  | [] => match zeros with
          | [] => None                              (* digits[0] on an empty slice *)
          | _ :: z => Some (49 :: z ++ [48])
          end
  end.

(* decDecimal: scan right to left turning 0s into 9s, then decrement the digit found;
   "" when all digits are 0 (or the string is empty); a leading "1" followed only by
   zeros is dropped. *)
Definition dec_decimal (d : str) : str :=
  let (zs, rest) := span (fun c => c =? 48) (rev d) in
  let nines := map (fun _ => 57) zs in
  match rest with
  | [] => []
  | x :: pre =>
      if is_nil pre && (x =? 49) && negb (is_nil zs) then nines      (* digits[1:] *)
      else rev pre ++ [x - 1] ++ nines
  end.

(* ---- PseudoVersion -------------------------------------------------------------------- *)

(* None: the (unreachable, see PseudoProofs.pseudo_version_no_panic) fault in incDecimal *)
Definition pseudo_version (major older ts rev : str) : option str :=
  let major := if is_nil major then B "v0" else major in
  let segment := ts ++ [45] ++ rev in
  let bld := build older in
  let older := canonical older in
  if is_nil older then Some (major ++ B ".0.0-" ++ segment)                       (* form 1 *)
  else if negb (is_nil (prerelease older)) then Some (older ++ B ".0." ++ segment ++ bld)  (* 4, 5 *)
  else
    let i := match last_index 46 older with Some k => S k | None => O end in
    let v := firstn i older in
    let patch := skipn i older in
    match inc_decimal patch with
    | Some p => Some (v ++ p ++ B "-0." ++ segment ++ bld)                        (* 2, 3 *)
    | None => None
    end.

(* ---- the regular expression pseudoVersionRE -------------------------------------------
   ^v[0-9]+\.(0\.0-|\d+\.\d+-([^+]*\.)?0\.)\d{14}-[A-Za-z0-9]+(\+[0-9A-Za-z-]+(\.[0-9A-Za-z-]+)* )?$
   (a space inserted before the last parenthesis to keep the comment open.)  Hand-written recogniser, byte level (IsPseudoVersion consults the expression only for
   strings accepted by semver.IsValid, which are ASCII).  The source string it was
   written for is pinned in PseudoProofs.pseudo_re_source against Gen/GenRegex.v. *)

Definition is_alnum (c : Z) : bool := is_digit c || is_upper c || is_lower c.   (* [A-Za-z0-9] *)
Definition is_bld_char (c : Z) : bool := is_alnum c || (c =? 45).                (* [0-9A-Za-z-] *)

(* [0-9A-Za-z-]+(\.[0-9A-Za-z-]+)* $ *)
Definition re_build_body (s : str) : bool :=
  forallb (fun id => negb (is_nil id) && forallb is_bld_char id) (split_on 46 s).

(* \d{14}-[A-Za-z0-9]+(\+[0-9A-Za-z-]+(\.[0-9A-Za-z-]+)* )?$ *)
Definition re_tail (s : str) : bool :=
  let d := firstn 14 s in
  (Nat.eqb (length d) 14) && forallb is_digit d &&
  match skipn 14 s with
  | 45 :: r =>
      let (rv, r') := span is_alnum r in
      negb (is_nil rv) &&
      match r' with
      | [] => true
      | 43 :: b => re_build_body b
      | _ => false
      end
  | _ => false
  end.

(* ([^+]*\.)?0\.<tail>  — [here] says that the optional group may end at this point:
   at the very start (group absent) or just after a '.' with no '+' consumed so far *)
Fixpoint re_pre (here : bool) (s : str) : bool :=
  (here && match s with 48 :: 46 :: t => re_tail t | _ => false end) ||
  match s with
  | [] => false
  | c :: r => if c =? 43 then false else re_pre (c =? 46) r
  end.

(* \d+<sep> : at least one digit, then the separator byte; returns the rest *)
Definition re_digits_then (sep : Z) (s : str) : option str :=
  let (ds, r) := span is_digit s in
  match ds, r with
  | _ :: _, c :: r' => if c =? sep then Some r' else None
  | _, _ => None
  end.

Definition pseudo_re_match (s : str) : bool :=
  match s with
  | 118 :: s1 =>
      match re_digits_then 46 s1 with                       (* v[0-9]+\. *)
      | None => false
      | Some s2 =>
          (match s2 with 48 :: 46 :: 48 :: 45 :: t => re_tail t | _ => false end)   (* 0\.0- *)
          || match re_digits_then 46 s2 with                (* \d+\. *)
             | None => false
             | Some s3 => match re_digits_then 45 s3 with   (* \d+- *)
                          | None => false
                          | Some s4 => re_pre true s4
                          end
             end
      end
  | _ => false
  end.

(* ---- IsPseudoVersion, parsePseudoVersion ----------------------------------------------- *)

Definition is_pseudo_version (v : str) : bool :=
  (2 <=? count_byte 45 v)%nat && is_valid v && pseudo_re_match v.

Inductive pres (A : Type) := POk (a : A) | PErr (kind : Z) | PPanic.
Arguments POk {A} a.
Arguments PErr {A} kind.
Arguments PPanic {A}.
(* error kinds: 0 not a pseudo-version (errPseudoSyntax); 1 "lacks base version, but has
   build metadata"; 2 "would have negative patch number"; 3 malformed time *)

Record pparts := mkParts { pp_base : str; pp_ts : str; pp_rev : str; pp_build : str }.

Definition parse_pseudo_version (v : str) : pres pparts :=
  if negb (is_pseudo_version v) then PErr 0 else
  let bld := build v in
  let v := trim_suffix v bld in
  match last_index 45 v with
  | None => PPanic                                   (* v[:j] with j = -1 *)
  | Some j =>
      let rev_ := skipn (S j) v in
      let v := firstn j v in
      let i := last_index 45 v in
      let dot := last_index 46 v in
      let dot_after := match dot, i with
                       | Some j2, Some i => (i <? j2)%nat
                       | Some _, None => true
                       | None, _ => false
                       end in
      if dot_after then
        match dot with
        | Some j2 => POk (mkParts (firstn j2 v) (skipn (S j2) v) rev_ bld)
        | None => PPanic
        end
      else
        match i with
        | Some i => POk (mkParts (firstn i v) (skipn (S i) v) rev_ bld)
        | None => PPanic                             (* v[:i] with i = -1 *)
        end
  end.

(* PseudoVersionBase *)
Definition pseudo_version_base (v : str) : pres str :=
  match parse_pseudo_version v with
  | PErr k => PErr k
  | PPanic => PPanic
  | POk p =>
      let base := pp_base p in
      let bld := pp_build p in
      let pre := prerelease base in
      if is_nil pre then
        if negb (is_nil bld) then PErr 1 else POk []
      else if str_eqb pre (B "-0") then
        let base := trim_suffix base pre in
        match last_index 46 base with
        | None => PPanic                              (* "missing patch number" *)
        | Some i =>
            let patch := dec_decimal (skipn (S i) base) in
            if is_nil patch then PErr 2
            else POk (firstn (S i) base ++ patch ++ bld)
        end
      else if negb (has_suffix base (B ".0")) then PPanic   (* "missing .0 before date" *)
      else POk (trim_suffix base (B ".0") ++ bld)
  end.

(* PseudoVersionRev *)
Definition pseudo_version_rev (v : str) : pres str :=
  match parse_pseudo_version v with
  | POk p => POk (pp_rev p) | PErr k => PErr k | PPanic => PPanic
  end.

(* time.Parse("20060102150405", ts) succeeds: four year digits (0000 allowed), month 01-12,
   day within the month (leap years by the Gregorian rule), 00-23, 00-59, 00-59 *)
Definition num2 (a b : Z) : Z := 10 * (a - 48) + (b - 48).
Definition ts_valid (ts : str) : bool :=
  match ts with
  | [y1; y2; y3; y4; m1; m2; d1; d2; h1; h2; n1; n2; s1; s2] =>
      forallb is_digit ts &&
      let y := 100 * num2 y1 y2 + num2 y3 y4 in
      let m := num2 m1 m2 in
      let d := num2 d1 d2 in
      let leap := (y mod 4 =? 0) && (negb (y mod 100 =? 0) || (y mod 400 =? 0)) in
      let dim := if m =? 2 then (if leap then 29 else 28)
                 else if (m =? 4) || (m =? 6) || (m =? 9) || (m =? 11) then 30 else 31 in
      (1 <=? m) && (m <=? 12) && (1 <=? d) && (d <=? dim) &&
      (num2 h1 h2 <=? 23) && (num2 n1 n2 <=? 59) && (num2 s1 s2 <=? 59)
  | _ => false
  end.

(* PseudoVersionTime, as the timestamp string of the parsed time *)
Definition pseudo_version_ts (v : str) : pres str :=
  match parse_pseudo_version v with
  | POk p => if ts_valid (pp_ts p) then POk (pp_ts p) else PErr 3
  | PErr k => PErr k | PPanic => PPanic
  end.

(* IsZeroPseudoVersion: v == ZeroPseudoVersion(semver.Major(v)) *)
Definition is_zero_pseudo_version (v : str) : bool :=
  match pseudo_version (major v) [] (B "00010101000000") (B "000000000000") with
  | Some z => str_eqb v z
  | None => false
  end.

(* the release that a pseudo-version built on [older] must stay below: vX.Y.(Z+1) for a
   release, vX.Y.Z for a prerelease *)
Definition next_release (older : str) : str :=
  match parse older with
  | None => []
  | Some p =>
      let patch := if is_nil (p_prerelease p) then
                     match inc_decimal (p_patch p) with Some q => q | None => [] end
                   else p_patch p in
      118 :: p_major p ++ [46] ++ p_minor p ++ [46] ++ patch
  end.
