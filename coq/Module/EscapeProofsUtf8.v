(* The Go loops of escapeString / unescapeString range over runes; Module/Escape.v works on
   bytes.  Here the rune-level formulation (over Base/Utf8.v, Go's range-over-string) is
   written down and proved equal to the byte-level one, for all strings including invalid
   UTF-8. *)
From Verif.Base Require Import Bytes Utf8.
From Verif.Module Require Import Path Escape EscapeProofs EscapeProofsPath.

(* escapeString, literally: both loops over the runes; byte(r) is r for r < 0x80 *)
Definition escape_string_runes (s : str) : esc_res :=
  let rs := runes s in
  if existsb esc_bad rs then EErr EInternal
  else if negb (existsb is_upper rs) then EOk s
  else EOk (flat_map esc_byte rs).

(* unescapeString, literally: the loop over the runes *)
Definition unescape_string_runes (e : str) : option str := unescape_from false (runes e).

Lemma runes_cons_lt128 b0 s : b0 < 128 -> runes (b0 :: s) = b0 :: runes s.
Proof.
  intros H. unfold runes. cbn [length runes_w]. rewrite (decode_lt128 b0 s H). reflexivity.
Qed.

Lemma runes_cons_ge128 b0 s : 128 <= b0 -> exists r rs, runes (b0 :: s) = r :: rs /\ 128 <= r.
Proof.
  intros H. unfold runes. cbn [length runes_w].
  pose proof (decode_ge128 b0 s H) as Hd. destruct (decode (b0 :: s)) as [r w].
  cbn [map fst] in *. eauto.
Qed.

Lemma runes_ascii_id s : forallb (fun c => c <? 128) s = true -> runes s = s.
Proof.
  induction s as [|b0 s IH]; [reflexivity|]. cbn [forallb]. rewrite andb_true_iff, Z.ltb_lt.
  intros [H Hs]. rewrite runes_cons_lt128 by assumption. now rewrite IH.
Qed.

Lemma esc_clean_lt128 s : esc_clean s -> forallb (fun c => c <? 128) s = true.
Proof.
  intros H. apply esc_clean_ascii in H as [H _]. apply forallb_forall. intros c Hc.
  apply Z.ltb_lt. unfold ascii in H. rewrite Forall_forall in H. auto.
Qed.

Lemma existsb_negb_forallb {A} (f : A -> bool) l : existsb f l = negb (forallb (fun x => negb (f x)) l).
Proof.
  induction l as [|x l IH]; [reflexivity|]. cbn [existsb forallb]. rewrite IH.
  destruct (f x); reflexivity.
Qed.

Lemma esc_bad_runes s : existsb esc_bad (runes s) = existsb esc_bad s.
Proof.
  destruct (existsb esc_bad s) eqn:Hs.
  - destruct (existsb esc_bad (runes s)) eqn:Hr; [reflexivity|].
    rewrite existsb_negb_forallb in Hr. apply negb_false_iff in Hr.
    apply runes_ascii in Hr.
    + rewrite existsb_negb_forallb, Hr in Hs. discriminate.
    + intros r H. apply negb_true_iff, esc_bad_false in H. tauto.
  - now rewrite (runes_ascii_id s (esc_clean_lt128 s Hs)).
Qed.

Theorem escape_string_runes_eq s : escape_string_runes s = escape_string s.
Proof.
  unfold escape_string_runes, escape_string. rewrite esc_bad_runes.
  destruct (existsb esc_bad s) eqn:Hs; [reflexivity|].
  now rewrite (runes_ascii_id s (esc_clean_lt128 s Hs)).
Qed.

Lemma unescape_from_runes b e : unescape_from b (runes e) = unescape_from b e.
Proof.
  revert b. induction e as [|c e IH]; intros b; [reflexivity|].
  destruct (Z.lt_ge_cases c 128) as [Hlt|Hge].
  - rewrite (runes_cons_lt128 c e Hlt). cbn [unescape_from]. now rewrite !IH.
  - destruct (runes_cons_ge128 c e Hge) as (r & rs & -> & Hr). cbn [unescape_from].
    apply Z.leb_le in Hge, Hr. now rewrite Hge, Hr.
Qed.

Theorem unescape_string_runes_eq e : unescape_string_runes e = unescape_string e.
Proof. apply unescape_from_runes. Qed.
