(* The model of path.Match (Module/Match.v) never reports fuel exhaustion. *)
From Verif.Base Require Import Bytes Utf8.
From Verif.Module Require Import Path Match PathProofsLists.

Lemma decode_width_pos s : s <> [] -> (1 <= snd (decode s))%nat.
Proof.
  intros Hne. unfold decode. destruct s as [|b0 r]; [contradiction|].
  destruct r as [|b1 [|b2 [|b3 r]]];
    repeat match goal with |- context [if ?c then _ else _] => destruct c end; simpl; lia.
Qed.

Lemma get_esc_tail_shorter (chunk1 : str) r nchunk :
  match chunk1 with
  | [] => None
  | _ :: _ =>
      let (rn, n) := decode chunk1 in
      let nchunk := skipn n chunk1 in
      if ((rn =? rune_error) && Nat.eqb n 1) || (match nchunk with [] => true | _ => false end)
      then None
      else Some (rn, nchunk)
  end = Some (r, nchunk) -> (length nchunk < length chunk1)%nat.
Proof.
  destruct chunk1 as [|x y]; [discriminate|].
  pose proof (decode_width_pos (x :: y)) as Hw.
  destruct (decode (x :: y)) as [rn n]. simpl snd in Hw. cbv zeta.
  destruct (((rn =? rune_error) && Nat.eqb n 1) || match skipn n (x :: y) with [] => true | _ => false end);
    [discriminate|].
  intros H. inversion H; subst. rewrite skipn_length.
  assert (1 <= n)%nat by (apply Hw; discriminate). simpl length. lia.
Qed.

Lemma get_esc_shorter chunk r nchunk :
  get_esc chunk = Some (r, nchunk) -> (length nchunk < length chunk)%nat.
Proof.
  unfold get_esc. destruct chunk as [|c rest]; [discriminate|].
  destruct ((c =? 45) || (c =? 93)); [discriminate|].
  destruct (c =? 92); intros H.
  - apply (get_esc_tail_shorter rest) in H. simpl. lia.
  - apply (get_esc_tail_shorter (c :: rest)) in H. exact H.
Qed.

Lemma hd_is_nonempty c s : hd_is c s = true -> s <> [].
Proof. destruct s; simpl; [discriminate | intros _; discriminate]. Qed.

Lemma tl_length_lt (s : str) : s <> [] -> (length (tl s) < length s)%nat.
Proof. destruct s; [contradiction | simpl; lia]. Qed.

Lemma tl_length_le (s : str) : (length (tl s) <= length s)%nat.
Proof. destruct s; simpl; lia. Qed.

Lemma class_loop_props fuel : forall r chunk nrange matched,
  (length chunk < fuel)%nat ->
  class_loop fuel r chunk nrange matched <> ClFuel /\
  (forall m rest, class_loop fuel r chunk nrange matched = ClOk m rest -> (length rest < length chunk)%nat).
Proof.
  induction fuel as [|f IH]; intros r chunk nrange matched Hlt; [lia|].
  cbn [class_loop].
  destruct (nrange && hd_is 93 chunk) eqn:Hclose.
  - split; [discriminate|]. intros m rest H. inversion H; subst.
    apply andb_true_iff in Hclose. destruct Hclose as [_ Hh].
    apply tl_length_lt. eapply hd_is_nonempty. exact Hh.
  - destruct (get_esc chunk) as [[lo chunk1]|] eqn:He; [|split; [discriminate | intros; discriminate]].
    apply get_esc_shorter in He.
    destruct (hd_is 45 chunk1).
    + destruct (get_esc (tl chunk1)) as [[hi chunk3]|] eqn:He2; [|split; [discriminate | intros; discriminate]].
      apply get_esc_shorter in He2. pose proof (tl_length_le chunk1).
      destruct (IH r chunk3 true (matched || ((lo <=? r) && (r <=? hi)))) as [H1 H2]; [lia|].
      split; [exact H1|]. intros m rest H'. specialize (H2 m rest H'). lia.
    + destruct (IH r chunk1 true (matched || ((lo <=? r) && (r <=? lo)))) as [H1 H2]; [lia|].
      split; [exact H1|]. intros m rest H'. specialize (H2 m rest H'). lia.
Qed.

Lemma match_chunk_no_fuel fuel : forall chunk st,
  (length chunk < fuel)%nat -> match_chunk fuel chunk st <> CFuel.
Proof.
  induction fuel as [|f IH]; intros chunk st Hlt; [lia|].
  cbn [match_chunk]. destruct chunk as [|c chunk1]; [destruct st; discriminate|].
  simpl in Hlt.
  destruct (c =? 91).
  - (* character class *)
    set (st0 := match st with Some [] => None | x => x end).
    destruct (match st0 with
              | Some s => let (rn, n) := decode s in (rn, Some (skipn n s))
              | None => (0, None)
              end) as [r st1].
    set (chunk2 := if hd_is 94 chunk1 then tl chunk1 else chunk1).
    assert (Hc2 : (length chunk2 <= length chunk1)%nat)
      by (unfold chunk2; destruct (hd_is 94 chunk1); [apply tl_length_le | lia]).
    destruct (class_loop_props (S (length chunk2)) r chunk2 false false) as [H1 H2]; [lia|].
    destruct (class_loop (S (length chunk2)) r chunk2 false false) as [| |m rest] eqn:Hcl;
      [discriminate | contradiction |].
    specialize (H2 m rest eq_refl). apply IH. lia.
  - destruct (c =? 63).
    + apply IH. lia.
    + destruct (c =? 92).
      * destruct chunk1 as [|l0 lrest]; [discriminate|]. apply IH. simpl in *. lia.
      * apply IH. lia.
Qed.

Lemma match_chunk_top_no_fuel chunk s : match_chunk_top chunk s <> CFuel.
Proof. apply match_chunk_no_fuel. lia. Qed.

Lemma star_try_no_fuel chunk last_chunk name : star_try chunk last_chunk name <> SFuel.
Proof.
  induction name as [|c name IH]; cbn [star_try]; [discriminate|].
  destruct (c =? 47); [discriminate|].
  pose proof (match_chunk_top_no_fuel chunk name) as Hn.
  destruct (match_chunk_top chunk name); try discriminate; try contradiction; try exact IH.
  destruct (last_chunk && negb match rest with [] => true | _ => false end); [exact IH | discriminate].
Qed.

(* ---- scanChunk makes progress ---------------------------------------------------------------------- *)

Lemma scan_length n : forall p inrange a b,
  (length p <= n)%nat -> scan inrange p = (a, b) -> (length b <= length p)%nat.
Proof.
  induction n as [|n IH]; intros p inrange a b Hn H.
  - destruct p; [|simpl in Hn; lia]. simpl in H. inversion H; subst. simpl. lia.
  - destruct p as [|c r]; [simpl in H; inversion H; subst; simpl; lia|].
    cbn [scan] in H. simpl in Hn.
    destruct (c =? 92).
    + destruct r as [|d r']; [inversion H; subst; simpl; lia|].
      destruct (scan inrange r') as [a' b'] eqn:Hs. inversion H; subst.
      apply IH in Hs; simpl in *; lia.
    + destruct (c =? 91).
      * destruct (scan true r) as [a' b'] eqn:Hs. inversion H; subst. apply IH in Hs; simpl; lia.
      * destruct (c =? 93).
        -- destruct (scan false r) as [a' b'] eqn:Hs. inversion H; subst. apply IH in Hs; simpl; lia.
        -- destruct ((c =? 42) && negb inrange); [inversion H; subst; simpl; lia|].
           destruct (scan inrange r) as [a' b'] eqn:Hs. inversion H; subst. apply IH in Hs; simpl; lia.
Qed.

Lemma scan_nonstar_progress c r a b :
  (c =? 42) = false -> scan false (c :: r) = (a, b) -> (length b < length (c :: r))%nat.
Proof.
  intros Hc H. cbn [scan] in H. rewrite Hc in H. cbn [andb] in H.
  destruct (c =? 92).
  - destruct r as [|d r']; [inversion H; subst; simpl; lia|].
    destruct (scan false r') as [a' b'] eqn:Hs. inversion H; subst.
    apply (scan_length (length r')) in Hs; simpl in *; lia.
  - destruct (c =? 91).
    + destruct (scan true r) as [a' b'] eqn:Hs. inversion H; subst.
      apply (scan_length (length r)) in Hs; simpl in *; lia.
    + destruct (c =? 93).
      * destruct (scan false r) as [a' b'] eqn:Hs. inversion H; subst.
        apply (scan_length (length r)) in Hs; simpl in *; lia.
      * destruct (scan false r) as [a' b'] eqn:Hs. inversion H; subst.
        apply (scan_length (length r)) in Hs; simpl in *; lia.
Qed.

Lemma scan_chunk_shorter pattern star chunk rest :
  pattern <> [] -> scan_chunk pattern = (star, chunk, rest) -> (length rest < length pattern)%nat.
Proof.
  intros Hne. unfold scan_chunk.
  destruct (span (fun c => c =? 42) pattern) as [stars p] eqn:Hsp.
  apply span_spec in Hsp. destruct Hsp as (Hp & _ & Hhd).
  destruct (scan false p) as [ch rs] eqn:Hs. intros H. inversion H; subst star chunk rest. clear H.
  destruct stars as [|s0 stars].
  - simpl in Hp. subst p. destruct Hhd as [->|(c & r & -> & Hc)]; [contradiction|].
    eapply scan_nonstar_progress; eassumption.
  - apply (scan_length (length p)) in Hs; [|lia]. rewrite Hp, app_length. simpl. lia.
Qed.

(* ---- Match ------------------------------------------------------------------------------------------- *)

Lemma rest_valid_no_fuel fuel : forall pattern,
  (length pattern < fuel)%nat -> rest_valid fuel pattern <> MFuel.
Proof.
  induction fuel as [|f IH]; intros pattern Hlt; [lia|].
  cbn [rest_valid]. destruct pattern as [|p0 pat]; [discriminate|].
  destruct (scan_chunk (p0 :: pat)) as [[star chunk] rest] eqn:Hsc.
  apply scan_chunk_shorter in Hsc; [|discriminate].
  pose proof (match_chunk_top_no_fuel chunk []) as Hn.
  destruct (match_chunk_top chunk []); try discriminate; try contradiction; apply IH; simpl in *; lia.
Qed.

Lemma match_loop_no_fuel fuel : forall pattern name,
  (length pattern < fuel)%nat -> match_loop fuel pattern name <> MFuel.
Proof.
  induction fuel as [|f IH]; intros pattern name Hlt; [lia|].
  cbn [match_loop]. destruct pattern as [|p0 pat]; [discriminate|].
  destruct (scan_chunk (p0 :: pat)) as [[star chunk] rest] eqn:Hsc.
  apply scan_chunk_shorter in Hsc; [|discriminate].
  assert (Hrest : (length rest < f)%nat) by (simpl in *; lia).
  destruct (star && match chunk with [] => true | _ => false end); [discriminate|].
  assert (Hafter : forall r, r <> CFuel ->
            match r with
            | CBad => MBad
            | CFuel => MFuel
            | _ =>
                if star then
                  match star_try chunk (match rest with [] => true | _ => false end) name with
                  | SFound t => match_loop f rest t
                  | SBad => MBad
                  | SFuel => MFuel
                  | SNone => rest_valid (S (length rest)) rest
                  end
                else rest_valid (S (length rest)) rest
            end <> MFuel).
  { intros r Hr.
    assert (Hrv : rest_valid (S (length rest)) rest <> MFuel) by (apply rest_valid_no_fuel; lia).
    pose proof (star_try_no_fuel chunk (match rest with [] => true | _ => false end) name) as Hst.
    destruct r; try discriminate; try contradiction;
      (destruct star; [|exact Hrv]);
      (destruct (star_try chunk (match rest with [] => true | _ => false end) name);
       try discriminate; try contradiction; try exact Hrv; apply IH; exact Hrest). }
  pose proof (match_chunk_top_no_fuel chunk name) as Hn.
  destruct (match_chunk_top chunk name) as [| | |t] eqn:Hm; try contradiction.
  - apply (Hafter CBad). discriminate.
  - apply (Hafter CFail). discriminate.
  - destruct ((match t with [] => true | _ => false end) || negb (match rest with [] => true | _ => false end)).
    + apply IH. exact Hrest.
    + apply (Hafter (CMatch t)). discriminate.
Qed.

Theorem path_match_no_fuel pattern name : path_match pattern name <> MFuel.
Proof. apply match_loop_no_fuel. lia. Qed.
