(* incDecimal / decDecimal on decimal strings of any length. *)
From Verif.Base Require Import Bytes.
From Verif.Semver Require Import Model Spec ProofsStr.
From Verif.Module Require Import Pseudo.

Lemma rev_repeat {A} (x : A) k : rev (repeat x k) = repeat x k.
Proof.
  induction k as [|k IH]; [reflexivity|].
  cbn [repeat rev]. rewrite IH. clear IH.
  induction k as [|k IH]; [reflexivity|]. cbn [repeat app]. now rewrite IH.
Qed.

Lemma map_const_repeat {A B} (y : B) (x : A) k : map (fun _ => y) (repeat x k) = repeat y k.
Proof. induction k as [|k IH]; [reflexivity|]. cbn [repeat map]. now rewrite IH. Qed.

Lemma forallb_repeat {A} (p : A -> bool) x k : p x = true -> forallb p (repeat x k) = true.
Proof. intros H. induction k as [|k IH]; [reflexivity|]. cbn [repeat forallb]. now rewrite H, IH. Qed.

Lemma rev_snoc_repeat (a : str) x c k : rev (a ++ x :: repeat c k) = repeat c k ++ x :: rev a.
Proof.
  rewrite rev_app_distr. cbn [rev]. rewrite rev_repeat, <- app_assoc. reflexivity.
Qed.

(* every string is a (possibly empty) prefix, one byte other than c, and a run of c; or a
   run of c only *)
Lemma tail_run_decompose (c : Z) (d : str) :
  (exists a x k, d = a ++ x :: repeat c k /\ x <> c) \/ (exists k, d = repeat c k).
Proof.
  induction d as [|y d IH].
  - right. exists O. reflexivity.
  - destruct IH as [(a & x & k & -> & Hx)|(k & ->)].
    + left. exists (y :: a), x, k. auto.
    + destruct (Z.eq_dec y c) as [->|Hy].
      * right. exists (S k). reflexivity.
      * left. exists [], y, k. auto.
Qed.

(* ---- incDecimal ---------------------------------------------------------------------- *)

Lemma inc_decimal_carry (a : str) x k :
  x <> 57 -> inc_decimal (a ++ x :: repeat 57 k) = Some (a ++ (x + 1) :: repeat 48 k).
Proof.
  intros Hx. unfold inc_decimal. rewrite rev_snoc_repeat.
  rewrite span_app.
  - rewrite map_const_repeat, rev_involutive. reflexivity.
  - apply forallb_repeat. reflexivity.
  - cbn [stops]. apply negb_true_iff. now apply Z.eqb_neq.
Qed.

Lemma inc_decimal_nines k :
  inc_decimal (repeat 57 (S k)) = Some (49 :: repeat 48 (S k)).
Proof.
  unfold inc_decimal. rewrite rev_repeat.
  rewrite <- (app_nil_r (repeat 57 (S k))) at 1. rewrite span_app; [|now apply forallb_repeat|reflexivity].
  rewrite map_const_repeat. cbn [repeat]. f_equal. f_equal.
  change (repeat 48 k ++ [48] = repeat 48 (S k)).
  induction k as [|k IH]; [reflexivity|]. cbn [repeat app]. now rewrite IH.
Qed.

(* the only fault of incDecimal is the empty string *)
Lemma inc_decimal_empty : inc_decimal [] = None.
Proof. reflexivity. Qed.

Lemma inc_decimal_some d : d <> [] -> exists d', inc_decimal d = Some d'.
Proof.
  intros Hd. destruct (tail_run_decompose 57 d) as [(a & x & k & -> & Hx)|(k & ->)].
  - eexists. now apply inc_decimal_carry.
  - destruct k as [|k]; [exfalso; apply Hd; reflexivity|]. eexists. apply inc_decimal_nines.
Qed.

(* ---- decDecimal ---------------------------------------------------------------------- *)

Lemma dec_decimal_borrow (a : str) x k :
  x <> 48 ->
  dec_decimal (a ++ x :: repeat 48 k) =
  if is_nil a && (x =? 49) && negb (Nat.eqb k 0) then repeat 57 k
  else a ++ (x - 1) :: repeat 57 k.
Proof.
  intros Hx. unfold dec_decimal. rewrite rev_snoc_repeat.
  rewrite span_app.
  - rewrite map_const_repeat, rev_involutive.
    replace (Pseudo.is_nil (rev a)) with (is_nil a) by (destruct a as [|y a]; [reflexivity|];
      cbn [rev]; destruct (rev a); reflexivity).
    replace (negb (Pseudo.is_nil (repeat 48 k))) with (negb (Nat.eqb k 0)) by (destruct k; reflexivity).
    reflexivity.
  - apply forallb_repeat. reflexivity.
  - cbn [stops]. apply negb_true_iff. now apply Z.eqb_neq.
Qed.

(* "" exactly when every digit is '0' (in particular on the empty string) *)
Lemma dec_decimal_zeros k : dec_decimal (repeat 48 k) = [].
Proof.
  unfold dec_decimal. rewrite rev_repeat.
  rewrite <- (app_nil_r (repeat 48 k)) at 1. rewrite span_app; [reflexivity|now apply forallb_repeat|reflexivity].
Qed.

(* ---- numerals ------------------------------------------------------------------------ *)

Lemma numeral_inv d :
  numeral d = true -> exists c r, d = c :: r /\ is_digit c = true /\ all_digits r = true /\ (c <> 48 \/ r = []).
Proof.
  destruct d as [|c r]; [discriminate|]. cbn [numeral].
  rewrite !andb_true_iff, orb_true_iff, negb_true_iff, Z.eqb_neq.
  intros [[Hc Hr] Hz]. exists c, r. repeat split; auto.
  destruct Hz as [Hz|Hz]; [now left|right]. now destruct r.
Qed.

Lemma numeral_digits d : numeral d = true -> forallb is_digit d = true /\ d <> [].
Proof.
  intros H. destruct (numeral_inv d H) as (c & r & -> & Hc & Hr & _).
  split; [|discriminate]. cbn [forallb]. now rewrite Hc.
Qed.

Lemma is_digit_iff c : is_digit c = true <-> 48 <= c <= 57.
Proof. unfold is_digit. rewrite andb_true_iff, !Z.leb_le. tauto. Qed.

Lemma forallb_app_iff {A} (p : A -> bool) a b :
  forallb p (a ++ b) = true <-> forallb p a = true /\ forallb p b = true.
Proof. rewrite forallb_app, andb_true_iff. tauto. Qed.

(* incDecimal of a numeral is a numeral, one larger in the order compare_int decides *)
Lemma inc_decimal_numeral d :
  numeral d = true -> exists d', inc_decimal d = Some d' /\ numeral d' = true /\ compare_int d d' = -1.
Proof.
  intros Hn. destruct (numeral_digits d Hn) as [Hdig Hne].
  destruct (tail_run_decompose 57 d) as [(a & x & k & -> & Hx)|(k & ->)].
  - exists (a ++ (x + 1) :: repeat 48 k). split; [now apply inc_decimal_carry|].
    apply forallb_app_iff in Hdig as [Ha Hxk]. cbn [forallb] in Hxk.
    apply andb_true_iff in Hxk as [Hxd _]. apply is_digit_iff in Hxd.
    assert (Hx1 : is_digit (x + 1) = true) by (apply is_digit_iff; lia).
    assert (Hz : forallb is_digit (repeat 48 k) = true) by now apply forallb_repeat.
    split.
    + destruct a as [|c a].
      * cbn [app numeral]. rewrite Hx1. unfold all_digits. rewrite Hz.
        replace (x + 1 =? 48) with false by (symmetry; apply Z.eqb_neq; lia). reflexivity.
      * destruct (numeral_inv _ Hn) as (c' & r & E & Hc & Hr & Hz').
        cbn [app] in E. injection E as <- <-.
        cbn [app numeral]. rewrite Hc. unfold all_digits.
        cbn [forallb] in Ha. apply andb_true_iff in Ha as [_ Ha].
        replace (forallb is_digit (a ++ (x + 1) :: repeat 48 k)) with true
          by (symmetry; apply forallb_app_iff; split; [assumption|]; cbn [forallb]; now rewrite Hx1, Hz).
        destruct Hz' as [Hz'|Hz']; [|now destruct a].
        replace (c =? 48) with false by (symmetry; now apply Z.eqb_neq). reflexivity.
    + unfold compare_int.
      replace (str_eqb (a ++ x :: repeat 57 k) (a ++ (x + 1) :: repeat 48 k)) with false.
      2:{ symmetry. apply str_eqb_false. intros E. apply app_inv_head in E. injection E. lia. }
      unfold len. rewrite !app_length. cbn [length]. rewrite !repeat_length.
      rewrite !Z.ltb_irrefl.
      replace (str_ltb (a ++ x :: repeat 57 k) (a ++ (x + 1) :: repeat 48 k)) with true; [reflexivity|].
      symmetry. apply str_ltb_lt. clear.
      induction a as [|c a IH]; cbn [app str_cmp].
      * replace (x ?= x + 1) with Lt by (symmetry; apply Z.compare_lt_iff; lia). reflexivity.
      * rewrite Z.compare_refl. exact IH.
  - destruct k as [|k]; [exfalso; apply Hne; reflexivity|].
    exists (49 :: repeat 48 (S k)). split; [apply inc_decimal_nines|]. split.
    + cbn [numeral]. unfold all_digits. rewrite forallb_repeat by reflexivity. reflexivity.
    + unfold compare_int.
      replace (str_eqb (repeat 57 (S k)) (49 :: repeat 48 (S k))) with false
        by (symmetry; apply str_eqb_false; cbn [repeat]; congruence).
      unfold len. cbn [length]. rewrite !repeat_length.
      replace (Z.of_nat (S k) <? Z.of_nat (S (S k))) with true by (symmetry; apply Z.ltb_lt; lia).
      reflexivity.
Qed.

(* decDecimal undoes incDecimal on every numeral, of any length *)
Theorem inc_dec_decimal d d' :
  numeral d = true -> inc_decimal d = Some d' -> dec_decimal d' = d.
Proof.
  intros Hn Hi. destruct (numeral_digits d Hn) as [Hdig Hne].
  destruct (tail_run_decompose 57 d) as [(a & x & k & -> & Hx)|(k & ->)].
  - rewrite inc_decimal_carry in Hi by assumption. injection Hi as <-.
    apply forallb_app_iff in Hdig as [Ha Hxk]. cbn [forallb] in Hxk.
    apply andb_true_iff in Hxk as [Hxd _]. apply is_digit_iff in Hxd.
    rewrite dec_decimal_borrow by lia.
    destruct (is_nil a && (x + 1 =? 49) && negb (Nat.eqb k 0)) eqn:E.
    + (* only "0" followed by nines gets here, which is not a numeral *)
      apply andb_true_iff in E as [E Hk]. apply andb_true_iff in E as [Ha0 Hx49].
      destruct a; [|discriminate]. apply Z.eqb_eq in Hx49. assert (x = 48) as -> by lia.
      destruct k as [|k]; [discriminate|].
      cbn [app numeral repeat is_nil] in Hn. replace (48 =? 48) with true in Hn by reflexivity.
      cbn [negb orb] in Hn. rewrite andb_false_r in Hn. discriminate.
    + replace (x + 1 - 1) with x by lia. reflexivity.
  - destruct k as [|k]; [exfalso; apply Hne; reflexivity|].
    rewrite inc_decimal_nines in Hi. injection Hi as <-.
    assert (H := dec_decimal_borrow [] 49 (S k) ltac:(lia)).
    cbn [app repeat] in H |- *. rewrite H. reflexivity.
Qed.

(* what the code does on digit strings that are not numerals: with leading zeros the
   round trip still holds unless the string is '0' followed only by nines, where the
   leading zero is lost ("099" -> "100" -> "99") *)
Theorem inc_dec_decimal_digits d d' :
  forallb is_digit d = true -> d <> [] ->
  (forall k, d <> 48 :: repeat 57 (S k)) ->
  inc_decimal d = Some d' -> dec_decimal d' = d.
Proof.
  intros Hdig Hne Hshape Hi.
  destruct (tail_run_decompose 57 d) as [(a & x & k & -> & Hx)|(k & ->)].
  - rewrite inc_decimal_carry in Hi by assumption. injection Hi as <-.
    apply forallb_app_iff in Hdig as [Ha Hxk]. cbn [forallb] in Hxk.
    apply andb_true_iff in Hxk as [Hxd _]. apply is_digit_iff in Hxd.
    rewrite dec_decimal_borrow by lia.
    destruct (is_nil a && (x + 1 =? 49) && negb (Nat.eqb k 0)) eqn:E.
    + apply andb_true_iff in E as [E Hk]. apply andb_true_iff in E as [Ha0 Hx49].
      destruct a; [|discriminate]. apply Z.eqb_eq in Hx49. assert (x = 48) as -> by lia.
      destruct k as [|k]; [discriminate|]. exfalso. apply (Hshape k). reflexivity.
    + replace (x + 1 - 1) with x by lia. reflexivity.
  - destruct k as [|k]; [exfalso; apply Hne; reflexivity|].
    rewrite inc_decimal_nines in Hi. injection Hi as <-.
    assert (H := dec_decimal_borrow [] 49 (S k) ltac:(lia)).
    cbn [app repeat] in H |- *. rewrite H. reflexivity.
Qed.

Theorem inc_dec_decimal_leading_zero_refuted k :
  inc_decimal (48 :: repeat 57 (S k)) = Some (49 :: repeat 48 (S k)) /\
  dec_decimal (49 :: repeat 48 (S k)) = repeat 57 (S k).
Proof.
  split.
  - assert (H := inc_decimal_carry [] 48 (S k) ltac:(lia)).
    cbn [app repeat] in H |- *. rewrite H. reflexivity.
  - assert (H := dec_decimal_borrow [] 49 (S k) ltac:(lia)).
    cbn [app repeat] in H |- *. rewrite H. reflexivity.
Qed.

Example inc_dec_examples :
  inc_decimal (B "0") = Some (B "1") /\ dec_decimal (B "1") = B "0" /\
  inc_decimal (B "999") = Some (B "1000") /\ dec_decimal (B "1000") = B "999" /\
  inc_decimal (B "099") = Some (B "100") /\ dec_decimal (B "100") = B "99" /\
  inc_decimal (B "007") = Some (B "008") /\ dec_decimal (B "008") = B "007" /\
  dec_decimal (B "0") = [] /\ dec_decimal (B "000") = [] /\ dec_decimal [] = [] /\
  dec_decimal (B "10") = B "9" /\ dec_decimal (B "010") = B "009".
Proof. vm_compute. repeat split. Qed.
