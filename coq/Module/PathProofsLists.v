(* General lemmas about the list operations of Base/Bytes.v used by the path proofs:
   span, has_prefix/has_suffix, split_on/join, last. *)
From Verif.Base Require Import Bytes.
From Verif.Module Require Import Path PathSpec.

(* ---- span ---------------------------------------------------------------------------------- *)

Lemma span_spec (f : Z -> bool) s a b :
  span f s = (a, b) ->
  s = a ++ b /\ forallb f a = true /\ (b = [] \/ exists c r, b = c :: r /\ f c = false).
Proof.
  revert a b. induction s as [|c s IH]; intros a b H; simpl in H.
  - inversion H; subst. auto.
  - destruct (f c) eqn:Hc.
    + destruct (span f s) as [a' b'] eqn:Hs. inversion H; subst.
      destruct (IH a' b eq_refl) as (E & Fa & Hb). subst s. simpl. rewrite Hc, Fa. auto.
    + inversion H; subst. simpl. split; [reflexivity|]. split; [reflexivity|].
      right. exists c, s. auto.
Qed.

Lemma span_unique (f : Z -> bool) a b :
  forallb f a = true -> (b = [] \/ exists c r, b = c :: r /\ f c = false) ->
  span f (a ++ b) = (a, b).
Proof.
  intros Fa Hb. induction a as [|x a IH]; simpl in *.
  - destruct Hb as [->|(c & r & -> & Hc)]; simpl; [reflexivity | rewrite Hc; reflexivity].
  - apply andb_true_iff in Fa. destruct Fa as [Hx Fa]. rewrite Hx, (IH Fa). reflexivity.
Qed.

Lemma span_fst_no (c : Z) s a b :
  span (fun x => negb (x =? c)) s = (a, b) -> ~ In c a.
Proof.
  intros H. apply span_spec in H. destruct H as (_ & Fa & _).
  rewrite forallb_forall in Fa. intros Hin. specialize (Fa c Hin).
  rewrite Z.eqb_refl in Fa. discriminate.
Qed.

(* ---- prefixes and suffixes ------------------------------------------------------------------ *)

Lemma has_prefix_iff s p : has_prefix s p = true <-> exists r, s = p ++ r.
Proof.
  revert s. induction p as [|x p IH]; intros s; destruct s as [|y s]; simpl.
  - split; [intros _; exists []; reflexivity | reflexivity].
  - split; [intros _; exists (y :: s); reflexivity | reflexivity].
  - split; [discriminate | intros (r & H); discriminate].
  - rewrite andb_true_iff, Z.eqb_eq, IH. split.
    + intros (-> & r & ->). exists r. reflexivity.
    + intros (r & H). inversion H; subst. split; [reflexivity | exists r; reflexivity].
Qed.

Lemma has_suffix_iff s p : has_suffix s p = true <-> exists r, s = r ++ p.
Proof.
  unfold has_suffix. rewrite has_prefix_iff. split.
  - intros (r & H). exists (rev r). apply (f_equal (@rev Z)) in H.
    rewrite rev_involutive, rev_app_distr, rev_involutive in H. exact H.
  - intros (r & ->). exists (rev r). apply rev_app_distr.
Qed.

Lemma trim_suffix_app r suf : trim_suffix (r ++ suf) suf = r.
Proof.
  unfold trim_suffix.
  assert (H : has_suffix (r ++ suf) suf = true) by (apply has_suffix_iff; exists r; reflexivity).
  rewrite H, app_length, Nat.add_sub, firstn_app, Nat.sub_diag, firstn_all. simpl.
  apply app_nil_r.
Qed.

Lemma last_app_single {A} (a : list A) x d : last (a ++ [x]) d = x.
Proof. apply last_last. Qed.

Lemma nonempty_snoc (l : str) : l <> [] -> exists a x, l = a ++ [x].
Proof.
  intros H. exists (removelast l), (last l 0). apply app_removelast_last. exact H.
Qed.

Lemma is_nil_false (s : str) : is_nil s = false <-> s <> [].
Proof. destruct s; simpl; split; congruence. Qed.

Lemma is_nil_true (s : str) : is_nil s = true <-> s = [].
Proof. destruct s; simpl; split; congruence. Qed.

Lemma head_is_iff c s : head_is c s = true <-> exists a, s = c :: a.
Proof.
  destruct s as [|x s]; simpl.
  - split; [discriminate | intros (a & H); discriminate].
  - rewrite Z.eqb_eq. split.
    + intros ->. exists s. reflexivity.
    + intros (a & H). inversion H; reflexivity.
Qed.

Lemma last_is_iff c (s : str) : s <> [] -> ((last s 0 =? c) = true <-> exists a, s = a ++ [c]).
Proof.
  intros Hne. destruct (nonempty_snoc s Hne) as (a & x & ->). rewrite last_last, Z.eqb_eq.
  split.
  - intros ->. exists a. reflexivity.
  - intros (a' & H). apply app_inj_tail in H. destruct H as [_ H]. exact H.
Qed.

Lemma contains_byte_iff c s : contains_byte c s = true <-> In c s.
Proof.
  unfold contains_byte. rewrite existsb_exists. split.
  - intros (x & Hin & Hx). apply Z.eqb_eq in Hx. subst. exact Hin.
  - intros H. exists c. split; [exact H | apply Z.eqb_refl].
Qed.

(* ---- split_on and join ------------------------------------------------------------------------ *)

Lemma split_on_nonempty sep s : split_on sep s <> [].
Proof.
  induction s as [|c s IH]; simpl; [discriminate|].
  destruct (c =? sep); [discriminate|]. destruct (split_on sep s); [contradiction | discriminate].
Qed.

Lemma join_cons sep e r : r <> [] -> join sep (e :: r) = e ++ sep :: join sep r.
Proof. destruct r; [contradiction | reflexivity]. Qed.

Lemma join_cons_cons sep c h t : join sep ((c :: h) :: t) = c :: join sep (h :: t).
Proof. destruct t; reflexivity. Qed.

Lemma join_split_on sep s : join sep (split_on sep s) = s.
Proof.
  induction s as [|c s IH]; [reflexivity|]. cbn [split_on].
  destruct (c =? sep) eqn:Hc.
  - apply Z.eqb_eq in Hc. subst c. rewrite join_cons by apply split_on_nonempty.
    rewrite IH. reflexivity.
  - pose proof (split_on_nonempty sep s) as Hne.
    destruct (split_on sep s) as [|h t] eqn:Hs; [contradiction|].
    rewrite join_cons_cons. f_equal. exact IH.
Qed.

Lemma split_on_no_sep sep s : Forall (fun e => ~ In sep e) (split_on sep s).
Proof.
  induction s as [|c s IH]; simpl.
  - constructor; auto.
  - destruct (c =? sep) eqn:Hc.
    + constructor; auto.
    + pose proof (split_on_nonempty sep s) as Hne.
      destruct (split_on sep s) as [|h t]; [contradiction|].
      inversion IH; subst. constructor; auto.
      intros [Hin|Hin]; [subst; rewrite Z.eqb_refl in Hc; discriminate | auto].
Qed.

Lemma split_on_app_no_sep sep e s :
  ~ In sep e -> split_on sep (e ++ sep :: s) = e :: split_on sep s.
Proof.
  induction e as [|c e IH]; intros Hno; simpl.
  - rewrite Z.eqb_refl. reflexivity.
  - destruct (c =? sep) eqn:Hc.
    + apply Z.eqb_eq in Hc. subst. exfalso. apply Hno. left. reflexivity.
    + rewrite IH by (intros H; apply Hno; right; exact H). reflexivity.
Qed.

Lemma split_on_single sep e : ~ In sep e -> split_on sep e = [e].
Proof.
  induction e as [|c e IH]; intros Hno; simpl; [reflexivity|].
  destruct (c =? sep) eqn:Hc.
  - apply Z.eqb_eq in Hc. subst. exfalso. apply Hno. left. reflexivity.
  - rewrite IH by (intros H; apply Hno; right; exact H). reflexivity.
Qed.

Lemma split_on_join sep items :
  items <> [] -> Forall (fun e => ~ In sep e) items -> split_on sep (join sep items) = items.
Proof.
  induction items as [|e r IH]; intros Hne Hall; [contradiction|].
  inversion Hall as [|? ? He Hr]; subst.
  destruct r as [|e' r].
  - simpl. apply split_on_single. exact He.
  - rewrite join_cons by discriminate. rewrite split_on_app_no_sep by exact He.
    rewrite IH; [reflexivity | discriminate | exact Hr].
Qed.
