(* Executable model of Go's path.Match (src/path/match.go: Match, scanChunk, matchChunk,
   getEsc, including ErrBadPattern) and of module.MatchPrefixPatterns.
   Definitions only; proofs live in Module/PathProofsMatch.v.

   Loops whose argument does not shrink structurally carry fuel; fuel exhaustion is the
   separate result MFuel / CFuel, excluded by theorem path_match_no_fuel. *)
From Verif.Base Require Import Bytes Utf8.

Definition hd_is (c : Z) (s : str) : bool :=
  match s with x :: _ => x =? c | [] => false end.

(* ---- getEsc: a possibly escaped character of a character class -------------------------
   None = ErrBadPattern; Some (r, nchunk) otherwise (nchunk is then non-empty). *)
Definition get_esc (chunk : str) : option (Z * str) :=
  match chunk with
  | [] => None
  | c :: r =>
      if (c =? 45) || (c =? 93) then None
      else
        let chunk1 := if c =? 92 then r else chunk in
        match chunk1 with
        | [] => None
        | _ :: _ =>
            let (rn, n) := decode chunk1 in
            let nchunk := skipn n chunk1 in
            if ((rn =? rune_error) && Nat.eqb n 1) || (match nchunk with [] => true | _ => false end)
            then None
            else Some (rn, nchunk)
        end
  end.

Inductive class_res := ClBad | ClFuel | ClOk (matched : bool) (rest : str).

(* the `for { ... }` loop over the ranges of one character class; r is the rune read from
   the name (0 when the match has already failed) *)
Fixpoint class_loop (fuel : nat) (r : Z) (chunk : str) (nrange : bool) (matched : bool) : class_res :=
  match fuel with
  | O => ClFuel
  | S f =>
      if nrange && hd_is 93 chunk then ClOk matched (tl chunk)
      else
        match get_esc chunk with
        | None => ClBad
        | Some (lo, chunk1) =>
            if hd_is 45 chunk1 then
              match get_esc (tl chunk1) with
              | None => ClBad
              | Some (hi, chunk3) =>
                  class_loop f r chunk3 true (matched || ((lo <=? r) && (r <=? hi)))
              end
            else class_loop f r chunk1 true (matched || ((lo <=? r) && (r <=? lo)))
        end
  end.

Inductive chunk_res := CBad | CFuel | CFail | CMatch (rest : str).

(* matchChunk.  The state is [Some s] while the match is alive (Go: failed = false, s the
   unread part of the name) and [None] after it has failed (Go keeps scanning the chunk
   for syntax errors only). *)
Fixpoint match_chunk (fuel : nat) (chunk : str) (st : option str) : chunk_res :=
  match fuel with
  | O => CFuel
  | S f =>
      match chunk with
      | [] => match st with Some s => CMatch s | None => CFail end
      | c :: chunk1 =>
          let st := match st with Some [] => None | x => x end in
          if c =? 91 then                                   (* '[' *)
            let '(r, st1) := match st with
                             | Some s => let (rn, n) := decode s in (rn, Some (skipn n s))
                             | None => (0, None)
                             end in
            let negated := hd_is 94 chunk1 in
            let chunk2 := if negated then tl chunk1 else chunk1 in
            match class_loop (S (length chunk2)) r chunk2 false false with
            | ClBad => CBad
            | ClFuel => CFuel
            | ClOk matched rest =>
                match_chunk f rest (if Bool.eqb matched negated then None else st1)
            end
          else if c =? 63 then                              (* '?' *)
            match_chunk f chunk1
              (match st with
               | Some ((s0 :: _) as s) =>
                   if s0 =? 47 then None else Some (skipn (snd (decode s)) s)
               | _ => None
               end)
          else
            let lit := if c =? 92 then chunk1 else chunk in  (* '\\': drop the backslash *)
            match lit with
            | [] => CBad                                    (* pattern ends in a backslash *)
            | l0 :: lrest =>
                match_chunk f lrest
                  (match st with
                   | Some (s0 :: s') => if l0 =? s0 then Some s' else None
                   | _ => None
                   end)
            end
      end
  end.

Definition match_chunk_top (chunk s : str) : chunk_res :=
  match_chunk (S (length chunk)) chunk (Some s).

(* ---- scanChunk -------------------------------------------------------------------------- *)
Fixpoint scan (inrange : bool) (p : str) : str * str :=
  match p with
  | [] => ([], [])
  | c :: r =>
      if c =? 92 then
        match r with
        | [] => ([c], [])
        | d :: r' => let (a, b) := scan inrange r' in (c :: d :: a, b)
        end
      else if c =? 91 then let (a, b) := scan true r in (c :: a, b)
      else if c =? 93 then let (a, b) := scan false r in (c :: a, b)
      else if (c =? 42) && negb inrange then ([], p)
      else let (a, b) := scan inrange r in (c :: a, b)
  end.

(* (star, chunk, rest) *)
Definition scan_chunk (pattern : str) : bool * str * str :=
  let (stars, p) := span (fun c => c =? 42) pattern in
  let (chunk, rest) := scan false p in
  (negb (match stars with [] => true | _ => false end), chunk, rest).

(* ---- Match ------------------------------------------------------------------------------- *)
Inductive mres := MBad | MFuel | MOk (matched : bool).

Inductive star_res := SBad | SFuel | SNone | SFound (t : str).

(* the inner loop `for i := 0; i < len(name) && name[i] != '/'; i++` *)
Fixpoint star_try (chunk : str) (last_chunk : bool) (name : str) : star_res :=
  match name with
  | [] => SNone
  | c :: name' =>
      if c =? 47 then SNone
      else match match_chunk_top chunk name' with
           | CMatch t =>
               if last_chunk && negb (match t with [] => true | _ => false end)
               then star_try chunk last_chunk name'
               else SFound t
           | CBad => SBad
           | CFuel => SFuel
           | CFail => star_try chunk last_chunk name'
           end
  end.

(* "check that the remainder of the pattern is syntactically valid" *)
Fixpoint rest_valid (fuel : nat) (pattern : str) : mres :=
  match fuel with
  | O => MFuel
  | S f =>
      match pattern with
      | [] => MOk false
      | _ =>
          let '(_, chunk, rest) := scan_chunk pattern in
          match match_chunk_top chunk [] with
          | CBad => MBad
          | CFuel => MFuel
          | _ => rest_valid f rest
          end
      end
  end.

Fixpoint match_loop (fuel : nat) (pattern name : str) : mres :=
  match fuel with
  | O => MFuel
  | S f =>
      match pattern with
      | [] => MOk (match name with [] => true | _ => false end)
      | _ =>
          let '(star, chunk, rest) := scan_chunk pattern in
          let last_chunk := match rest with [] => true | _ => false end in
          if star && (match chunk with [] => true | _ => false end)
          then MOk (negb (contains_byte 47 name))
          else
            let after_first (r : chunk_res) : mres :=
              match r with
              | CBad => MBad
              | CFuel => MFuel
              | _ =>
                  if star then
                    match star_try chunk last_chunk name with
                    | SFound t => match_loop f rest t
                    | SBad => MBad
                    | SFuel => MFuel
                    | SNone => rest_valid (S (length rest)) rest
                    end
                  else rest_valid (S (length rest)) rest
              end in
            match match_chunk_top chunk name with
            | CMatch t =>
                if (match t with [] => true | _ => false end) || negb last_chunk
                then match_loop f rest t
                else after_first (CMatch t)
            | r => after_first r
            end
      end
  end.

(* path.Match(pattern, name): MOk matched | MBad (ErrBadPattern) *)
Definition path_match (pattern name : str) : mres :=
  match_loop (S (length pattern)) pattern name.

(* what MatchPrefixPatterns uses: `matched, _ := path.Match(glob, prefix)` *)
Definition path_match_bool (pattern name : str) : bool :=
  match path_match pattern name with MOk b => b | _ => false end.

(* ---- module.MatchPrefixPatterns ---------------------------------------------------------- *)

(* the first n+1 slash-separated elements of target (without the slash that ends them);
   None when target has fewer than n+1 elements *)
Fixpoint take_elems (n : nat) (t : str) : option str :=
  match t with
  | [] => match n with O => Some [] | S _ => None end
  | c :: r =>
      if c =? 47 then
        match n with
        | O => Some []
        | S n' => option_map (cons c) (take_elems n' r)
        end
      else option_map (cons c) (take_elems n r)
  end.

Definition trim_slash (g : str) : str :=
  match rev g with
  | c :: r => if c =? 47 then rev r else g
  | [] => g
  end.

Definition count_byte (c : Z) (s : str) : nat :=
  length (filter (fun x => x =? c) s).

Section WithMatcher.
  (* the pattern matcher: path.Match projected to its boolean *)
  Variable pmatch : str -> str -> bool.

  Definition glob_matches (target glob0 : str) : bool :=
    let glob := trim_slash glob0 in
    match glob with
    | [] => false
    | _ => match take_elems (count_byte 47 glob) target with
           | None => false
           | Some prefix => pmatch glob prefix
           end
    end.

  (* The Go loop cuts globs at every ','; the pieces are those of split_on 44 (the loop
     never sees the empty piece after a trailing comma, which is skipped anyway). *)
  Definition match_prefix_patterns_with (globs target : str) : bool :=
    existsb (glob_matches target) (split_on 44 globs).
End WithMatcher.

Definition match_prefix_patterns (globs target : str) : bool :=
  match_prefix_patterns_with path_match_bool globs target.
