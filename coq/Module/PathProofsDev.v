(* Deviations of the code from the doc comments (PathSpec.v D1, D3), as theorems:
   the documented rules imply the implemented ones; the converse is refuted by a witness;
   the exact difference is characterised.  Also: error sites of CheckPath that can never
   be reached. *)
From Verif.Base Require Import Bytes Utf8.
From Verif.Module Require Import Path PathSpec PathProofs PathProofsLists PathProofsSplit
  PathProofsSpec PathProofsSpec2.

(* ---- D1: "nor contain two dots in a row" (known finding K5) -------------------------------------- *)

Lemma valid_path_doc_impl k p : valid_path_doc k p -> valid_path_impl k p.
Proof.
  intros [V1 (elems & Hne & Hno & Hj & Hall) V3]. constructor; auto.
  exists elems. refine (conj Hne (conj Hno (conj Hj _))).
  revert Hall. apply Forall_impl. intros e [H _]. exact H.
Qed.

Lemma valid_module_path_doc_impl p : valid_module_path_doc p -> valid_module_path_impl p.
Proof. intros (H1 & H2 & H3). split; [apply valid_path_doc_impl; exact H1 | auto]. Qed.

(* the documented rules = the implemented ones + no element with ".." *)
Theorem valid_path_doc_iff k p :
  valid_path_doc k p <->
  check_path k p = None /\ Forall (fun e => ~ two_dots_in_a_row e) (split_on 47 p).
Proof.
  rewrite check_path_iff. split.
  - intros H. split; [apply valid_path_doc_impl; exact H|].
    destruct H as [_ (elems & Hne & Hno & Hj & Hall) _].
    rewrite <- Hj, split_on_join by assumption.
    revert Hall. apply Forall_impl. intros e [_ H]. exact H.
  - intros [[V1 (elems & Hne & Hno & Hj & Hall) V3] Hdd]. constructor; auto.
    exists elems. refine (conj Hne (conj Hno (conj Hj _))).
    rewrite <- Hj, split_on_join in Hdd by assumption.
    rewrite Forall_forall in *. intros e He. split; auto.
Qed.

(* accepted by the code, rejected by the documented rule: "a..b" for every kind of path *)
Theorem check_path_dotdot_refuted :
  forall k, check_path k (B "a..b") = None /\ ~ valid_path_doc k (B "a..b").
Proof.
  intros k. split; [destruct k; vm_compute; reflexivity|].
  intros H. apply valid_path_doc_iff in H. destruct H as [_ H].
  change (split_on 47 (B "a..b")) with [B "a..b"] in H. inversion H as [|? ? Hd _]; subst.
  apply Hd. exists [97], [98]. reflexivity.
Qed.

Theorem check_module_path_dotdot_refuted :
  check_module_path (B "example.com/a..b") = None /\ ~ valid_module_path_doc (B "example.com/a..b").
Proof.
  split; [vm_compute; reflexivity|].
  intros (H & _). apply valid_path_doc_iff in H. destruct H as [_ H].
  change (split_on 47 (B "example.com/a..b")) with [B "example.com"; B "a..b"] in H.
  inversion H as [|? ? _ H']; subst. inversion H' as [|? ? Hd _]; subst.
  apply Hd. exists [97], [98]. reflexivity.
Qed.

(* ---- D3: the leading dash ------------------------------------------------------------------------- *)

(* without clause vp_no_leading_dash the iff fails: "-a" satisfies every documented clause
   of an import path (its only element is valid) yet CheckImportPath rejects it *)
Theorem leading_dash_undocumented :
  check_import_path (B "-a") = Some ELeadingDash /\ check_elem KImport (B "-a") = None.
Proof. vm_compute. split; reflexivity. Qed.

(* ---- unreachable error sites of CheckPath ----------------------------------------------------------- *)

Theorem leading_slash_unreachable p : check_module_path p <> Some ELeadingSlash.
Proof.
  unfold check_module_path. destruct (check_path KModule p) as [e|] eqn:Hc.
  - (* an error of checkPath: never this one *)
    intros H. inversion H; subst e. clear H. revert Hc. unfold check_path.
    repeat match goal with |- context [if ?c then _ else _] => destruct c; try discriminate end.
    induction (split_on 47 p) as [|el l IH]; simpl; [discriminate|].
    destruct (check_elem KModule el) as [x|] eqn:He; [|exact IH].
    intros H. inversion H; subst x. clear H. revert He. unfold check_elem.
    repeat match goal with |- context [if ?c then _ else _] => destruct c; try discriminate end.
  - destruct (is_nil (first_elem p)) eqn:Hn.
    + exfalso. apply is_nil_true in Hn. apply check_path_none in Hc.
      destruct Hc as (_ & Hp & _ & _ & _ & Hall).
      destruct (first_elem_spec p) as (_ & [He|(rest & He)]); rewrite Hn in He.
      * subst p. discriminate.
      * rewrite He in Hall. simpl in Hall. inversion Hall as [|? ? Hx _]; subst. discriminate.
    + repeat match goal with |- context [if ?c then _ else _] => destruct c; try discriminate end.
      destruct (split_path_version p) as [[? ?] []]; discriminate.
Qed.

Theorem first_leading_dash_unreachable p : check_module_path p <> Some EFirstLeadingDash.
Proof.
  unfold check_module_path. destruct (check_path KModule p) as [e|] eqn:Hc.
  - intros H. inversion H; subst e. clear H. revert Hc. unfold check_path.
    repeat match goal with |- context [if ?c then _ else _] => destruct c; try discriminate end.
    induction (split_on 47 p) as [|el l IH]; simpl; [discriminate|].
    destruct (check_elem KModule el) as [x|] eqn:He; [|exact IH].
    intros H. inversion H; subst x. clear H. revert He. unfold check_elem.
    repeat match goal with |- context [if ?c then _ else _] => destruct c; try discriminate end.
  - apply check_path_none in Hc. destruct Hc as (_ & _ & Hd & _).
    unfold leading_dash in Hd. simpl in Hd. rewrite andb_true_r in Hd. rewrite Hd.
    repeat match goal with |- context [if ?c then _ else _] => destruct c; try discriminate end.
    destruct (split_path_version p) as [[? ?] []]; discriminate.
Qed.
