(* Model <-> declarative specification, part 2: paths and module paths. *)
From Verif.Base Require Import Bytes Utf8.
From Verif.Gen Require Import GenChars.
From Verif.Module Require Import Path PathSpec PathProofs PathProofsLists PathProofsSplit PathProofsSpec.

(* ---- empty elements ---------------------------------------------------------------------------- *)

Lemma empty_tl_cons sep c q :
  In [] (tl (split_on sep q)) -> In [] (tl (split_on sep (c :: q))).
Proof.
  intros H. cbn [split_on]. destruct (c =? sep).
  - simpl. destruct (split_on sep q); [contradiction | right; exact H].
  - pose proof (split_on_nonempty sep q) as Hne.
    destruct (split_on sep q) as [|h t]; [contradiction | exact H].
Qed.

Lemma dslash_empty_elem p : contains_dslash p = true -> In [] (tl (split_on 47 p)).
Proof.
  induction p as [|a p IH]; [discriminate|].
  destruct p as [|b r]; [discriminate|].
  cbn [contains_dslash]. intros H. apply orb_true_iff in H. destruct H as [H|H].
  - apply andb_true_iff in H. destruct H as [Ha Hb]. apply Z.eqb_eq in Ha, Hb. subst a b.
    cbn [split_on]. rewrite Z.eqb_refl. simpl. left. reflexivity.
  - apply empty_tl_cons. apply IH. exact H.
Qed.

Lemma trailing_slash_empty_elem a : In [] (tl (split_on 47 (a ++ [47]))).
Proof.
  induction a as [|c a IH].
  - simpl. left. reflexivity.
  - simpl app. apply empty_tl_cons. exact IH.
Qed.

Lemma in_tl {A} (x : A) l : In x (tl l) -> In x l.
Proof. destruct l; simpl; auto. Qed.

Lemma kind_is_file k : is_file k = true <-> k = KFile.
Proof. destruct k; simpl; split; congruence. Qed.

(* ---- paths ---------------------------------------------------------------------------------------- *)

Theorem check_path_iff k p : check_path k p = None <-> valid_path_impl k p.
Proof.
  rewrite check_path_none. split.
  - intros (H1 & H2 & H3 & H4 & H5 & H6). constructor.
    + exact H1.
    + exists (split_on 47 p). split; [apply split_on_nonempty|]. split; [apply split_on_no_sep|].
      split; [apply join_split_on|].
      revert H6. apply Forall_impl. intros e. apply check_elem_iff.
    + intros Hk (a & ->). unfold leading_dash in H3. simpl in H3.
      destruct k; try discriminate. contradiction.
  - intros [V1 (elems & Hne & Hno & Hj & Hall) V3].
    assert (Hsp : split_on 47 p = elems) by (rewrite <- Hj; apply split_on_join; assumption).
    assert (Hnoempty : ~ In [] (split_on 47 p)).
    { rewrite Hsp. intros Hin. rewrite Forall_forall in Hall. apply (ve_nonempty _ _ (Hall _ Hin)).
      reflexivity. }
    assert (Hp : p <> []).
    { intros ->. apply Hnoempty. left. reflexivity. }
    refine (conj V1 (conj _ (conj _ (conj _ (conj _ _))))).
    + apply is_nil_false. exact Hp.
    + apply not_true_is_false. intros H. apply andb_true_iff in H. destruct H as [Hd Hf].
      apply negb_true_iff in Hf. apply V3.
      * intros ->. discriminate.
      * apply head_is_iff. exact Hd.
    + apply not_true_is_false. intros H. apply Hnoempty, in_tl, dslash_empty_elem, H.
    + apply not_true_is_false. intros H. apply (last_is_iff 47 p Hp) in H. destruct H as (a & ->).
      apply Hnoempty, in_tl, trailing_slash_empty_elem.
    + rewrite Hsp. revert Hall. apply Forall_impl. intros e. apply check_elem_iff.
Qed.

(* ---- the first element -------------------------------------------------------------------------- *)

Lemma first_elem_spec p :
  ~ In 47 (first_elem p) /\ (p = first_elem p \/ exists rest, p = first_elem p ++ 47 :: rest).
Proof.
  unfold first_elem. destruct (span (fun c => negb (c =? 47)) p) as [a b] eqn:Hsp. simpl.
  split; [eapply span_fst_no; exact Hsp|].
  apply span_spec in Hsp. destruct Hsp as (-> & _ & [->|(c & r & -> & Hc)]).
  - left. rewrite app_nil_r. reflexivity.
  - right. exists r. apply negb_false_iff, Z.eqb_eq in Hc. subst c. reflexivity.
Qed.

Lemma first_elem_unique p fe :
  ~ In 47 fe -> (p = fe \/ exists rest, p = fe ++ 47 :: rest) -> first_elem p = fe.
Proof.
  intros Hno He. unfold first_elem.
  assert (Hf : forallb (fun c => negb (c =? 47)) fe = true).
  { apply forallb_forall. intros x Hx. apply negb_true_iff, Z.eqb_neq. intros ->. auto. }
  destruct He as [->|(rest & ->)].
  - rewrite <- (app_nil_r fe) at 1. rewrite span_unique; auto.
  - rewrite span_unique; auto. right. exists 47, rest. split; [reflexivity|].
    rewrite Z.eqb_refl. reflexivity.
Qed.

Lemma forallb_firstPathOK_iff l :
  forallb module_firstPathOK l = true <-> Forall (fun r => first_elem_char r = true) l.
Proof.
  rewrite forallb_forall, Forall_forall.
  split; intros H x Hx; specialize (H x Hx); rewrite firstPathOK_first_elem_char in *; exact H.
Qed.

(* check_module_path accepts exactly under these conditions *)
Lemma check_module_path_none p :
  check_module_path p = None <->
  check_path KModule p = None /\
  is_nil (first_elem p) = false /\
  contains_byte 46 (first_elem p) = true /\
  head_is 45 p = false /\
  forallb module_firstPathOK (runes (first_elem p)) = true /\
  snd (split_path_version p) = true.
Proof.
  unfold check_module_path.
  destruct (check_path KModule p); [split; [discriminate | intros (H & _); discriminate]|].
  destruct (is_nil (first_elem p)); [split; [discriminate | intros (_ & H & _); discriminate]|].
  destruct (contains_byte 46 (first_elem p)); simpl;
    [|split; [discriminate | intros (_ & _ & H & _); discriminate]].
  destruct (head_is 45 p); [split; [discriminate | intros (_ & _ & _ & H & _); discriminate]|].
  destruct (forallb module_firstPathOK (runes (first_elem p))); simpl;
    [|split; [discriminate | intros (_ & _ & _ & _ & H & _); discriminate]].
  destruct (split_path_version p) as [[pre pm] ok]. simpl.
  destruct ok; split; auto 10; try discriminate. intros (_ & _ & _ & _ & _ & H). discriminate.
Qed.

Lemma first_elem_rule_iff p :
  first_elem_rule p <->
  is_nil (first_elem p) = false /\ contains_byte 46 (first_elem p) = true /\ head_is 45 p = false /\
  forallb module_firstPathOK (runes (first_elem p)) = true.
Proof.
  split.
  - intros (fe & rest & Hno & He & Hch & Hdot & Hdash).
    assert (Hfe : first_elem p = fe).
    { apply first_elem_unique; [exact Hno|]. destruct He as [->| ->]; [left | right; exists rest]; reflexivity. }
    rewrite Hfe. refine (conj _ (conj _ (conj _ _))).
    + apply is_nil_false. intros ->. contradiction.
    + apply contains_byte_iff. exact Hdot.
    + apply not_true_is_false. intros H. apply head_is_iff in H. destruct H as (a & Hp).
      apply Hdash. destruct fe as [|f0 fe']; [contradiction|].
      destruct He as [->| ->]; inversion Hp; subst; eexists; reflexivity.
    + apply forallb_firstPathOK_iff. exact Hch.
  - intros (H1 & H2 & H3 & H4).
    destruct (first_elem_spec p) as (Hno & He).
    assert (Hrest : exists rest, p = first_elem p \/ p = first_elem p ++ 47 :: rest).
    { destruct He as [He|(rest & He)]; [exists [] | exists rest]; auto. }
    destruct Hrest as (rest & He').
    exists (first_elem p), rest. refine (conj Hno (conj He' (conj _ (conj _ _)))).
    + apply forallb_firstPathOK_iff. exact H4.
    + apply contains_byte_iff. exact H2.
    + intros (a & Ha).
      assert (Ht : head_is 45 p = true).
      { apply head_is_iff. destruct He' as [E|E]; rewrite E, Ha; eexists; reflexivity. }
      congruence.
Qed.

(* ---- the version rule ------------------------------------------------------------------------------ *)

Lemma last_byte_eq (x y r : str) d e : x ++ [d] = r ++ y ++ [e] -> d = e.
Proof.
  rewrite app_assoc. intros H. apply app_inj_tail in H. destruct H as [_ H]. exact H.
Qed.

Lemma digits_not_unstable pre n :
  all_digits n -> has_suffix (pre ++ n) unstable = false.
Proof.
  intros [Hne Hd]. apply not_true_is_false. intros H. apply has_suffix_iff in H.
  destruct H as (r & H). destruct (nonempty_snoc n Hne) as (n0 & d & ->).
  change unstable with (B "-unstabl" ++ [101]) in H. rewrite app_assoc in H.
  apply last_byte_eq in H. subst d. rewrite Forall_forall in Hd.
  assert (Hin : In 101 (n0 ++ [101])) by (apply in_or_app; right; left; reflexivity).
  specialize (Hd 101 Hin). lia.
Qed.

Lemma len_ge3 (a b c : Z) l : (len (a :: b :: c :: l) <=? 2) = false.
Proof. apply Z.leb_gt. unfold len. simpl length. lia. Qed.

Lemma split_gopkgin_eval p pre n (uns : bool) :
  has_prefix p gopkg_in = true ->
  all_digits n -> ((n = B "0" /\ uns = false) \/ no_leading_zero n) ->
  p = pre ++ B ".v" ++ n ++ (if uns then unstable else []) ->
  split_gopkgin p = (pre, B ".v" ++ n ++ (if uns then unstable else []), true).
Proof.
  intros Hg Hd Hz Hp. unfold split_gopkgin. rewrite Hg. cbn [negb].
  assert (Hu : has_suffix p unstable = uns).
  { destruct uns.
    - apply has_suffix_iff. exists (pre ++ B ".v" ++ n). rewrite Hp, <- !app_assoc. reflexivity.
    - rewrite Hp, app_nil_r, app_assoc. apply digits_not_unstable. exact Hd. }
  rewrite Hu.
  assert (Hbody : (if uns then skipn (length unstable) (rev p) else rev p)
                  = rev n ++ 118 :: 46 :: rev pre).
  { destruct uns.
    - rewrite Hp, !app_assoc, rev_app_distr, skipn_app, <- rev_length, skipn_all, Nat.sub_diag.
      simpl skipn. rewrite app_nil_l, <- !app_assoc, !rev_app_distr. simpl.
      rewrite <- !app_assoc. reflexivity.
    - rewrite Hp, app_nil_r, !rev_app_distr. simpl. rewrite <- !app_assoc. reflexivity. }
  rewrite Hbody.
  destruct Hd as [Hne Hdig].
  rewrite span_unique.
  2:{ rewrite forallb_rev. apply forallb_is_digit_iff. exact Hdig. }
  2:{ right. exists 118, (46 :: rev pre). split; reflexivity. }
  rewrite !Z.eqb_refl. cbn [andb]. rewrite !rev_involutive.
  destruct n as [|d n']; [contradiction|].
  assert (Hdd : 48 <= d <= 57) by (inversion Hdig; assumption).
  cbn [app]. rewrite len_ge3. cbn [orb].
  change (byte_at_is 2 45 (46 :: 118 :: d :: n' ++ (if uns then unstable else []))) with (d =? 45).
  change (byte_at_is 2 48 (46 :: 118 :: d :: n' ++ (if uns then unstable else []))) with (d =? 48).
  replace (d =? 45) with false by (symmetry; apply Z.eqb_neq; lia). cbn [orb].
  destruct Hz as [[Hn Hun]|Hz].
  - inversion Hn; subst d n' uns. reflexivity.
  - replace (d =? 48) with false; [reflexivity|].
    symmetry. apply Z.eqb_neq. intros ->. apply (Hz n'). reflexivity.
Qed.

Lemma gopkg_ok_iff p :
  has_prefix p gopkg_in = true ->
  (snd (split_path_version p) = true <-> exists pre suf, p = pre ++ suf /\ gopkg_suffix suf).
Proof.
  intros Hg. unfold split_path_version. rewrite Hg. split.
  - destruct (split_gopkgin p) as [[pre suf] ok] eqn:Hs. simpl. intros ->.
    apply split_gopkgin_spec in Hs. destruct Hs as (E & Hshape & _).
    exists pre, suf. split; [symmetry; exact E | apply Hshape; reflexivity].
  - intros (pre & suf & Hp & Hsuf).
    destruct Hsuf as [->|(n & Hd & Hz & [->| ->])].
    + rewrite (split_gopkgin_eval p pre (B "0") false Hg); [reflexivity | | | ].
      * split; [discriminate|]. change (B "0") with [48]. constructor; [lia | constructor].
      * left. auto.
      * rewrite Hp. reflexivity.
    + rewrite (split_gopkgin_eval p pre n false Hg Hd (or_intror Hz)); [reflexivity|].
      rewrite Hp, app_nil_r. reflexivity.
    + rewrite (split_gopkgin_eval p pre n true Hg Hd (or_intror Hz)); [reflexivity|].
      rewrite Hp. reflexivity.
Qed.

Lemma digit_or_dot_iff c : digit_or_dot c = true <-> (48 <= c <= 57 \/ c = 46).
Proof. unfold digit_or_dot. rewrite orb_true_iff, is_digit_iff, Z.eqb_eq. tauto. Qed.

Lemma forallb_digit_or_dot_iff n :
  forallb digit_or_dot n = true <-> Forall (fun c => 48 <= c <= 57 \/ c = 46) n.
Proof.
  rewrite forallb_forall, Forall_forall. split; intros H x Hx; apply digit_or_dot_iff, H, Hx.
Qed.

Lemma contains_byte_rev c l : contains_byte c (rev l) = contains_byte c l.
Proof.
  apply eq_true_iff_eq. rewrite !contains_byte_iff. split; intros H; [apply in_rev | apply -> in_rev]; exact H.
Qed.

(* what the non-gopkg branch computes on  pre ++ "/v" ++ n  with n numeric-looking *)
Lemma split_plain_eval p pre n :
  has_prefix p gopkg_in = false -> looks_numeric n -> p = pre ++ B "/v" ++ n ->
  split_path_version p =
    if contains_byte 46 n || match n with 48 :: _ => true | _ => false end || str_eqb (B "/v" ++ n) (B "/v1")
    then (p, [], false) else (pre, B "/v" ++ n, true).
Proof.
  intros Hg [Hne Hnum] Hp. unfold split_path_version. rewrite Hg.
  assert (Hrev : rev p = rev n ++ 118 :: 47 :: rev pre).
  { rewrite Hp, !rev_app_distr. simpl. rewrite <- !app_assoc. reflexivity. }
  rewrite Hrev, span_unique.
  2:{ rewrite forallb_rev. apply forallb_digit_or_dot_iff. exact Hnum. }
  2:{ right. exists 118, (47 :: rev pre). split; reflexivity. }
  destruct (rev n) as [|t0 tr] eqn:Hn; [apply rev_eq_nil in Hn; contradiction|].
  rewrite !Z.eqb_refl. cbn [andb]. rewrite <- Hn, !rev_involutive, contains_byte_rev.
  destruct n as [|d n']; [contradiction|].
  cbn [app]. rewrite len_ge3, orb_false_r.
  change (byte_at_is 2 48 (47 :: 118 :: d :: n')) with (d =? 48).
  assert (Hd : (d =? 48) = match d with 48 => true | _ => false end).
  { destruct (d =? 48) eqn:E; [apply Z.eqb_eq in E; subst; reflexivity|].
    apply Z.eqb_neq in E. destruct d as [|q|q]; try reflexivity.
    do 6 (destruct q as [q|q|]; try reflexivity). contradiction. }
  rewrite Hd. reflexivity.
Qed.

Lemma plain_ok_iff p :
  has_prefix p gopkg_in = false ->
  (snd (split_path_version p) = true <->
   forall pre n, p = pre ++ B "/v" ++ n -> looks_numeric n ->
                 no_leading_zero n /\ n <> B "1" /\ ~ In 46 n).
Proof.
  intros Hg. split.
  - intros Hok pre n Hp Hnum.
    rewrite (split_plain_eval p pre n Hg Hnum Hp) in Hok.
    destruct (contains_byte 46 n) eqn:Hdot; [discriminate|]. cbn [orb] in Hok.
    destruct n as [|d n']; [destruct Hnum; contradiction|].
    destruct (match d with 48 => true | _ => false end) eqn:H0; [discriminate|]. cbn [orb] in Hok.
    destruct (str_eqb (B "/v" ++ d :: n') (B "/v1")) eqn:H1; [discriminate|].
    refine (conj _ (conj _ _)).
    + intros r Hr. inversion Hr; subst. discriminate.
    + intros Hn. rewrite Hn in H1. vm_compute in H1. discriminate.
    + intros Hin. apply contains_byte_iff in Hin. congruence.
  - intros Hall. unfold split_path_version. rewrite Hg.
    destruct (span digit_or_dot (rev p)) as [tr rr] eqn:Hsp.
    apply span_spec in Hsp. destruct Hsp as (Hrev & Hdd & _).
    destruct tr as [|t0 tr]; [reflexivity|].
    destruct rr as [|a [|b pre_rev]]; try reflexivity.
    destruct ((a =? 118) && (b =? 47)) eqn:Hab; [|reflexivity].
    apply andb_true_iff in Hab. destruct Hab as [Ha Hb]. apply Z.eqb_eq in Ha, Hb. subst a b.
    assert (Hp : p = rev pre_rev ++ B "/v" ++ rev (t0 :: tr)).
    { apply (f_equal (@rev Z)) in Hrev. rewrite rev_involutive in Hrev. rewrite Hrev.
      rewrite rev_app_distr. simpl. rewrite <- !app_assoc. reflexivity. }
    assert (Hnum : looks_numeric (rev (t0 :: tr))).
    { split; [intros H; apply rev_eq_nil in H; discriminate|].
      apply forallb_digit_or_dot_iff. rewrite forallb_rev. exact Hdd. }
    destruct (Hall _ _ Hp Hnum) as (Hz & H1 & Hdot).
    assert (Hc1 : contains_byte 46 (t0 :: tr) = false).
    { rewrite <- contains_byte_rev. apply not_true_is_false. intros H. apply contains_byte_iff in H. auto. }
    rewrite Hc1. cbn [orb].
    destruct (rev (t0 :: tr)) as [|d n'] eqn:Hn; [destruct Hnum; contradiction|].
    cbn [app]. rewrite len_ge3. cbn [orb].
    change (byte_at_is 2 48 (47 :: 118 :: d :: n')) with (d =? 48).
    replace (d =? 48) with false.
    2:{ symmetry. apply Z.eqb_neq. intros ->. apply (Hz n'). reflexivity. }
    cbn [orb].
    destruct (str_eqb (47 :: 118 :: d :: n') (B "/v1")) eqn:E; [|reflexivity].
    apply str_eqb_eq in E. inversion E; subst. exfalso. apply H1. reflexivity.
Qed.

Theorem split_ok_iff p : snd (split_path_version p) = true <-> version_rule p.
Proof.
  unfold version_rule. destruct (has_prefix p gopkg_in) eqn:Hg.
  - rewrite (gopkg_ok_iff p Hg). split.
    + intros H. right. split; [apply is_gopkg_in_iff; exact Hg | exact H].
    + intros [[Hn _]|[_ H]]; [|exact H]. exfalso. apply Hn, is_gopkg_in_iff, Hg.
  - rewrite (plain_ok_iff p Hg). split.
    + intros H. left. split; [|exact H]. intros Hin. apply is_gopkg_in_iff in Hin. congruence.
    + intros [[_ H]|[Hin _]]; [exact H|]. apply is_gopkg_in_iff in Hin. congruence.
Qed.

(* ---- CheckPath -------------------------------------------------------------------------------------- *)

Theorem check_module_path_iff p : check_module_path p = None <-> valid_module_path_impl p.
Proof.
  rewrite check_module_path_none. unfold valid_module_path_impl, valid_module_path_gen.
  fold valid_path_impl. rewrite <- check_path_iff, first_elem_rule_iff, <- split_ok_iff. tauto.
Qed.
