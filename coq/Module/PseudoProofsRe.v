(* The pseudo-version regular expression: its source, and the strings it accepts that the
   proofs need. *)
From Verif.Base Require Import Bytes.
From Verif.Gen Require Import GenRegex.
From Verif.Semver Require Import Model Spec ProofsStr ProofsParse.
From Verif.Module Require Import Pseudo PseudoProofsStr PseudoProofsDec.

(* The recogniser Pseudo.pseudo_re_match was written for exactly this source; a change of
   module/pseudo.go's expression changes Gen/GenRegex.v and breaks this example. *)
Example pseudo_re_source :
  module_pseudoVersionRE =
  B "^v[0-9]+\.(0\.0-|\d+\.\d+-([^+]*\.)?0\.)\d{14}-[A-Za-z0-9]+(\+[0-9A-Za-z-]+(\.[0-9A-Za-z-]+)*)?$".
Proof. reflexivity. Qed.

Definition ts14 (ts : str) : Prop := length ts = 14%nat /\ forallb is_digit ts = true.
Definition rev_ok (rv : str) : Prop := rv <> [] /\ forallb is_alnum rv = true.

Lemma is_bld_char_ident c : is_bld_char c = ident_char c.
Proof. reflexivity. Qed.

Lemma re_build_body_eq body : re_build_body body = forallb build_ident (split_on 46 body).
Proof.
  unfold re_build_body. apply forallb_ext_in. intros id _. unfold build_ident.
  destruct id; reflexivity.
Qed.

Lemma build_str_stops_alnum b : build_str b -> stops is_alnum b = true.
Proof. intros [->|(body & -> & _)]; reflexivity. Qed.

(* \d{14}-[A-Za-z0-9]+(\+build)?$ *)
Lemma re_tail_ok ts rv b :
  ts14 ts -> rev_ok rv -> build_str b -> re_tail (ts ++ 45 :: rv ++ b) = true.
Proof.
  intros [Hl Hd] [Hne Hrv] Hb. unfold re_tail. rewrite <- Hl.
  rewrite firstn_app_exact, skipn_app_exact, Nat.eqb_refl, Hd. cbn [andb].
  rewrite (span_app is_alnum rv b Hrv (build_str_stops_alnum b Hb)).
  destruct rv as [|c rv]; [congruence|]. cbn [is_nil negb andb].
  destruct Hb as [->|(body & -> & Hbody)]; [reflexivity|].
  now rewrite re_build_body_eq.
Qed.

Lemma re_digits_then_ok sep ds r :
  ds <> [] -> forallb is_digit ds = true -> is_digit sep = false ->
  re_digits_then sep (ds ++ sep :: r) = Some r.
Proof.
  intros Hne Hd Hs. unfold re_digits_then.
  rewrite (span_app is_digit ds (sep :: r) Hd) by (cbn [stops]; now rewrite Hs).
  destruct ds; [congruence|]. now rewrite Z.eqb_refl.
Qed.

Lemma re_pre_cons here c r :
  re_pre here (c :: r) =
  (here && match c :: r with 48 :: 46 :: t => re_tail t | _ => false end)
  || (if c =? 43 then false else re_pre (c =? 46) r).
Proof. reflexivity. Qed.

Lemma re_pre_here T : re_tail T = true -> re_pre true (48 :: 46 :: T) = true.
Proof. intros H. rewrite re_pre_cons. cbn [andb]. now rewrite H. Qed.

(* the optional group ([^+]*\.)? taken: anything without '+', then '.' *)
Lemma re_pre_group Y T here :
  ~ In 43 Y -> re_tail T = true -> re_pre here (Y ++ 46 :: 48 :: 46 :: T) = true.
Proof.
  intros HY HT. revert here. induction Y as [|c Y IH]; intros here.
  - cbn [app]. rewrite re_pre_cons. replace (46 =? 43) with false by reflexivity.
    replace (46 =? 46) with true by reflexivity. rewrite (re_pre_here T HT). apply orb_true_r.
  - cbn [app]. rewrite re_pre_cons.
    replace (c =? 43) with false by (symmetry; apply Z.eqb_neq; intros ->; apply HY; now left).
    rewrite IH by (intros Hin; apply HY; now right). apply orb_true_r.
Qed.

Lemma pseudo_re_match_eq s1 :
  pseudo_re_match (118 :: s1) =
  match re_digits_then 46 s1 with
  | None => false
  | Some s2 =>
      (match s2 with 48 :: 46 :: 48 :: 45 :: t => re_tail t | _ => false end)
      || match re_digits_then 46 s2 with
         | None => false
         | Some s3 => match re_digits_then 45 s3 with
                      | None => false
                      | Some s4 => re_pre true s4
                      end
         end
  end.
Proof. reflexivity. Qed.

(* v[0-9]+\.0\.0-<tail> *)
Lemma pseudo_re_match_form1 M T :
  M <> [] -> forallb is_digit M = true -> re_tail T = true ->
  pseudo_re_match (118 :: M ++ 46 :: 48 :: 46 :: 48 :: 45 :: T) = true.
Proof.
  intros Hne Hd HT. rewrite pseudo_re_match_eq.
  rewrite re_digits_then_ok by (auto; reflexivity). now rewrite HT.
Qed.

(* v[0-9]+\.\d+\.\d+-<X>0\.<tail> with X empty or "...": the forms built on a release or
   a prerelease *)
Lemma pseudo_re_match_form2 M m pt X :
  M <> [] -> forallb is_digit M = true -> m <> [] -> forallb is_digit m = true ->
  pt <> [] -> forallb is_digit pt = true ->
  re_pre true X = true ->
  pseudo_re_match (118 :: M ++ 46 :: m ++ 46 :: pt ++ 45 :: X) = true.
Proof.
  intros HM HMd Hm Hmd Hp Hpd HX. rewrite pseudo_re_match_eq.
  rewrite re_digits_then_ok by (auto; reflexivity).
  rewrite re_digits_then_ok by (auto; reflexivity).
  rewrite re_digits_then_ok by (auto; reflexivity).
  rewrite HX. apply orb_true_r.
Qed.
