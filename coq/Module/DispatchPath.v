(* Wire dispatcher for the module path model (C06): function name and argument value to
   result value.  Encodings (the Go harness harness/props/c06.go produces the same):
     CheckPath / CheckImportPath / CheckFilePath   S path        -> ok [] | err <kind>
     SplitPathVersion                              S path        -> [S prefix; S pathMajor; B ok]
     Check                                         [S path; S v] -> ok [] | err <kind>
     CheckPathMajor                                [S v; S pm]   -> ok [] | err major-mismatch
     MatchPathMajor                                [S v; S pm]   -> B
     PathMajorPrefix                               S pm          -> ok (S prefix) | panic
     MatchPrefixPatterns                           [S globs; S target] -> B
     path.Match                                    [S pattern; S name] -> ok (B matched) | err bad-pattern *)
From Verif.Base Require Import Bytes Wire.
From Verif.Module Require Import Path Match.

Definition on_str (a : val) (k : str -> val) : val :=
  match a with VS s => k s | _ => VBadCase end.
Definition on_pair (a : val) (k : str -> str -> val) : val :=
  match a with VL [VS v; VS w] => k v w | _ => VBadCase end.

Definition err_name (e : err_kind) : str :=
  match e with
  | EInvalidUtf8 => B "invalid-utf8"
  | EEmpty => B "empty"
  | ELeadingDash => B "leading-dash"
  | EDoubleSlash => B "double-slash"
  | ETrailingSlash => B "trailing-slash"
  | EEmptyElem => B "empty-elem"
  | EAllDots => B "all-dots"
  | ELeadingDot => B "leading-dot"
  | ETrailingDot => B "trailing-dot"
  | EInvalidChar => B "invalid-char"
  | EWindowsName => B "windows-name"
  | ETildeDigits => B "tilde-digits"
  | ELeadingSlash => B "leading-slash"
  | EMissingDot => B "missing-dot"
  | EFirstLeadingDash => B "first-leading-dash"
  | EFirstInvalidChar => B "first-invalid-char"
  | EInvalidVersion => B "invalid-version"
  end.

Definition v_unit : val := VOk (VL []).
Definition v_err (name : str) : val := VL [VS (B "err"); VS name].

Definition enc_res (r : option err_kind) : val :=
  match r with None => v_unit | Some e => v_err (err_name e) end.

Definition enc_check (r : option check_err) : val :=
  match r with
  | None => v_unit
  | Some (CEPath e) => v_err (err_name e)
  | Some CENotSemver => v_err (B "not-semver")
  | Some CEMajorMismatch => v_err (B "major-mismatch")
  end.

Definition dispatch (f : str) (a : val) : val :=
  if str_eqb f (B "CheckPath") then on_str a (fun p => enc_res (check_module_path p))
  else if str_eqb f (B "CheckImportPath") then on_str a (fun p => enc_res (check_import_path p))
  else if str_eqb f (B "CheckFilePath") then on_str a (fun p => enc_res (check_file_path p))
  else if str_eqb f (B "SplitPathVersion") then
    on_str a (fun p => match split_path_version p with
                       | (pre, pm, ok) => VL [VS pre; VS pm; VB ok]
                       end)
  else if str_eqb f (B "Check") then on_pair a (fun p v => enc_check (check p v))
  else if str_eqb f (B "CheckPathMajor") then
    on_pair a (fun v pm => if check_path_major v pm then v_unit else v_err (B "major-mismatch"))
  else if str_eqb f (B "MatchPathMajor") then on_pair a (fun v pm => VB (match_path_major v pm))
  else if str_eqb f (B "PathMajorPrefix") then
    on_str a (fun pm => match path_major_prefix pm with
                        | PMPOk s => VOk (VS s)
                        | PMPPanic => VPanic
                        end)
  else if str_eqb f (B "MatchPrefixPatterns") then
    on_pair a (fun g t => VB (match_prefix_patterns g t))
  else if str_eqb f (B "path.Match") then
    on_pair a (fun p n => match path_match p n with
                          | MOk b => VOk (VB b)
                          | MBad => v_err (B "bad-pattern")
                          | MFuel => VL [VS (B "fuel")]
                          end)
  else VBadCase.
