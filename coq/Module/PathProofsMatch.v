(* module.MatchPrefixPatterns against its documented definition, for every pattern matcher;
   and the model of path.Match never runs out of fuel. *)
From Verif.Base Require Import Bytes Utf8.
From Verif.Module Require Import Path Match PathSpec PathProofsLists.

(* ---- trailing slash -------------------------------------------------------------------------------- *)

Lemma trim_slash_spec item :
  item = trim_slash item ++ [47] \/ (item = trim_slash item /\ forall a, trim_slash item <> a ++ [47]).
Proof.
  unfold trim_slash. destruct (rev item) as [|c r] eqn:Hr.
  - right. split; [reflexivity|]. apply (f_equal (@rev Z)) in Hr. rewrite rev_involutive in Hr.
    subst item. intros a H. symmetry in H. apply app_eq_nil in H. destruct H; discriminate.
  - assert (Hi : item = rev r ++ [c]).
    { apply (f_equal (@rev Z)) in Hr. rewrite rev_involutive in Hr. exact Hr. }
    destruct (c =? 47) eqn:Hc.
    + apply Z.eqb_eq in Hc. subst c. left. exact Hi.
    + right. split; [reflexivity|]. intros a H. rewrite Hi in H. apply app_inj_tail in H.
      destruct H as [_ H]. subst c. discriminate.
Qed.

Lemma trim_slash_unique item g :
  item = g ++ [47] \/ (item = g /\ forall a, g <> a ++ [47]) -> trim_slash item = g.
Proof.
  unfold trim_slash. intros [->|[-> Hno]].
  - rewrite rev_app_distr. simpl. apply rev_involutive.
  - destruct (rev g) as [|c r] eqn:Hr; [reflexivity|].
    destruct (c =? 47) eqn:Hc; [|reflexivity]. apply Z.eqb_eq in Hc. subst c.
    exfalso. apply (Hno (rev r)). apply (f_equal (@rev Z)) in Hr. rewrite rev_involutive in Hr. exact Hr.
Qed.

(* ---- the first n+1 elements --------------------------------------------------------------------- *)

Lemma take_elems_sound n t pre :
  take_elems n t = Some pre ->
  exists elems rest, Forall (fun e => ~ In 47 e) elems /\ length elems = S n /\
                     pre = join 47 elems /\ (t = pre \/ t = pre ++ 47 :: rest).
Proof.
  revert n pre. induction t as [|c r IH]; intros n pre H; simpl in H.
  - destruct n; [|discriminate]. inversion H; subst. exists [[]], []. repeat split; auto.
  - destruct (c =? 47) eqn:Hc.
    + apply Z.eqb_eq in Hc. subst c. destruct n as [|n'].
      * inversion H; subst. exists [[]], r. repeat split; auto.
      * destruct (take_elems n' r) as [pre'|] eqn:Ht; [|discriminate]. inversion H; subst.
        destruct (IH _ _ Ht) as (elems & rest & Hno & Hlen & Hj & Hr).
        exists ([] :: elems), rest. split; [constructor; auto|]. split; [simpl; lia|]. split.
        -- rewrite join_cons by (destruct elems; [discriminate | discriminate]). rewrite Hj. reflexivity.
        -- destruct Hr as [Hr|Hr]; [left | right]; simpl; f_equal; exact Hr.
    + destruct (take_elems n r) as [pre'|] eqn:Ht; [|discriminate]. inversion H; subst.
      destruct (IH _ _ Ht) as (elems & rest & Hno & Hlen & Hj & Hr).
      destruct elems as [|h tl']; [discriminate|].
      exists ((c :: h) :: tl'), rest. split.
      * inversion Hno; subst. constructor; auto.
        intros [E|Hin]; [subst; rewrite Z.eqb_refl in Hc; discriminate | auto].
      * split; [exact Hlen|]. split; [rewrite join_cons_cons, Hj; reflexivity|].
        destruct Hr as [Hr|Hr]; [left | right]; simpl; f_equal; exact Hr.
Qed.

Lemma take_elems_app_noslash e n X :
  ~ In 47 e -> take_elems n (e ++ X) = option_map (app e) (take_elems n X).
Proof.
  induction e as [|c e IH]; intros Hno.
  - simpl. destruct (take_elems n X); reflexivity.
  - simpl app. cbn [take_elems].
    replace (c =? 47) with false by (symmetry; apply Z.eqb_neq; intros ->; apply Hno; left; reflexivity).
    rewrite IH by (intros H; apply Hno; right; exact H).
    destruct (take_elems n X); reflexivity.
Qed.

Lemma take_elems_complete elems : forall n rest t,
  Forall (fun e => ~ In 47 e) elems -> length elems = S n ->
  (t = join 47 elems \/ t = join 47 elems ++ 47 :: rest) ->
  take_elems n t = Some (join 47 elems).
Proof.
  induction elems as [|e more IH]; intros n rest t Hno Hlen Ht; [discriminate|].
  inversion Hno as [|? ? He Hmore]; subst.
  destruct more as [|e2 more].
  - (* the last element *)
    simpl in Hlen. assert (n = O) by lia. subst n. cbn [join] in *.
    destruct Ht as [->| ->].
    + rewrite <- (app_nil_r e) at 1. rewrite take_elems_app_noslash by exact He.
      simpl. rewrite app_nil_r. reflexivity.
    + rewrite take_elems_app_noslash by exact He. simpl.
      rewrite app_nil_r. reflexivity.
  - destruct n as [|n']; [simpl in Hlen; lia|].
    rewrite join_cons by discriminate.
    assert (Hrec : forall t', (t' = join 47 (e2 :: more) \/ t' = join 47 (e2 :: more) ++ 47 :: rest) ->
              take_elems (S n') (e ++ 47 :: t') = Some (e ++ 47 :: join 47 (e2 :: more))).
    { intros t' Ht'. rewrite take_elems_app_noslash by exact He. cbn [take_elems]. rewrite Z.eqb_refl.
      rewrite (IH n' rest t'); [reflexivity | exact Hmore | simpl in *; lia | exact Ht']. }
    destruct Ht as [->| ->]; rewrite join_cons by discriminate.
    + apply Hrec. left. reflexivity.
    + rewrite <- app_assoc. simpl. apply Hrec. right. reflexivity.
Qed.

(* ---- MatchPrefixPatterns --------------------------------------------------------------------------- *)

Section WithMatcher.
  Variable pmatch : str -> str -> bool.

  Lemma glob_matches_iff target item :
    glob_matches pmatch target item = true <->
    exists glob elems rest,
      (item = glob ++ [47] \/ (item = glob /\ forall a, glob <> a ++ [47])) /\ glob <> [] /\
      (forall e, In e elems -> ~ In 47 e) /\ elems <> [] /\
      (target = join_slash elems \/ target = join_slash elems ++ 47 :: rest) /\
      length elems = S (length (filter (fun c => c =? 47) glob)) /\
      pmatch glob (join_slash elems) = true.
  Proof.
    unfold glob_matches, join_slash. split.
    - pose proof (trim_slash_spec item) as Hts.
      destruct (trim_slash item) as [|g0 g] eqn:Hg; [discriminate|].
      destruct (take_elems (count_byte 47 (g0 :: g)) target) as [pre|] eqn:Ht; [|discriminate].
      intros Hm. apply take_elems_sound in Ht.
      destruct Ht as (elems & rest & Hno & Hlen & -> & Hr).
      exists (g0 :: g), elems, rest. refine (conj Hts (conj _ (conj _ (conj _ (conj Hr (conj Hlen Hm)))))).
      + discriminate.
      + apply Forall_forall. exact Hno.
      + destruct elems; discriminate.
    - intros (glob & elems & rest & Hts & Hne & Hno & _ & Hr & Hlen & Hm).
      rewrite (trim_slash_unique item glob Hts).
      destruct glob as [|g0 g]; [contradiction|].
      unfold count_byte.
      rewrite (take_elems_complete elems _ rest target); [exact Hm | apply Forall_forall; exact Hno | exact Hlen | exact Hr].
  Qed.

  Theorem match_prefix_patterns_spec globs target :
    match_prefix_patterns_with pmatch globs target = true <-> glob_spec pmatch globs target.
  Proof.
    unfold match_prefix_patterns_with, glob_spec. rewrite existsb_exists. split.
    - intros (item & Hin & Hm). apply glob_matches_iff in Hm.
      destruct Hm as (glob & elems & rest & H).
      exists (split_on 44 globs), item, glob, elems, rest.
      split; [|split; [apply join_split_on | split; [exact Hin | exact H]]].
      pose proof (split_on_no_sep 44 globs) as Hno. rewrite Forall_forall in Hno. exact Hno.
    - intros (items & item & glob & elems & rest & Hno & Hj & Hin & H).
      exists item. split.
      + rewrite <- Hj. unfold join_comma. rewrite split_on_join; [exact Hin | | apply Forall_forall; exact Hno].
        intros ->. contradiction.
      + apply glob_matches_iff. exists glob, elems, rest. exact H.
  Qed.
End WithMatcher.

(* the instance the code uses: `matched, _ := path.Match(glob, prefix)` (malformed patterns
   give matched = false and are thereby ignored) *)
Corollary match_prefix_patterns_path_match globs target :
  match_prefix_patterns globs target = true <-> glob_spec path_match_bool globs target.
Proof. apply match_prefix_patterns_spec. Qed.
