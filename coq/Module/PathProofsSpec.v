(* Model <-> declarative specification (Module/PathSpec.v), part 1: characters, case
   folding, elements. *)
From Verif.Base Require Import Bytes Utf8.
From Verif.Gen Require Import GenChars GenConsts GenUnicode.
From Verif.Module Require Import Path PathSpec PathProofs PathProofsLists PathProofsSplit.

(* ---- characters -------------------------------------------------------------------------------- *)

Lemma sweep_ascii_eq (P Q : Z -> bool) :
  forallb (fun r => Bool.eqb (P r) (Q r)) ascii_range = true ->
  forall r, 0 <= r < 128 -> P r = Q r.
Proof.
  intros Hs r Hr. rewrite forallb_forall in Hs.
  specialize (Hs r (in_ascii_range r Hr)). apply eqb_prop in Hs. exact Hs.
Qed.

Lemma sweep_ascii_eqZ (P Q : Z -> Z) :
  forallb (fun r => P r =? Q r) ascii_range = true ->
  forall r, 0 <= r < 128 -> P r = Q r.
Proof.
  intros Hs r Hr. rewrite forallb_forall in Hs.
  specialize (Hs r (in_ascii_range r Hr)). apply Z.eqb_eq in Hs. exact Hs.
Qed.

Lemma eq_outside (P Q : Z -> bool) r :
  (P r = true -> 0 <= r < 128) -> (Q r = true -> 0 <= r < 128) -> ~ 0 <= r < 128 -> P r = Q r.
Proof.
  intros HP HQ Hr. destruct (P r) eqn:EP; destruct (Q r) eqn:EQ; auto; exfalso; auto.
Qed.

Lemma allowed_module_ascii r : allowed_char KModule r = true -> 0 <= r < 128.
Proof.
  unfold allowed_char, ascii_letter, ascii_digit, one_of.
  change (B "-._~") with [45; 46; 95; 126]. cbn [existsb]. intros H. b2p; try lia; try discriminate.
Qed.

Lemma allowed_import_ascii r : allowed_char KImport r = true -> 0 <= r < 128.
Proof.
  unfold allowed_char, ascii_letter, ascii_digit, one_of.
  change (B "-._~") with [45; 46; 95; 126]. cbn [existsb]. intros H. b2p; try lia; try discriminate.
Qed.

Lemma char_ok_module r : char_ok KModule r = allowed_char KModule r.
Proof.
  destruct (Z_le_dec 0 r) as [H0|H0]; [destruct (Z_lt_dec r 128) as [H1|H1]|].
  - apply (sweep_ascii_eq (char_ok KModule) (allowed_char KModule)); [vm_compute; reflexivity | lia].
  - apply eq_outside; [apply modPathOK_ascii | apply allowed_module_ascii | lia].
  - apply eq_outside; [apply modPathOK_ascii | apply allowed_module_ascii | lia].
Qed.

Lemma char_ok_import r : char_ok KImport r = allowed_char KImport r.
Proof.
  destruct (Z_le_dec 0 r) as [H0|H0]; [destruct (Z_lt_dec r 128) as [H1|H1]|].
  - apply (sweep_ascii_eq (char_ok KImport) (allowed_char KImport)); [vm_compute; reflexivity | lia].
  - apply eq_outside; [apply importPathOK_ascii | apply allowed_import_ascii | lia].
  - apply eq_outside; [apply importPathOK_ascii | apply allowed_import_ascii | lia].
Qed.

(* range tables have no negative entries *)
Lemma in_ranges_nonneg r t :
  forallb (fun p => 0 <=? fst p) t = true -> in_ranges r t = true -> 0 <= r.
Proof.
  unfold in_ranges. intros Ht H. apply existsb_exists in H. destruct H as (p & Hin & Hp).
  rewrite forallb_forall in Ht. specialize (Ht p Hin). b2p. lia.
Qed.

Lemma IsLetter_nonneg r : unicode_IsLetter r = true -> 0 <= r.
Proof. apply in_ranges_nonneg. vm_compute. reflexivity. Qed.

Lemma fileNameOK_nonneg r : module_fileNameOK r = true -> 0 <= r.
Proof.
  unfold module_fileNameOK. destruct (r <? 128) eqn:Hlt; [|apply IsLetter_nonneg].
  match goal with |- (if ?c then true else _) = true -> _ => destruct c eqn:Hc end.
  - intros _. b2p; lia.
  - intros H. apply existsb_exists in H. destruct H as (x & Hin & Hx). apply Z.eqb_eq in Hx. subst x.
    simpl in Hin. repeat (destruct Hin as [Hin|Hin]; [lia|]). contradiction.
Qed.

Lemma allowed_file_nonneg r : allowed_char KFile r = true -> 0 <= r.
Proof.
  unfold allowed_char, ascii_digit, one_of.
  match goal with |- context [existsb _ ?l] => let l' := eval vm_compute in l in change l with l' end.
  cbn [existsb]. intros H. b2p; try lia; try discriminate. apply IsLetter_nonneg; assumption.
Qed.

Lemma char_ok_file r : char_ok KFile r = allowed_char KFile r.
Proof.
  destruct (Z_le_dec 0 r) as [H0|H0]; [destruct (Z_lt_dec r 128) as [H1|H1]|].
  - apply (sweep_ascii_eq (char_ok KFile) (allowed_char KFile)); [vm_compute; reflexivity | lia].
  - (* beyond ASCII both are unicode.IsLetter *)
    unfold char_ok, module_fileNameOK, allowed_char, ascii_digit, one_of.
    assert (Hlt : (r <? 128) = false) by (apply Z.ltb_ge; lia). rewrite Hlt.
    match goal with |- context [existsb _ ?l] => let l' := eval vm_compute in l in change l with l' end.
    cbn [existsb].
    repeat match goal with
           | |- context [?a =? r] => replace (a =? r) with false by (symmetry; apply Z.eqb_neq; lia)
           end.
    replace (r <=? 57) with false by (symmetry; apply Z.leb_gt; lia).
    replace (r =? 32) with false by (symmetry; apply Z.eqb_neq; lia).
    rewrite andb_false_r, !orb_false_r. reflexivity.
  - destruct (char_ok KFile r) eqn:E1; destruct (allowed_char KFile r) eqn:E2; auto; exfalso.
    + apply fileNameOK_nonneg in E1. lia.
    + apply allowed_file_nonneg in E2. lia.
Qed.

Theorem char_ok_allowed k r : char_ok k r = allowed_char k r.
Proof. destruct k; [apply char_ok_module | apply char_ok_import | apply char_ok_file]. Qed.

Lemma first_elem_char_ascii r : first_elem_char r = true -> 0 <= r < 128.
Proof. unfold first_elem_char, ascii_digit. intros H. b2p; lia. Qed.

Lemma firstPathOK_ascii r : module_firstPathOK r = true -> 0 <= r < 128.
Proof. unfold module_firstPathOK. intros H. b2p; lia. Qed.

Theorem firstPathOK_first_elem_char r : module_firstPathOK r = first_elem_char r.
Proof.
  destruct (Z_le_dec 0 r) as [H0|H0]; [destruct (Z_lt_dec r 128) as [H1|H1]|].
  - apply (sweep_ascii_eq module_firstPathOK first_elem_char); [vm_compute; reflexivity | lia].
  - apply eq_outside; [apply firstPathOK_ascii | apply first_elem_char_ascii | lia].
  - apply eq_outside; [apply firstPathOK_ascii | apply first_elem_char_ascii | lia].
Qed.

(* ---- case folding -------------------------------------------------------------------------------- *)

Lemma assoc_z_find r t :
  assoc_z r t = option_map snd (find (fun e => fst e =? r) t).
Proof.
  induction t as [|[a b] t IH]; simpl; [reflexivity|].
  destruct (a =? r); [reflexivity | exact IH].
Qed.

Lemma fold_min_tbl_class r : fold_min_tbl r = fold_class r.
Proof.
  unfold fold_min_tbl, fold_class. rewrite assoc_z_find.
  destruct (find (fun e => fst e =? r) fold_min_table); reflexivity.
Qed.

Lemma fold_class_neg r : r < 0 -> fold_class r = r.
Proof.
  intros Hr. unfold fold_class.
  destruct (find (fun e => fst e =? r) fold_min_table) as [e|] eqn:Hf; [|reflexivity].
  apply find_some in Hf. destruct Hf as [Hin He]. apply Z.eqb_eq in He.
  assert (Hall : forallb (fun e => 0 <=? fst e) fold_min_table = true) by (vm_compute; reflexivity).
  rewrite forallb_forall in Hall. specialize (Hall e Hin). apply Z.leb_le in Hall. lia.
Qed.

(* the ASCII shortcut of the model agrees with the regenerated SimpleFold table *)
Theorem fold_min_class r : fold_min r = fold_class r.
Proof.
  unfold fold_min. destruct (r <? 128) eqn:Hlt; [|apply fold_min_tbl_class].
  apply Z.ltb_lt in Hlt. destruct (Z_le_dec 0 r) as [H0|H0].
  - apply (sweep_ascii_eqZ (fun r => if is_lower r then r - 32 else r) fold_class);
      [vm_compute; reflexivity | lia].
  - rewrite fold_class_neg by lia. unfold is_lower.
    replace (97 <=? r) with false by (symmetry; apply Z.leb_gt; lia). reflexivity.
Qed.

Lemma fold_eq_runes_iff a b :
  fold_eq_runes a b = true <-> Forall2 (fun x y => fold_class x = fold_class y) a b.
Proof.
  revert b. induction a as [|x a IH]; intros [|y b]; simpl.
  - split; auto.
  - split; [discriminate | intros H; inversion H].
  - split; [discriminate | intros H; inversion H].
  - rewrite andb_true_iff, Z.eqb_eq, IH, !fold_min_class. split.
    + intros [H1 H2]. constructor; assumption.
    + intros H. inversion H; subst. auto.
Qed.

(* the regenerated list of reserved names is the documented one *)
Lemma badWindowsNames_reserved : module_badWindowsNames = reserved_names.
Proof. reflexivity. Qed.

Lemma is_bad_windows_name_iff s :
  is_bad_windows_name s = true <-> exists name, In name reserved_names /\ same_ignoring_case name s.
Proof.
  unfold is_bad_windows_name, same_ignoring_case. rewrite existsb_exists, badWindowsNames_reserved.
  split; intros (name & Hin & H); exists name; (split; [exact Hin|]); apply fold_eq_runes_iff; exact H.
Qed.

(* ---- pieces of an element ---------------------------------------------------------------------- *)

Lemma prefix_to_first_dot_iff e s : prefix_to_first_dot e s <-> s = short_of e.
Proof.
  unfold prefix_to_first_dot, short_of. split.
  - intros (Hno & He).
    assert (Hf : forallb (fun c => negb (c =? 46)) s = true).
    { apply forallb_forall. intros x Hx. apply negb_true_iff, Z.eqb_neq. intros ->. auto. }
    destruct He as [->|(rest & ->)].
    + rewrite <- (app_nil_r s) at 2. rewrite span_unique; auto.
    + rewrite span_unique; auto. right. exists 46, rest. split; [reflexivity|].
      rewrite Z.eqb_refl. reflexivity.
  - intros ->. destruct (span (fun c => negb (c =? 46)) e) as [a b] eqn:Hsp. simpl.
    split; [eapply span_fst_no; exact Hsp|].
    apply span_spec in Hsp. destruct Hsp as (-> & _ & [->|(c & r & -> & Hc)]).
    + left. rewrite app_nil_r. reflexivity.
    + right. exists r. apply negb_false_iff, Z.eqb_eq in Hc. subst c. reflexivity.
Qed.

Lemma tilde_digits_iff s : tilde_digits s = true <-> tilde_digits_suffix s.
Proof.
  unfold tilde_digits, after_last_tilde, tilde_digits_suffix. split.
  - destruct (span (fun c => negb (c =? 126)) (rev s)) as [sr rr] eqn:Hsp.
    apply span_spec in Hsp. destruct Hsp as (Hrev & _ & Hrr).
    destruct rr as [|c0 rr]; [discriminate|].
    destruct Hrr as [Hrr|(c & r & E & Hc)]; [discriminate|]. inversion E; subst c r. clear E.
    apply negb_false_iff, Z.eqb_eq in Hc. subst c0.
    destruct (rev sr) as [|d0 d] eqn:Hd; [discriminate|]. intros Hdig.
    exists (rev rr), (d0 :: d). split; [|split; [discriminate | apply forallb_is_digit_iff; exact Hdig]].
    apply (f_equal (@rev Z)) in Hrev. rewrite rev_involutive, rev_app_distr in Hrev.
    simpl in Hrev. rewrite <- app_assoc in Hrev. simpl in Hrev. rewrite Hd in Hrev. exact Hrev.
  - intros (a & d & -> & Hne & Hdig).
    rewrite rev_app_distr. simpl. rewrite <- app_assoc. simpl.
    rewrite span_unique.
    + rewrite rev_involutive. destruct d as [|d0 d]; [contradiction|].
      apply (proj2 (forallb_is_digit_iff (d0 :: d))). exact Hdig.
    + rewrite forallb_rev. apply forallb_forall. intros x Hx. rewrite Forall_forall in Hdig.
      specialize (Hdig x Hx). apply negb_true_iff, Z.eqb_neq. lia.
    + right. exists 126, (rev a). split; [reflexivity|]. rewrite Z.eqb_refl. reflexivity.
Qed.

Lemma all_dots_ends_with_dot e :
  e <> [] -> forallb (fun c => c =? 46) e = true -> ends_with_dot e.
Proof.
  intros Hne H. destruct (nonempty_snoc e Hne) as (a & x & ->).
  rewrite forallb_app in H. apply andb_true_iff in H. destruct H as [_ H]. simpl in H.
  rewrite andb_true_r in H. apply Z.eqb_eq in H. subst x. exists a. reflexivity.
Qed.

(* ---- elements ---------------------------------------------------------------------------------- *)

Lemma forallb_char_ok_iff k l :
  forallb (char_ok k) l = true <-> Forall (fun r => allowed_char k r = true) l.
Proof.
  rewrite forallb_forall, Forall_forall.
  split; intros H x Hx; specialize (H x Hx); rewrite char_ok_allowed in *; exact H.
Qed.

Theorem check_elem_iff k e : check_elem k e = None <-> valid_elem_impl k e.
Proof.
  rewrite check_elem_none. split.
  - intros (H1 & H2 & H3 & H4 & H5 & H6 & H7).
    apply is_nil_false in H1.
    constructor.
    + exact H1.
    + apply forallb_char_ok_iff. exact H5.
    + intros Hd. apply (last_is_iff 46 e H1) in Hd. congruence.
    + intros -> Hd. apply head_is_iff in Hd. unfold leading_dot in H3. rewrite Hd in H3. discriminate.
    + intros s name Hs Hin Hsame. apply prefix_to_first_dot_iff in Hs. subst s.
      assert (Hb : is_bad_windows_name (short_of e) = true)
        by (apply is_bad_windows_name_iff; exists name; auto).
      congruence.
    + intros Hk s Hs Ht. apply prefix_to_first_dot_iff in Hs. subst s.
      apply tilde_digits_iff in Ht. destruct H7 as [H7|H7]; [|congruence].
      destruct k; try discriminate. contradiction.
  - intros [V1 V2 V3 V4 V5 V6].
    assert (Hshort : prefix_to_first_dot e (short_of e)) by (apply prefix_to_first_dot_iff; reflexivity).
    refine (conj _ (conj _ (conj _ (conj _ (conj _ (conj _ _)))))).
    + apply is_nil_false. exact V1.
    + apply not_true_is_false. intros H. apply V3. apply all_dots_ends_with_dot; assumption.
    + apply not_true_is_false. intros H. apply andb_true_iff in H. destruct H as [Hd Hm].
      destruct k; try discriminate. apply (V4 eq_refl). apply head_is_iff. exact Hd.
    + apply not_true_is_false. intros H. apply V3. apply (last_is_iff 46 e V1). exact H.
    + apply forallb_char_ok_iff. exact V2.
    + apply not_true_is_false. intros H. apply is_bad_windows_name_iff in H.
      destruct H as (name & Hin & Hsame). exact (V5 _ _ Hshort Hin Hsame).
    + destruct k; [right | right | left; reflexivity];
        apply not_true_is_false; intros H; apply tilde_digits_iff in H;
        refine (V6 _ _ Hshort H); discriminate.
Qed.
