(* String-level theory of escapeString / unescapeString (no path checking involved). *)
From Verif.Base Require Import Bytes.
From Verif.Module Require Import Escape.

Definition no_upper (s : str) : Prop := Forall (fun c => is_upper c = false) s.
Definition esc_clean (s : str) : Prop := existsb esc_bad s = false.

Lemma esc_clean_cons c s : esc_clean (c :: s) <-> esc_bad c = false /\ esc_clean s.
Proof. unfold esc_clean; cbn [existsb]. rewrite orb_false_iff. tauto. Qed.

Lemma esc_bad_false c : esc_bad c = false <-> c <> bang /\ c < 128.
Proof. unfold esc_bad, bang. rewrite orb_false_iff, Z.eqb_neq, Z.leb_gt. tauto. Qed.

Lemma is_upper_true c : is_upper c = true <-> 65 <= c <= 90.
Proof. unfold is_upper. rewrite andb_true_iff, !Z.leb_le. tauto. Qed.

Lemma is_upper_false c : is_upper c = false <-> c < 65 \/ 90 < c.
Proof. unfold is_upper. rewrite andb_false_iff, !Z.leb_gt. tauto. Qed.

Lemma esc_byte_upper c : is_upper c = true -> esc_byte c = [bang; c + 32].
Proof. unfold esc_byte. now intros ->. Qed.

Lemma esc_byte_other c : is_upper c = false -> esc_byte c = [c].
Proof. unfold esc_byte. now intros ->. Qed.

(* without upper-case letters the second loop is the identity: the early return of
   escapeString is an optimisation only *)
Lemma flat_map_esc_byte_id s : existsb is_upper s = false -> flat_map esc_byte s = s.
Proof.
  induction s as [|c s IH]; cbn [existsb flat_map]; [reflexivity|].
  rewrite orb_false_iff. intros [Hc Hs]. rewrite (esc_byte_other c Hc). cbn [app]. now rewrite IH.
Qed.

Lemma escape_string_flat s : esc_clean s -> escape_string s = EOk (flat_map esc_byte s).
Proof.
  unfold esc_clean, escape_string. intros ->.
  destruct (existsb is_upper s) eqn:Hu; cbn [negb]; [reflexivity|].
  now rewrite flat_map_esc_byte_id.
Qed.

Lemma escape_string_ok_inv s e :
  escape_string s = EOk e -> esc_clean s /\ e = flat_map esc_byte s.
Proof.
  intros H. destruct (existsb esc_bad s) eqn:Hb.
  - unfold escape_string in H. rewrite Hb in H. discriminate.
  - split; [exact Hb|]. rewrite (escape_string_flat s Hb) in H. congruence.
Qed.

Lemma escape_string_err s e : escape_string s = EErr e -> e = EInternal /\ existsb esc_bad s = true.
Proof.
  unfold escape_string. destruct (existsb esc_bad s); [intros [= <-]; auto|].
  destruct (negb (existsb is_upper s)); discriminate.
Qed.

(* escapeString succeeds exactly on strings without '!' and without bytes >= 0x80 *)
Lemma escape_string_total s : esc_clean s <-> exists e, escape_string s = EOk e.
Proof.
  split.
  - intros H. eexists. now apply escape_string_flat.
  - intros [e H]. now apply escape_string_ok_inv in H.
Qed.

(* ---- round trip -------------------------------------------------------------------- *)

Lemma unescape_flat s : esc_clean s -> unescape_from false (flat_map esc_byte s) = Some s.
Proof.
  induction s as [|c s IH]; [reflexivity|].
  rewrite esc_clean_cons, esc_bad_false. intros [[Hnb Hlt] Hs].
  specialize (IH Hs). cbn [flat_map].
  destruct (is_upper c) eqn:Hu.
  - rewrite (esc_byte_upper c Hu). apply is_upper_true in Hu. cbn [app unescape_from]. unfold bang.
    replace (128 <=? 33) with false by reflexivity. rewrite Z.eqb_refl.
    replace (128 <=? c + 32) with false by (symmetry; apply Z.leb_gt; lia).
    replace ((c + 32 <? 97) || (122 <? c + 32)) with false
      by (symmetry; apply orb_false_iff; split; apply Z.ltb_ge; lia).
    rewrite IH. cbn [option_map]. f_equal. f_equal. lia.
  - rewrite (esc_byte_other c Hu). cbn [app unescape_from].
    replace (128 <=? c) with false by (symmetry; apply Z.leb_gt; lia).
    replace (c =? bang) with false by (symmetry; now apply Z.eqb_neq).
    rewrite Hu, IH. reflexivity.
Qed.

Theorem escape_string_roundtrip s e : escape_string s = EOk e -> unescape_string e = Some s.
Proof.
  intros H. apply escape_string_ok_inv in H as [Hc ->]. now apply unescape_flat.
Qed.

(* ---- no upper case in the output ---------------------------------------------------- *)

Lemma flat_no_upper s : no_upper (flat_map esc_byte s).
Proof.
  induction s as [|c s IH]; cbn [flat_map]; [constructor|].
  destruct (is_upper c) eqn:Hu;
    [rewrite (esc_byte_upper c Hu) | rewrite (esc_byte_other c Hu)]; cbn [app].
  - apply is_upper_true in Hu. constructor; [reflexivity|].
    constructor; [apply is_upper_false; lia | exact IH].
  - constructor; assumption.
Qed.

Theorem escape_string_no_upper s e : escape_string s = EOk e -> no_upper e.
Proof. intros H. apply escape_string_ok_inv in H as [_ ->]. apply flat_no_upper. Qed.

Lemma ascii_lower_no_upper e : no_upper e -> ascii_lower e = e.
Proof.
  induction 1 as [|c e Hc _ IH]; [reflexivity|].
  unfold ascii_lower in *. cbn [map]. unfold lower_byte at 1. rewrite Hc. now rewrite IH.
Qed.

(* ---- the image of escaping is exactly the domain of unescaping ------------------------ *)

Lemma unescape_from_inv e :
  (forall s, unescape_from false e = Some s -> esc_clean s /\ flat_map esc_byte s = e) /\
  (forall s, unescape_from true e = Some s -> esc_clean s /\ flat_map esc_byte s = bang :: e).
Proof.
  induction e as [|c e [IHf IHt]]; split; intros s H; cbn [unescape_from] in H.
  - injection H as <-. split; reflexivity.
  - discriminate.
  - destruct (128 <=? c) eqn:H128; [discriminate|]. apply Z.leb_gt in H128.
    destruct (c =? bang) eqn:Hb.
    + apply Z.eqb_eq in Hb. subst c. now apply IHt.
    + apply Z.eqb_neq in Hb. destruct (is_upper c) eqn:Hu; [discriminate|].
      destruct (unescape_from false e) as [s'|] eqn:Hs'; [|discriminate].
      cbn [option_map] in H. injection H as <-.
      destruct (IHf s' eq_refl) as [Hc Hfl]. split.
      * apply esc_clean_cons. split; [apply esc_bad_false; auto | exact Hc].
      * cbn [flat_map]. rewrite (esc_byte_other c Hu). cbn [app]. now rewrite Hfl.
  - destruct (128 <=? c) eqn:H128; [discriminate|]. apply Z.leb_gt in H128.
    destruct ((c <? 97) || (122 <? c)) eqn:Hr; [discriminate|].
    apply orb_false_iff in Hr as [H97 H122]. apply Z.ltb_ge in H97, H122.
    destruct (unescape_from false e) as [s'|] eqn:Hs'; [|discriminate].
    cbn [option_map] in H. injection H as <-.
    destruct (IHf s' eq_refl) as [Hc Hfl]. split.
    + apply esc_clean_cons. split; [apply esc_bad_false; unfold bang; lia | exact Hc].
    + cbn [flat_map]. rewrite esc_byte_upper by (apply is_upper_true; lia).
      cbn [app]. rewrite Hfl. f_equal. f_equal. lia.
Qed.

Theorem unescape_string_image e s : unescape_string e = Some s -> escape_string s = EOk e.
Proof.
  intros H. apply (proj1 (unescape_from_inv e)) in H as [Hc <-]. now apply escape_string_flat.
Qed.

(* ---- injectivity, also under ASCII case folding --------------------------------------- *)

Theorem escape_string_injective p q e :
  escape_string p = EOk e -> escape_string q = EOk e -> p = q.
Proof.
  intros Hp Hq. apply escape_string_roundtrip in Hp, Hq. congruence.
Qed.

Theorem escape_string_fold_injective p q e f :
  escape_string p = EOk e -> escape_string q = EOk f -> ascii_lower e = ascii_lower f -> p = q.
Proof.
  intros Hp Hq Hl.
  rewrite (ascii_lower_no_upper e) in Hl by (eapply escape_string_no_upper; eauto).
  rewrite (ascii_lower_no_upper f) in Hl by (eapply escape_string_no_upper; eauto).
  subst f. eapply escape_string_injective; eauto.
Qed.

(* ---- the checked wrappers, for any validity test --------------------------------------- *)

Section Checked.
  Variable chk : str -> bool.

  Lemma escape_checked_roundtrip p e :
    escape_checked chk p = EOk e -> unescape_checked chk e = EOk p.
  Proof.
    unfold escape_checked, unescape_checked. destruct (chk p) eqn:Hc; [|discriminate].
    intros H. rewrite (escape_string_roundtrip _ _ H). now rewrite Hc.
  Qed.

  Lemma unescape_checked_image e p :
    unescape_checked chk e = EOk p -> escape_checked chk p = EOk e.
  Proof.
    unfold escape_checked, unescape_checked.
    destruct (unescape_string e) as [s|] eqn:Hu; [|discriminate].
    destruct (chk s) eqn:Hc; [|discriminate]. intros [= <-]. rewrite Hc.
    now apply unescape_string_image.
  Qed.

  Lemma escape_checked_no_upper p e : escape_checked chk p = EOk e -> no_upper e.
  Proof.
    unfold escape_checked. destruct (chk p); [|discriminate]. apply escape_string_no_upper.
  Qed.

  Lemma escape_checked_fold_injective p q e f :
    escape_checked chk p = EOk e -> escape_checked chk q = EOk f ->
    ascii_lower e = ascii_lower f -> p = q.
  Proof.
    unfold escape_checked. destruct (chk p); [|discriminate]. destruct (chk q); [|discriminate].
    apply escape_string_fold_injective.
  Qed.

  Lemma escape_checked_rejects p : chk p = false -> escape_checked chk p = EErr EInvalid.
  Proof. unfold escape_checked. now intros ->. Qed.

  (* success on every accepted input needs: accepted inputs have no '!' and are ASCII *)
  Lemma escape_checked_total p :
    (chk p = true -> esc_clean p) -> chk p = true -> exists e, escape_checked chk p = EOk e.
  Proof.
    intros Hcl Hc. unfold escape_checked. rewrite Hc. apply escape_string_total. auto.
  Qed.

  Lemma unescape_checked_err e er : unescape_checked chk e = EErr er -> er = EInvalid.
  Proof.
    unfold unescape_checked. destruct (unescape_string e) as [s|]; [destruct (chk s)|]; congruence.
  Qed.
End Checked.
