(* Proofs about Module/Path.v, part 1: the inclusion chain module => import => file,
   re-proved against the regenerated character classes of Gen/GenChars.v. *)
From Verif.Base Require Import Bytes Utf8.
From Verif.Gen Require Import GenChars GenConsts GenUnicode.
From Verif.Semver Require Import Model.
From Verif.Module Require Import Path.

(* ---- boolean plumbing ------------------------------------------------------------------ *)

Ltac b2p :=
  repeat match goal with
         | H : _ && _ = true |- _ => apply andb_true_iff in H; destruct H
         | H : _ || _ = true |- _ => apply orb_true_iff in H; destruct H
         | H : (_ =? _) = true |- _ => apply Z.eqb_eq in H
         | H : (_ <=? _) = true |- _ => apply Z.leb_le in H
         | H : (_ <? _) = true |- _ => apply Z.ltb_lt in H
         | H : (_ <? _) = false |- _ => apply Z.ltb_ge in H
         end.

(* the code points 0..127 *)
Definition ascii_range : list Z := map Z.of_nat (seq 0 128).

Lemma in_ascii_range r : 0 <= r < 128 -> In r ascii_range.
Proof.
  intros H. unfold ascii_range. apply in_map_iff. exists (Z.to_nat r). split.
  - lia.
  - apply in_seq. lia.
Qed.

(* a finite sweep, decided by computation, lifted to all ASCII code points *)
Lemma sweep_ascii (P Q : Z -> bool) :
  forallb (fun r => implb (P r) (Q r)) ascii_range = true ->
  forall r, 0 <= r < 128 -> P r = true -> Q r = true.
Proof.
  intros Hs r Hr HP. rewrite forallb_forall in Hs.
  specialize (Hs r (in_ascii_range r Hr)). rewrite HP in Hs. exact Hs.
Qed.

(* ---- the character classes --------------------------------------------------------------- *)

(* runes outside ASCII are never module-path characters: by unfolding the generated text *)
Lemma modPathOK_ascii r : module_modPathOK r = true -> 0 <= r < 128.
Proof.
  unfold module_modPathOK. destruct (r <? 128) eqn:Hlt; [|discriminate].
  intros H. b2p; lia.
Qed.

Lemma importPathOK_ascii r : module_importPathOK r = true -> 0 <= r < 128.
Proof.
  unfold module_importPathOK. intros H. apply orb_true_iff in H. destruct H as [H|H].
  - apply modPathOK_ascii; exact H.
  - b2p; lia.
Qed.

Lemma modPathOK_importPathOK r : module_modPathOK r = true -> module_importPathOK r = true.
Proof.
  intros H. apply (sweep_ascii module_modPathOK module_importPathOK).
  - vm_compute. reflexivity.
  - apply modPathOK_ascii; exact H.
  - exact H.
Qed.

Lemma importPathOK_fileNameOK r : module_importPathOK r = true -> module_fileNameOK r = true.
Proof.
  intros H. apply (sweep_ascii module_importPathOK module_fileNameOK).
  - vm_compute. reflexivity.
  - apply importPathOK_ascii; exact H.
  - exact H.
Qed.

Lemma firstPathOK_modPathOK r : module_firstPathOK r = true -> module_modPathOK r = true.
Proof.
  intros H. apply (sweep_ascii module_firstPathOK module_modPathOK).
  - vm_compute. reflexivity.
  - unfold module_firstPathOK in H. b2p; lia.
  - exact H.
Qed.

Lemma char_ok_module_import r : char_ok KModule r = true -> char_ok KImport r = true.
Proof. exact (modPathOK_importPathOK r). Qed.

Lemma char_ok_import_file r : char_ok KImport r = true -> char_ok KFile r = true.
Proof. exact (importPathOK_fileNameOK r). Qed.

(* ---- elements ------------------------------------------------------------------------------- *)

Lemma forallb_impl {A} (f g : A -> bool) l :
  (forall x, f x = true -> g x = true) -> forallb f l = true -> forallb g l = true.
Proof.
  intros Hfg. induction l as [|x l IH]; simpl; auto.
  intros H. apply andb_true_iff in H. destruct H as [Hx Hl].
  rewrite (Hfg x Hx), (IH Hl). reflexivity.
Qed.

(* check_elem accepts exactly under these conditions (a characterisation used everywhere
   instead of unfolding check_elem) *)
Definition leading_dot (e : str) : bool := head_is 46 e.
Definition is_module (k : kind) : bool := match k with KModule => true | _ => false end.
Definition is_file (k : kind) : bool := match k with KFile => true | _ => false end.

Lemma check_elem_none k e :
  check_elem k e = None <->
  is_nil e = false /\
  forallb (fun c => c =? 46) e = false /\
  leading_dot e && is_module k = false /\
  (last e 0 =? 46) = false /\
  forallb (char_ok k) (runes e) = true /\
  is_bad_windows_name (short_of e) = false /\
  (is_file k = true \/ tilde_digits (short_of e) = false).
Proof.
  unfold check_elem. fold (leading_dot e). fold (is_module k).
  destruct (is_nil e); [split; [discriminate | intros (H & _); discriminate]|].
  destruct (forallb (fun c => c =? 46) e); [split; [discriminate | intros (_ & H & _); discriminate]|].
  destruct (leading_dot e && is_module k); [split; [discriminate | intros (_ & _ & H & _); discriminate]|].
  destruct (last e 0 =? 46); [split; [discriminate | intros (_ & _ & _ & H & _); discriminate]|].
  destruct (forallb (char_ok k) (runes e)); simpl;
    [|split; [discriminate | intros (_ & _ & _ & _ & H & _); discriminate]].
  destruct (is_bad_windows_name (short_of e));
    [split; [discriminate | intros (_ & _ & _ & _ & _ & H & _); discriminate]|].
  destruct k; simpl.
  - destruct (tilde_digits (short_of e)).
    + split; [discriminate | intros (_ & _ & _ & _ & _ & _ & [H|H]); discriminate].
    + split; auto 10.
  - destruct (tilde_digits (short_of e)).
    + split; [discriminate | intros (_ & _ & _ & _ & _ & _ & [H|H]); discriminate].
    + split; auto 10.
  - split; auto 10.
Qed.

Lemma check_elem_module_import e : check_elem KModule e = None -> check_elem KImport e = None.
Proof.
  rewrite !check_elem_none. intros (H1 & H2 & H3 & H4 & H5 & H6 & H7).
  refine (conj H1 (conj H2 (conj _ (conj H4 (conj _ (conj H6 _)))))).
  - simpl. apply andb_false_r.
  - revert H5. apply forallb_impl. exact char_ok_module_import.
  - right. destruct H7 as [H7|H7]; [discriminate | exact H7].
Qed.

Lemma check_elem_import_file e : check_elem KImport e = None -> check_elem KFile e = None.
Proof.
  rewrite !check_elem_none. intros (H1 & H2 & H3 & H4 & H5 & H6 & H7).
  refine (conj H1 (conj H2 (conj _ (conj H4 (conj _ (conj H6 _)))))).
  - simpl. apply andb_false_r.
  - revert H5. apply forallb_impl. exact char_ok_import_file.
  - left. reflexivity.
Qed.

(* ---- paths ------------------------------------------------------------------------------------ *)

Lemma first_err_none k l : first_err k l = None <-> Forall (fun e => check_elem k e = None) l.
Proof.
  induction l as [|e l IH]; simpl.
  - split; auto.
  - destruct (check_elem k e) eqn:He.
    + split; [discriminate|]. intros H. inversion H; subst. congruence.
    + rewrite IH. split; intros H.
      * constructor; auto.
      * inversion H; auto.
Qed.

Definition leading_dash (p : str) : bool := head_is 45 p.

Lemma check_path_none k p :
  check_path k p = None <->
  valid p = true /\
  is_nil p = false /\
  leading_dash p && negb (is_file k) = false /\
  contains_dslash p = false /\
  (last p 0 =? 47) = false /\
  Forall (fun e => check_elem k e = None) (split_on 47 p).
Proof.
  unfold check_path. fold (leading_dash p).
  replace (match k with KFile => false | _ => true end) with (negb (is_file k)) by (destruct k; reflexivity).
  destruct (valid p); simpl; [|split; [discriminate | intros (H & _); discriminate]].
  destruct (is_nil p); [split; [discriminate | intros (_ & H & _); discriminate]|].
  destruct (leading_dash p && negb (is_file k)); [split; [discriminate | intros (_ & _ & H & _); discriminate]|].
  destruct (contains_dslash p); [split; [discriminate | intros (_ & _ & _ & H & _); discriminate]|].
  destruct (last p 0 =? 47); [split; [discriminate | intros (_ & _ & _ & _ & H & _); discriminate]|].
  rewrite first_err_none. split; auto 10. intros (_ & _ & _ & _ & _ & H). exact H.
Qed.

Lemma check_path_module_import p : check_path KModule p = None -> check_path KImport p = None.
Proof.
  rewrite !check_path_none. intros (H1 & H2 & H3 & H4 & H5 & H6).
  refine (conj H1 (conj H2 (conj H3 (conj H4 (conj H5 _))))).
  revert H6. apply Forall_impl. exact check_elem_module_import.
Qed.

Lemma check_module_path_check_path p : check_module_path p = None -> check_path KModule p = None.
Proof.
  unfold check_module_path. destruct (check_path KModule p); [discriminate | reflexivity].
Qed.

Theorem module_sub_import p : check_module_path p = None -> check_import_path p = None.
Proof.
  intros H. apply check_path_module_import, check_module_path_check_path, H.
Qed.

Theorem import_sub_file p : check_import_path p = None -> check_file_path p = None.
Proof.
  unfold check_import_path, check_file_path.
  rewrite !check_path_none. intros (H1 & H2 & H3 & H4 & H5 & H6).
  refine (conj H1 (conj H2 (conj _ (conj H4 (conj H5 _))))).
  - simpl. apply andb_false_r.
  - revert H6. apply Forall_impl. exact check_elem_import_file.
Qed.
