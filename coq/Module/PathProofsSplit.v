(* Proofs about split_path_version / split_gopkgin (module.SplitPathVersion):
   prefix ++ pathMajor = path, and the shape of pathMajor. *)
From Verif.Base Require Import Bytes Utf8.
From Verif.Module Require Import Path PathSpec PathProofsLists.

Lemma is_digit_iff c : is_digit c = true <-> 48 <= c <= 57.
Proof. unfold is_digit. rewrite andb_true_iff, !Z.leb_le. tauto. Qed.

Lemma forallb_is_digit_iff n : forallb is_digit n = true <-> Forall (fun c => 48 <= c <= 57) n.
Proof.
  rewrite forallb_forall, Forall_forall. split; intros H x Hx; apply is_digit_iff, H, Hx.
Qed.

Lemma is_gopkg_in_iff p : has_prefix p gopkg_in = true <-> is_gopkg_in p.
Proof. apply has_prefix_iff. Qed.

Lemma forallb_rev {A} (f : A -> bool) l : forallb f (rev l) = forallb f l.
Proof.
  induction l as [|x l IH]; simpl; [reflexivity|].
  rewrite forallb_app, IH. simpl. rewrite andb_true_r. apply andb_comm.
Qed.

Lemma rev_eq_nil {A} (l : list A) : rev l = [] -> l = [].
Proof. intros H. apply (f_equal (@rev A)) in H. rewrite rev_involutive in H. exact H. Qed.

(* ---- gopkg.in -------------------------------------------------------------------------------- *)

Lemma split_gopkgin_spec p pre suf ok :
  split_gopkgin p = (pre, suf, ok) ->
  pre ++ suf = p /\ (ok = true -> gopkg_suffix suf) /\ (ok = false -> pre = p /\ suf = []).
Proof.
  unfold split_gopkgin.
  assert (Htriv : forall pre suf ok, (p, @nil Z, false) = (pre, suf, ok) ->
            pre ++ suf = p /\ (ok = true -> gopkg_suffix suf) /\ (ok = false -> pre = p /\ suf = [])).
  { intros ? ? ? E. inversion E; subst. rewrite app_nil_r. repeat split; auto. discriminate. }
  destruct (negb (has_prefix p gopkg_in)); [apply Htriv|].
  (* p = body ++ tailu, where tailu is "-unstable" or "" *)
  set (uns := has_suffix p unstable).
  assert (Hbody : exists body,
             p = body ++ (if uns then unstable else []) /\
             (if uns then skipn (length unstable) (rev p) else rev p) = rev body).
  { destruct uns eqn:Hu.
    - apply has_suffix_iff in Hu. destruct Hu as (r & ->). exists r. split; [reflexivity|].
      rewrite rev_app_distr, skipn_app, <- rev_length, skipn_all, Nat.sub_diag. reflexivity.
    - exists p. rewrite app_nil_r. auto. }
  destruct Hbody as (body & Hp & ->). clearbody uns.
  match goal with |- context [if uns then unstable else ?e] =>
    set (tailu := if uns then unstable else e) in * end.
  destruct (span is_digit (rev body)) as [dr rr] eqn:Hsp.
  apply span_spec in Hsp. destruct Hsp as (Hrev & Hdig & _).
  destruct rr as [|a [|b pre_rev]]; try apply Htriv.
  destruct ((a =? 118) && (b =? 46)) eqn:Hab; [|apply Htriv].
  apply andb_true_iff in Hab. destruct Hab as [Ha Hb]. apply Z.eqb_eq in Ha, Hb. subst a b.
  match goal with |- context [len ?x <=? 2] => set (pm := x) in * end.
  destruct ((len pm <=? 2) || byte_at_is 2 45 pm || (byte_at_is 2 48 pm && negb (str_eqb pm (B ".v0"))))
    eqn:Hcond; [apply Htriv|].
  intros E. inversion E; subst pre suf ok. clear E.
  apply orb_false_iff in Hcond. destruct Hcond as [Hcond H48].
  apply orb_false_iff in Hcond. destruct Hcond as [Hlen H45].
  assert (Hbody : body = rev pre_rev ++ 46 :: 118 :: rev dr).
  { apply (f_equal (@rev Z)) in Hrev. rewrite rev_involutive in Hrev. rewrite Hrev.
    rewrite rev_app_distr. simpl. rewrite <- !app_assoc. reflexivity. }
  split; [|split; [intros _ | discriminate]].
  - rewrite Hp, Hbody. unfold pm. rewrite <- app_assoc. reflexivity.
  - (* the shape *)
    rewrite <- forallb_rev in Hdig.
    destruct (rev dr) as [|d n'] eqn:Hn.
    + (* no digits: ".v" or ".v-unstable", both refused *)
      exfalso. subst pm tailu. simpl in *. destruct uns.
      * vm_compute in H45. discriminate.
      * vm_compute in Hlen. discriminate.
    + unfold pm in *. cbn [app] in *.
      change (byte_at_is 2 48 (46 :: 118 :: d :: n' ++ tailu)) with (d =? 48) in H48.
      destruct (d =? 48) eqn:Hd.
      * apply Z.eqb_eq in Hd. subst d. simpl in H48. apply negb_false_iff in H48.
        apply str_eqb_eq in H48. left. first [exact H48 | rewrite H48; reflexivity].
      * right. exists (d :: n'). split; [|split].
        -- split; [discriminate | apply forallb_is_digit_iff; exact Hdig].
        -- intros r Hr. inversion Hr; subst. rewrite Z.eqb_refl in Hd. discriminate.
        -- subst tailu. destruct uns; [right | left; rewrite app_nil_r]; reflexivity.
Qed.

(* ---- other paths ------------------------------------------------------------------------------- *)

Lemma digit_or_dot_no_dot l :
  forallb digit_or_dot l = true -> contains_byte 46 l = false -> forallb is_digit l = true.
Proof.
  induction l as [|c l IH]; simpl; [reflexivity|].
  intros H1 H2. apply andb_true_iff in H1. destruct H1 as [Hc Hl].
  apply orb_false_iff in H2. destruct H2 as [Hd Hn].
  unfold digit_or_dot in Hc. rewrite Hd, orb_false_r in Hc. rewrite Hc.
  apply IH; assumption.
Qed.

Lemma split_plain_spec p pre suf ok :
  has_prefix p gopkg_in = false ->
  split_path_version p = (pre, suf, ok) ->
  pre ++ suf = p /\ (ok = true -> suf = [] \/ slash_suffix suf) /\ (ok = false -> pre = p /\ suf = []).
Proof.
  intros Hg. unfold split_path_version. rewrite Hg.
  assert (Htriv : forall o pre suf ok, (p, @nil Z, o) = (pre, suf, ok) ->
            pre ++ suf = p /\ (ok = true -> suf = [] \/ slash_suffix suf) /\ (ok = false -> pre = p /\ suf = [])).
  { intros ? ? ? ? E. inversion E; subst. rewrite app_nil_r. repeat split; auto. }
  destruct (span digit_or_dot (rev p)) as [tr rr] eqn:Hsp.
  apply span_spec in Hsp. destruct Hsp as (Hrev & Hdd & _).
  destruct tr as [|t0 tr]; [apply Htriv|].
  destruct rr as [|a [|b pre_rev]]; try apply Htriv.
  destruct ((a =? 118) && (b =? 47)) eqn:Hab; [|apply Htriv].
  apply andb_true_iff in Hab. destruct Hab as [Ha Hb]. apply Z.eqb_eq in Ha, Hb. subst a b.
  match goal with |- context [len ?x <=? 2] => set (pm := x) in * end.
  destruct (contains_byte 46 (t0 :: tr) || (len pm <=? 2) || byte_at_is 2 48 pm || str_eqb pm (B "/v1"))
    eqn:Hcond; [apply Htriv|].
  intros E. inversion E; subst pre suf ok. clear E.
  apply orb_false_iff in Hcond. destruct Hcond as [Hcond Hv1].
  apply orb_false_iff in Hcond. destruct Hcond as [Hcond H48].
  apply orb_false_iff in Hcond. destruct Hcond as [Hdot _].
  split; [|split; [intros _ | discriminate]].
  - apply (f_equal (@rev Z)) in Hrev. rewrite rev_involutive in Hrev. rewrite Hrev.
    rewrite rev_app_distr. unfold pm. simpl. rewrite <- !app_assoc. reflexivity.
  - right. exists (rev (t0 :: tr)).
    assert (Hd : forallb is_digit (rev (t0 :: tr)) = true).
    { rewrite forallb_rev. apply digit_or_dot_no_dot; assumption. }
    assert (Hne : rev (t0 :: tr) <> []) by (intros H; apply rev_eq_nil in H; discriminate).
    split; [|split; [|split]].
    + split; [exact Hne | apply forallb_is_digit_iff; exact Hd].
    + intros r Hr. unfold pm in H48. rewrite Hr in H48. vm_compute in H48. discriminate.
    + intros H1. unfold pm in Hv1. rewrite H1 in Hv1. vm_compute in Hv1. discriminate.
    + reflexivity.
Qed.

(* ---- SplitPathVersion ---------------------------------------------------------------------------- *)

Theorem split_spec p pre suf ok :
  split_path_version p = (pre, suf, ok) ->
  pre ++ suf = p /\ (ok = true -> suffix_shape p suf) /\ (ok = false -> pre = p /\ suf = []).
Proof.
  intros H. destruct (has_prefix p gopkg_in) eqn:Hg.
  - assert (H' : split_gopkgin p = (pre, suf, ok)).
    { unfold split_path_version in H. rewrite Hg in H. exact H. }
    apply split_gopkgin_spec in H'. destruct H' as (E & Hs & Hf).
    split; [exact E|]. split; [|exact Hf].
    intros Hok. right. split; [apply is_gopkg_in_iff; exact Hg | auto].
  - destruct (split_plain_spec p pre suf ok Hg H) as (E & Hs & Hf).
    split; [exact E|]. split; [|exact Hf].
    intros Hok. left. split; [|auto].
    intros Hin. apply is_gopkg_in_iff in Hin. congruence.
Qed.

(* "/vN for N >= 2", numerically *)
Lemma numeral_value_app n c : numeral_value (n ++ [c]) = 10 * numeral_value n + (c - 48).
Proof. unfold numeral_value. rewrite fold_left_app. reflexivity. Qed.

Lemma numeral_value_cons_ge d n :
  Forall (fun c => 48 <= c <= 57) n -> 0 <= d ->
  d <= fold_left (fun acc c => 10 * acc + (c - 48)) n d.
Proof.
  intros Hn. revert d. induction Hn as [|c n Hc Hn IH]; intros d Hd; cbn [fold_left]; [lia|].
  specialize (IH (10 * d + (c - 48))). lia.
Qed.

Lemma numeral_value_ge_10 d c n :
  Forall (fun c => 48 <= c <= 57) (d :: c :: n) -> d <> 48 -> 10 <= numeral_value (d :: c :: n).
Proof.
  intros H Hd. inversion H as [|? ? Hd' H']; subst. inversion H' as [|? ? Hc Hn]; subst.
  unfold numeral_value. cbn [fold_left].
  pose proof (numeral_value_cons_ge (10 * (10 * 0 + (d - 48)) + (c - 48)) n Hn). lia.
Qed.

Theorem slash_suffix_value suf :
  slash_suffix suf -> exists n, suf = B "/v" ++ n /\ all_digits n /\ no_leading_zero n /\ 2 <= numeral_value n.
Proof.
  intros (n & Hd & Hz & H1 & ->). exists n. repeat split; try apply Hd; auto.
  destruct Hd as [Hne Hall]. destruct n as [|d [|c n]]; [contradiction| |].
  - inversion Hall as [|? ? Hdr _]; subst. unfold numeral_value. cbn [fold_left].
    assert (d <> 48) by (intros ->; apply (Hz []); reflexivity).
    assert (d <> 49) by (intros ->; apply H1; reflexivity). lia.
  - assert (d <> 48) by (intros ->; apply (Hz (c :: n)); reflexivity).
    pose proof (numeral_value_ge_10 d c n Hall). lia.
Qed.
