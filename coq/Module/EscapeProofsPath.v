(* The escaping theorems for module paths and versions: the string-level theory
   (EscapeProofs.v) joined with the path model (Path.v). *)
From Verif.Base Require Import Bytes Utf8.
From Verif.Gen Require Import GenChars.
From Verif.Module Require Import Path Escape EscapeProofs.

(* ---- runes below 128 are bytes below 128 ---------------------------------------------- *)

Lemma decode_lt128 b0 r : b0 < 128 -> decode (b0 :: r) = (b0, 1%nat).
Proof. intros H. unfold decode. apply Z.ltb_lt in H. now rewrite H. Qed.

Ltac boolZ :=
  repeat match goal with
         | H : _ && _ = true |- _ => apply andb_true_iff in H; destruct H
         | H : (_ <=? _) = true |- _ => apply Z.leb_le in H
         | H : (_ <? _) = false |- _ => apply Z.ltb_ge in H
         | H : (_ =? _) = true |- _ => apply Z.eqb_eq in H
         | H : (_ =? _) = false |- _ => apply Z.eqb_neq in H
         end.

Lemma decode_ge128 b0 r : 128 <= b0 -> 128 <= fst (decode (b0 :: r)).
Proof.
  intros H. unfold decode, cont.
  destruct (b0 <? 128) eqn:H0; [apply Z.ltb_lt in H0; lia|].
  destruct ((194 <=? b0) && (b0 <=? 223)) eqn:H2.
  { destruct r as [|b1 r]; [cbn; unfold rune_error; lia|].
    destruct ((128 <=? b1) && (b1 <=? 191)) eqn:Hc; cbn [fst]; [boolZ; lia | unfold rune_error; lia]. }
  destruct ((224 <=? b0) && (b0 <=? 239)) eqn:H3.
  { destruct r as [|b1 [|b2 r]]; try (cbn; unfold rune_error; lia).
    destruct (b0 =? 224) eqn:E224; destruct (b0 =? 237) eqn:E237;
      match goal with |- context [if ?c then _ else _] => destruct c eqn:Hc end;
      cbn [fst]; try (unfold rune_error; lia); boolZ; lia. }
  destruct ((240 <=? b0) && (b0 <=? 244)) eqn:H4.
  { destruct r as [|b1 [|b2 [|b3 r]]]; try (cbn; unfold rune_error; lia).
    destruct (b0 =? 240) eqn:E240; destruct (b0 =? 244) eqn:E244;
      match goal with |- context [if ?c then _ else _] => destruct c eqn:Hc end;
      cbn [fst]; try (unfold rune_error; lia); boolZ; lia. }
  cbn [fst]. unfold rune_error. lia.
Qed.

(* a predicate that holds only of runes below 128 and holds of every rune of s holds of
   every byte of s *)
Lemma runes_ascii (P : Z -> bool) s :
  (forall r, P r = true -> r < 128) ->
  forallb P (runes s) = true -> forallb P s = true.
Proof.
  intros HP. unfold runes.
  induction s as [|b0 s IH]; [reflexivity|].
  cbn [length runes_w]. destruct (decode (b0 :: s)) as [rn w] eqn:Hd.
  cbn [map fst forallb]. rewrite andb_true_iff. intros [Hrn Hrest].
  assert (Hlt : b0 < 128).
  { destruct (Z.lt_ge_cases b0 128) as [|Hge]; [assumption|].
    pose proof (decode_ge128 b0 s Hge) as Hg. rewrite Hd in Hg. cbn [fst] in Hg.
    apply HP in Hrn. lia. }
  rewrite (decode_lt128 b0 s Hlt) in Hd. injection Hd as <- <-.
  cbn [skipn] in Hrest. rewrite Hrn. cbn [andb]. now apply IH.
Qed.

(* ---- what CheckPath / checkElem accept -------------------------------------------------- *)

Lemma modPathOK_clean c : module_modPathOK c = true -> esc_bad c = false.
Proof.
  intros H. apply esc_bad_false. unfold module_modPathOK in H.
  destruct (c <? 128) eqn:Hlt; [|discriminate]. apply Z.ltb_lt in Hlt. split; [|assumption].
  unfold bang. intros ->. vm_compute in H. discriminate.
Qed.

Lemma modPathOK_lt128 c : module_modPathOK c = true -> c < 128.
Proof. intros H. apply modPathOK_clean, esc_bad_false in H. tauto. Qed.

Lemma in_split_on sep p c :
  In c p -> c = sep \/ exists e, In e (split_on sep p) /\ In c e.
Proof.
  induction p as [|x p IH]; [intros []|].
  intros [<-|Hin]; cbn [split_on].
  - destruct (Z.eqb_spec x sep) as [->|Hne]; [now left|]. right.
    destruct (split_on sep p) as [|h t]; eexists; (split; [left; reflexivity | left; reflexivity]).
  - destruct (IH Hin) as [->|[e [He Hc]]]; [now left|]. right.
    destruct (x =? sep).
    + exists e. split; [right; exact He | exact Hc].
    + destruct (split_on sep p) as [|h t]; [destruct He|].
      destruct He as [<-|He].
      * exists (x :: h). split; [left; reflexivity | right; exact Hc].
      * exists e. split; [right; exact He | exact Hc].
Qed.

Lemma first_err_none k elems e :
  first_err k elems = None -> In e elems -> check_elem k e = None.
Proof.
  induction elems as [|x r IH]; [intros _ []|].
  cbn [first_err]. destruct (check_elem k x) eqn:Hx; [discriminate|].
  intros Hr [<-|Hin]; auto.
Qed.

Lemma check_elem_chars k e :
  check_elem k e = None -> forallb (char_ok k) (runes e) = true.
Proof.
  unfold check_elem.
  destruct (is_nil e); [discriminate|].
  destruct (forallb (fun c => c =? 46) e); [discriminate|].
  destruct (_ && _); [discriminate|].
  destruct (last e 0 =? 46); [discriminate|].
  destruct (forallb (char_ok k) (runes e)); [reflexivity|discriminate].
Qed.

Lemma check_path_elems k p :
  check_path k p = None -> first_err k (split_on 47 p) = None.
Proof.
  unfold check_path.
  destruct (negb (valid p)); [discriminate|].
  destruct (is_nil p); [discriminate|].
  destruct (_ && _); [discriminate|].
  destruct (contains_dslash p); [discriminate|].
  destruct (last p 0 =? 47); [discriminate|]. auto.
Qed.

Lemma check_module_path_check_path p :
  check_module_path p = None -> check_path KModule p = None.
Proof. unfold check_module_path. destruct (check_path KModule p); [discriminate|reflexivity]. Qed.

Lemma existsb_false_in {A} (f : A -> bool) l :
  (forall x, In x l -> f x = false) -> existsb f l = false.
Proof.
  induction l as [|x l IH]; [reflexivity|]. intros H. cbn [existsb].
  rewrite (H x (or_introl eq_refl)), IH; [reflexivity|]. intros y Hy. apply H. now right.
Qed.

(* CheckPath accepts only ASCII strings without '!': the "inconsistency" branch of
   escapeString is unreachable from EscapePath *)
Lemma path_ok_clean p : path_ok p = true -> esc_clean p.
Proof.
  unfold path_ok, ok_b. destruct (check_module_path p) eqn:Hc; [discriminate|]. intros _.
  apply check_module_path_check_path, check_path_elems in Hc.
  apply existsb_false_in. intros c Hin.
  destruct (in_split_on 47 p c Hin) as [->|[e [He Hce]]]; [reflexivity|].
  pose proof (check_elem_chars _ _ (first_err_none _ _ _ Hc He)) as Hch. cbn [char_ok] in Hch.
  apply (runes_ascii _ _ modPathOK_lt128) in Hch.
  apply modPathOK_clean. rewrite forallb_forall in Hch. auto.
Qed.

(* ---- module paths ------------------------------------------------------------------------ *)

Theorem escape_path_total p : check_module_path p = None -> exists e, escape_path p = EOk e.
Proof.
  intros H. apply escape_checked_total; unfold path_ok; rewrite ?H; auto using path_ok_clean.
  intros _. apply path_ok_clean. unfold path_ok. now rewrite H.
Qed.

Theorem escape_path_rejects p : check_module_path p <> None -> escape_path p = EErr EInvalid.
Proof.
  intros H. apply escape_checked_rejects. unfold path_ok.
  destruct (check_module_path p); [reflexivity|congruence].
Qed.

Theorem escape_path_ok_valid p e : escape_path p = EOk e -> check_module_path p = None.
Proof.
  unfold escape_path, escape_checked, path_ok. destruct (check_module_path p); [discriminate|reflexivity].
Qed.

Theorem escape_path_no_internal p : escape_path p <> EErr EInternal.
Proof.
  destruct (check_module_path p) eqn:H.
  - rewrite escape_path_rejects by congruence. discriminate.
  - destruct (escape_path_total p H) as [e ->]. discriminate.
Qed.

Definition upper_free (s : str) : Prop := Forall (fun c => ~ (65 <= c <= 90)) s.

Lemma no_upper_upper_free s : no_upper s -> upper_free s.
Proof.
  unfold no_upper, upper_free. apply Forall_impl. intros c H Hc.
  apply is_upper_true in Hc. congruence.
Qed.

Theorem escape_no_upper p e : escape_path p = EOk e -> upper_free e.
Proof. intros H. eapply no_upper_upper_free, escape_checked_no_upper; eauto. Qed.

Lemma escape_string_ascii s e : escape_string s = EOk e -> Forall (fun c => c < 128) e.
Proof.
  intros H. apply escape_string_ok_inv in H as [Hc ->].
  induction s as [|c s IH]; [constructor|].
  apply esc_clean_cons in Hc as [Hb Hs]. apply esc_bad_false in Hb as [_ Hlt].
  cbn [flat_map]. unfold esc_byte at 1. destruct (is_upper c) eqn:Hu; cbn [app].
  - apply is_upper_true in Hu. constructor; [unfold bang; lia|]. constructor; [lia|auto].
  - constructor; auto.
Qed.

Theorem escape_path_ascii p e : escape_path p = EOk e -> Forall (fun c => c < 128) e.
Proof.
  unfold escape_path, escape_checked. destruct (path_ok p); [|discriminate]. apply escape_string_ascii.
Qed.

Theorem escape_roundtrip p e : escape_path p = EOk e -> unescape_path e = EOk p.
Proof. apply escape_checked_roundtrip. Qed.

Theorem escape_fold_injective p q e f :
  escape_path p = EOk e -> escape_path q = EOk f -> ascii_lower e = ascii_lower f -> p = q.
Proof. apply escape_checked_fold_injective. Qed.

Theorem unescape_image e p : unescape_path e = EOk p -> escape_path p = EOk e.
Proof. apply unescape_checked_image. Qed.

Theorem unescape_path_valid e p : unescape_path e = EOk p -> check_module_path p = None.
Proof. intros H. eapply escape_path_ok_valid, unescape_image, H. Qed.

(* ---- versions ----------------------------------------------------------------------------- *)

(* the documented domain of EscapeVersion: a valid file-name element without '!' ... *)
Definition allowed_version (v : str) : Prop := check_elem KFile v = None /\ ~ In bang v.
(* ... on which the theorems hold when it is ASCII (K3: they fail otherwise) *)
Definition ascii (v : str) : Prop := Forall (fun c => c < 128) v.

Lemma contains_byte_false c s : contains_byte c s = false <-> ~ In c s.
Proof.
  unfold contains_byte. split.
  - intros H Hin. assert (existsb (fun x => x =? c) s = true) as Ht
      by (apply existsb_exists; exists c; split; [assumption | apply Z.eqb_refl]). congruence.
  - intros H. apply existsb_false_in. intros x Hx. apply Z.eqb_neq. intros ->. auto.
Qed.

Lemma version_ok_iff v : version_ok v = true <-> allowed_version v.
Proof.
  unfold version_ok, allowed_version, elem_ok, ok_b.
  rewrite andb_true_iff, negb_true_iff, contains_byte_false.
  destruct (check_elem KFile v); split; intros [H1 H2]; split; congruence || auto.
Qed.

Lemma allowed_ascii_clean v : allowed_version v -> ascii v -> esc_clean v.
Proof.
  intros [_ Hb] Ha. apply existsb_false_in. intros c Hc. apply esc_bad_false. split.
  - intros ->. auto.
  - unfold ascii in Ha. rewrite Forall_forall in Ha. auto.
Qed.

Lemma esc_clean_ascii v : esc_clean v -> ascii v /\ ~ In bang v.
Proof.
  intros H. split.
  - apply Forall_forall. intros c Hc. destruct (Z.lt_ge_cases c 128) as [|Hge]; [assumption|].
    assert (existsb esc_bad v = true) as Ht
      by (apply existsb_exists; exists c; split; [assumption|];
          unfold esc_bad; apply orb_true_iff; right; now apply Z.leb_le).
    unfold esc_clean in H. congruence.
  - intros Hin.
    assert (existsb esc_bad v = true) as Ht
      by (apply existsb_exists; exists bang; split; [assumption | reflexivity]).
    unfold esc_clean in H. congruence.
Qed.

Theorem escape_version_total v :
  allowed_version v -> ascii v -> exists e, escape_version v = EOk e.
Proof.
  intros Ha Hs. apply escape_checked_total; [|now apply version_ok_iff].
  intros _. now apply allowed_ascii_clean.
Qed.

Theorem escape_version_rejects v : ~ allowed_version v -> escape_version v = EErr EInvalid.
Proof.
  intros H. apply escape_checked_rejects. destruct (version_ok v) eqn:E; [|reflexivity].
  apply version_ok_iff in E. contradiction.
Qed.

(* success happens exactly on the ASCII part of the documented domain *)
Theorem escape_version_ok_iff v :
  (exists e, escape_version v = EOk e) <-> allowed_version v /\ ascii v.
Proof.
  split; [|intros [? ?]; now apply escape_version_total].
  intros [e H]. unfold escape_version, escape_checked in H.
  destruct (version_ok v) eqn:E; [|discriminate]. apply version_ok_iff in E.
  split; [assumption|]. apply escape_string_ok_inv in H as [Hc _]. now apply esc_clean_ascii.
Qed.

(* the internal error is returned exactly on allowed versions with a byte >= 0x80 (K3) *)
Theorem escape_version_internal_iff v :
  escape_version v = EErr EInternal <-> allowed_version v /\ exists c, In c v /\ 128 <= c.
Proof.
  unfold escape_version, escape_checked. split.
  - destruct (version_ok v) eqn:E; [|discriminate]. apply version_ok_iff in E. intros H.
    split; [assumption|]. apply escape_string_err in H as [_ H].
    apply existsb_exists in H as [c [Hin Hb]]. exists c. split; [assumption|].
    unfold esc_bad in Hb. apply orb_true_iff in Hb as [Hb|Hb].
    + apply Z.eqb_eq in Hb. subst c. destruct E as [_ E]. contradiction.
    + now apply Z.leb_le.
  - intros [Ha [c [Hin Hc]]]. apply version_ok_iff in Ha. rewrite Ha.
    unfold escape_string.
    replace (existsb esc_bad v) with true; [reflexivity|].
    symmetry. apply existsb_exists. exists c. split; [assumption|].
    unfold esc_bad. apply orb_true_iff. right. now apply Z.leb_le.
Qed.

Theorem escape_version_no_upper v e : escape_version v = EOk e -> upper_free e.
Proof. intros H. eapply no_upper_upper_free, escape_checked_no_upper; eauto. Qed.

Theorem escape_version_roundtrip v e : escape_version v = EOk e -> unescape_version e = EOk v.
Proof.
  unfold escape_version, unescape_version, escape_checked, unescape_checked.
  destruct (version_ok v) eqn:E; [|discriminate]. intros H.
  rewrite (escape_string_roundtrip _ _ H).
  unfold version_ok in E. apply andb_true_iff in E as [-> _]. reflexivity.
Qed.

Theorem escape_version_fold_injective v w e f :
  escape_version v = EOk e -> escape_version w = EOk f -> ascii_lower e = ascii_lower f -> v = w.
Proof. apply escape_checked_fold_injective. Qed.

Theorem unescape_version_image e v : unescape_version e = EOk v -> escape_version v = EOk e.
Proof.
  unfold escape_version, unescape_version, escape_checked, unescape_checked.
  destruct (unescape_string e) as [s|] eqn:Hu; [|discriminate].
  destruct (elem_ok s) eqn:Hok; [|discriminate]. intros [= <-].
  pose proof (unescape_string_image _ _ Hu) as He.
  pose proof (escape_string_ok_inv _ _ He) as [Hc _].
  apply esc_clean_ascii in Hc as [_ Hnb].
  unfold version_ok. rewrite Hok. apply contains_byte_false in Hnb. rewrite Hnb. exact He.
Qed.

(* K3: "vé" is a valid file-name element without '!', and EscapeVersion answers with its
   internal error *)
Theorem escape_version_unicode_refuted :
  exists v, check_elem KFile v = None /\ ~ In bang v /\ escape_version v = EErr EInternal.
Proof.
  exists (B "vé"). split; [vm_compute; reflexivity|]. split; [|vm_compute; reflexivity].
  apply contains_byte_false. vm_compute. reflexivity.
Qed.

(* the same corner seen from UnescapeVersion: no escaped form denotes such a version *)
Theorem unescape_version_never_non_ascii e v :
  unescape_version e = EOk v -> ascii v.
Proof.
  intros H. apply unescape_version_image in H.
  assert (exists e, escape_version v = EOk e) as Hx by eauto.
  apply escape_version_ok_iff in Hx. tauto.
Qed.
