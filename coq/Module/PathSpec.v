(* Declarative specification of the path rules of golang.org/x/mod/module, written from
   the DOC COMMENTS of CheckPath, CheckImportPath, CheckFilePath, SplitPathVersion, Check,
   CheckPathMajor, MatchPrefixPatterns and of the character-class functions, clause by
   clause.  Nothing here uses the model's functions check_elem/check_path/...; the
   theorems relating the two are in Module/PathProofs*.v and Props/C06.v.

   Where the code deviates from the text of a doc comment, the predicate used in the
   iff-theorems is the `_impl` one and the deviation is listed here:

   D1 (known finding K5)  CheckImportPath: an element "must not end with a dot, nor contain
      two dots in a row".  The second half is not implemented: valid_elem_doc has the
      clause, valid_elem_impl does not; PathProofsSpec proves valid_elem_doc -> valid_elem_impl
      and check_path_dotdot_refuted (a witness accepted by the code, rejected by the doc).
   D2 "The element must not have a suffix of a tilde followed by one or more ASCII digits":
      the code (and the property statement) apply this to the element prefix up to the
      first dot (the Windows short name); both predicates follow the code.
   D3 checkPath rejects a leading '-' of a module or import path ("leading dash"); no doc
      comment says so.  Clause vp_no_leading_dash, marked as implemented-only.
   D4 CheckImportPath's doc lists the punctuation "- . _ and ~"; importPathOK's own doc
      comment adds '+'.  allowed_char follows importPathOK's comment. *)
From Verif.Base Require Import Bytes Utf8.
From Verif.Gen Require Import GenUnicode.
From Verif.Module Require Import Path.   (* only for the type [kind] = KModule | KImport | KFile *)

Notation PModule := KModule (only parsing).
Notation PImport := KImport (only parsing).
Notation PFile := KFile (only parsing).
Notation pkind := kind (only parsing).

(* ---- characters ---------------------------------------------------------------------------- *)

Definition ascii_letter (r : Z) : bool := ((65 <=? r) && (r <=? 90)) || ((97 <=? r) && (r <=? 122)).
Definition ascii_digit (r : Z) : bool := (48 <=? r) && (r <=? 57).
Definition one_of (s : str) (r : Z) : bool := existsb (fun c => c =? r) s.

(* modPathOK: "ASCII letters, ASCII digits, and limited ASCII punctuation: - . _ and ~"
   importPathOK: the same "or r == '+'"
   CheckFilePath: "all Unicode letters, ASCII digits, the ASCII space character (U+0020),
   and the ASCII punctuation characters !#$%&()+,-.=@[]^_{}~" *)
Definition allowed_char (k : pkind) (r : Z) : bool :=
  match k with
  | PModule => ascii_letter r || ascii_digit r || one_of (B "-._~") r
  | PImport => ascii_letter r || ascii_digit r || one_of (B "-._~") r || (r =? 43)
  | PFile => unicode_IsLetter r || ascii_digit r || (r =? 32) || one_of (B "!#$%&()+,-.=@[]^_{}~") r
  end.

(* firstPathOK: "only lower-case ASCII letters, ASCII digits, dots (U+002E), and dashes (U+002D)" *)
Definition first_elem_char (r : Z) : bool :=
  ((97 <=? r) && (r <=? 122)) || ascii_digit r || (r =? 46) || (r =? 45).

(* ---- elements ------------------------------------------------------------------------------ *)

(* "reserved file name on Windows" (the page the code cites) *)
Definition reserved_names : list str :=
  [B "CON"; B "PRN"; B "AUX"; B "NUL";
   B "COM1"; B "COM2"; B "COM3"; B "COM4"; B "COM5"; B "COM6"; B "COM7"; B "COM8"; B "COM9";
   B "LPT1"; B "LPT2"; B "LPT3"; B "LPT4"; B "LPT5"; B "LPT6"; B "LPT7"; B "LPT8"; B "LPT9"].

(* "regardless of case": Unicode simple case folding, rune by rune.  fold_class r is the
   least rune of r's SimpleFold orbit (Gen/GenUnicode.v). *)
Definition fold_class (r : Z) : Z :=
  match find (fun e => fst e =? r) fold_min_table with
  | Some e => snd e
  | None => r
  end.

Definition same_ignoring_case (a b : str) : Prop :=
  Forall2 (fun x y => fold_class x = fold_class y) (runes a) (runes b).

(* "the element prefix up to the first dot" *)
Definition prefix_to_first_dot (e s : str) : Prop :=
  ~ In 46 s /\ (e = s \/ exists rest, e = s ++ 46 :: rest).

(* "a suffix of a tilde followed by one or more ASCII digits" *)
Definition tilde_digits_suffix (s : str) : Prop :=
  exists a d, s = a ++ 126 :: d /\ d <> [] /\ Forall (fun c => 48 <= c <= 57) d.

Definition ends_with_dot (e : str) : Prop := exists a, e = a ++ [46].
Definition starts_with_dot (e : str) : Prop := exists a, e = 46 :: a.
Definition two_dots_in_a_row (e : str) : Prop := exists a b, e = a ++ 46 :: 46 :: b.

Record valid_elem_impl (k : pkind) (e : str) : Prop := {
  (* "a non-empty string made up of" the allowed characters *)
  ve_nonempty : e <> [];
  ve_chars : Forall (fun r => allowed_char k r = true) (runes e);
  (* "It must not end with a dot" *)
  ve_no_trailing_dot : ~ ends_with_dot e;
  (* CheckPath: "Third, no path element may begin with a dot." *)
  ve_no_leading_dot : k = PModule -> ~ starts_with_dot e;
  (* "The element prefix up to the first dot must not be a reserved file name on Windows,
     regardless of case" *)
  ve_not_reserved :
    forall s name, prefix_to_first_dot e s -> In name reserved_names -> ~ same_ignoring_case name s;
  (* Windows short names (D2); "don't check for Windows short-names in file names" *)
  ve_no_short_name : k <> PFile -> forall s, prefix_to_first_dot e s -> ~ tilde_digits_suffix s
}.

(* the element rules exactly as the doc comment has them (D1) *)
Definition valid_elem_doc (k : pkind) (e : str) : Prop :=
  valid_elem_impl k e /\ ~ two_dots_in_a_row e.

(* ---- paths ----------------------------------------------------------------------------------- *)

(* items separated by the byte sep *)
Fixpoint join (sep : Z) (items : list str) : str :=
  match items with
  | [] => []
  | [e] => e
  | e :: r => e ++ sep :: join sep r
  end.
Definition join_slash := join 47.
Definition join_comma := join 44.

(* "A valid import path consists of one or more valid path elements separated by slashes
   (U+002F). (It must not begin with nor end in a slash.)"  A leading or trailing slash or a
   double slash would make an empty element, so they need no clause of their own. *)
Record valid_path_gen (velem : pkind -> str -> Prop) (k : pkind) (p : str) : Prop := {
  vp_utf8 : valid p = true;     (* implied by ve_chars (U+FFFD is not allowed); kept explicit *)
  vp_elems : exists elems, elems <> [] /\ Forall (fun e => ~ In 47 e) elems /\
                           join_slash elems = p /\ Forall (velem k) elems;
  (* D3, implemented only *)
  vp_no_leading_dash : k <> PFile -> ~ exists a, p = 45 :: a
}.

Definition valid_path_impl := valid_path_gen valid_elem_impl.
Definition valid_path_doc := valid_path_gen valid_elem_doc.

(* ---- module paths: CheckPath's "three additional constraints" ------------------------------ *)

Definition all_digits (n : str) : Prop := n <> [] /\ Forall (fun c => 48 <= c <= 57) n.
Definition no_leading_zero (n : str) : Prop := forall r, n <> 48 :: r.

(* "N looks numeric (ASCII digits and dots)" *)
Definition looks_numeric (n : str) : Prop := n <> [] /\ Forall (fun c => 48 <= c <= 57 \/ c = 46) n.

Definition is_gopkg_in (p : str) : Prop := exists r, p = B "gopkg.in/" ++ r.

(* the gopkg.in server's conventions as SplitPathVersion states them: ".vN instead of /vN,
   and for all N, not just N >= 2", optionally "-unstable" (the code refuses it for v0) *)
Definition gopkg_suffix (suf : str) : Prop :=
  suf = B ".v0" \/
  exists n, all_digits n /\ no_leading_zero n /\ (suf = B ".v" ++ n \/ suf = B ".v" ++ n ++ B "-unstable").

(* "/vN" with N >= 2: a numeral without leading zero other than "1" *)
Definition slash_suffix (suf : str) : Prop :=
  exists n, all_digits n /\ no_leading_zero n /\ n <> B "1" /\ suf = B "/v" ++ n.

(* the value of a decimal numeral, to say "N >= 2" *)
Definition numeral_value (n : str) : Z := fold_left (fun acc c => 10 * acc + (c - 48)) n 0.

(* SplitPathVersion: "pathMajor is either empty or "/vN" for N >= 2; gopkg.in paths require
   .vN" *)
Definition suffix_shape (p suf : str) : Prop :=
  (~ is_gopkg_in p /\ (suf = [] \/ slash_suffix suf)) \/ (is_gopkg_in p /\ gopkg_suffix suf).

(* "Second, for a final path element of the form /vN, where N looks numeric (ASCII digits
   and dots) must not begin with a leading zero, must not be /v1, and must not contain any
   dots. For paths beginning with "gopkg.in/", this second requirement is replaced by a
   requirement that the path follow the gopkg.in server's conventions." *)
Definition version_rule (p : str) : Prop :=
  (~ is_gopkg_in p /\
   forall pre n, p = pre ++ B "/v" ++ n -> looks_numeric n ->
                 no_leading_zero n /\ n <> B "1" /\ ~ In 46 n)
  \/ (is_gopkg_in p /\ exists pre suf, p = pre ++ suf /\ gopkg_suffix suf).

(* "First, the leading path element (up to the first slash, if any) ... must contain only
   lower-case ASCII letters, ASCII digits, dots, and dashes; it must contain at least one
   dot and cannot start with a dash." *)
Definition first_elem_rule (p : str) : Prop :=
  exists fe rest, ~ In 47 fe /\ (p = fe \/ p = fe ++ 47 :: rest) /\
    Forall (fun r => first_elem_char r = true) (runes fe) /\ In 46 fe /\ ~ exists a, fe = 45 :: a.

Definition valid_module_path_gen (velem : pkind -> str -> Prop) (p : str) : Prop :=
  valid_path_gen velem PModule p /\ first_elem_rule p /\ version_rule p.

Definition valid_module_path_impl := valid_module_path_gen valid_elem_impl.
Definition valid_module_path_doc := valid_module_path_gen valid_elem_doc.

(* ---- Check: path, version and their correspondence ------------------------------------------ *)

(* The major-version rule, with the documented exceptions.  [mj] is the version's major
   version "vN", [bld] its build metadata; [v] the version itself. *)
Definition major_matches (v mj bld suf : str) : Prop :=
  (* no suffix: v0, v1, or "+incompatible" *)
  (suf = [] /\ (mj = B "v0" \/ mj = B "v1" \/ bld = B "+incompatible"))
  (* "/vN": the path "yaml/v2" only corresponds to versions beginning with "v2." *)
  \/ (exists n, all_digits n /\ suf = B "/v" ++ n /\ mj = B "v" ++ n)
  (* gopkg.in ".vN" and ".vN-unstable" *)
  \/ (exists n, all_digits n /\ (suf = B ".v" ++ n \/ suf = B ".v" ++ n ++ B "-unstable") /\
                (mj = B "v" ++ n \/ (* "Allow old bug in pseudo-versions that generated v0.0.0-
                                       pseudoversion for gopkg .v1" *)
                                    (n = B "1" /\ exists r, v = B "v0.0.0-" ++ r))).

(* ---- MatchPrefixPatterns ------------------------------------------------------------------------
   "reports whether any path prefix of target matches one of the glob patterns (as defined
   by path.Match) in the comma-separated globs list ... ignores any empty or malformed
   patterns in the list.  Trailing slashes on patterns are ignored."  The matcher is a
   parameter: pmatch g s = true iff path.Match(g, s) reports a match without error. *)
Definition glob_spec (pmatch : str -> str -> bool) (globs target : str) : Prop :=
  exists items item glob elems rest,
    (forall i, In i items -> ~ In 44 i) /\ join_comma items = globs /\ In item items /\
    (* one trailing slash is ignored; the pattern must then be non-empty *)
    (item = glob ++ [47] \/ (item = glob /\ forall a, glob <> a ++ [47])) /\ glob <> [] /\
    (* the path prefix of target with as many elements as the pattern *)
    (forall e, In e elems -> ~ In 47 e) /\ elems <> [] /\
    (target = join_slash elems \/ target = join_slash elems ++ 47 :: rest) /\
    length elems = S (length (filter (fun c => c =? 47) glob)) /\
    pmatch glob (join_slash elems) = true.
