(* module.Check, CheckPathMajor, MatchPathMajor against the documented major-version rule. *)
From Verif.Base Require Import Bytes Utf8.
From Verif.Semver Require Import Model.
From Verif.Module Require Import Path PathSpec PathProofs PathProofsLists PathProofsSplit
  PathProofsSpec PathProofsSpec2.

Theorem match_path_major_iff_check_path_major v pm :
  match_path_major v pm = true <-> check_path_major v pm = true.
Proof. reflexivity. Qed.

Definition utail (b : bool) : str := if b then unstable else [].

Lemma trim_unstable_slash n : trim_unstable (B "/v" ++ n) = B "/v" ++ n.
Proof. reflexivity. Qed.

Lemma trim_unstable_dot n b : all_digits n -> trim_unstable (B ".v" ++ n ++ utail b) = B ".v" ++ n.
Proof.
  intros Hd. unfold trim_unstable.
  assert (Hp : has_prefix (B ".v" ++ n ++ utail b) (B ".v") = true)
    by (apply has_prefix_iff; eexists; reflexivity).
  rewrite Hp. cbn [andb]. destruct b; unfold utail.
  - assert (Hs : has_suffix (B ".v" ++ n ++ unstable) unstable = true)
      by (apply has_suffix_iff; exists (B ".v" ++ n); rewrite <- app_assoc; reflexivity).
    rewrite Hs. rewrite (app_assoc (B ".v") n unstable). apply trim_suffix_app.
  - rewrite app_nil_r, digits_not_unstable by exact Hd. reflexivity.
Qed.

Lemma cpm_nil v :
  check_path_major v [] =
  str_eqb (major v) (B "v0") || str_eqb (major v) (B "v1") || str_eqb (build v) (B "+incompatible").
Proof.
  unfold check_path_major. change (trim_unstable []) with (@nil Z).
  change (str_eqb [] (B ".v1")) with false. rewrite andb_false_r. reflexivity.
Qed.

Lemma cpm_slash v n : check_path_major v (B "/v" ++ n) = str_eqb (major v) (B "v" ++ n).
Proof.
  unfold check_path_major. rewrite trim_unstable_slash.
  change (str_eqb (B "/v" ++ n) (B ".v1")) with false. rewrite andb_false_r. reflexivity.
Qed.

Lemma cpm_dot v n b :
  all_digits n ->
  check_path_major v (B ".v" ++ n ++ utail b) =
  (has_prefix v (B "v0.0.0-") && str_eqb n (B "1")) || str_eqb (major v) (B "v" ++ n).
Proof.
  intros Hd. unfold check_path_major. rewrite trim_unstable_dot by exact Hd.
  change (str_eqb (B ".v" ++ n) (B ".v1")) with (str_eqb n (B "1")).
  destruct (has_prefix v (B "v0.0.0-") && str_eqb n (B "1")); reflexivity.
Qed.

Lemma dot_suffix_unique n n' b b' :
  all_digits n -> all_digits n' -> B ".v" ++ n ++ utail b = B ".v" ++ n' ++ utail b' -> n = n'.
Proof.
  intros Hd Hd' H. apply app_inv_head in H.
  assert (Hx : forall m m', all_digits m -> m = m' ++ unstable -> False).
  { intros m m' [Hne Hm] E. destruct (nonempty_snoc m Hne) as (m0 & d & ->).
    change unstable with (B "-unstabl" ++ [101]) in E. rewrite app_assoc in E.
    apply app_inj_tail in E. destruct E as [_ ->]. rewrite Forall_forall in Hm.
    assert (Hin : In 101 (m0 ++ [101])) by (apply in_or_app; right; left; reflexivity).
    specialize (Hm 101 Hin). lia. }
  destruct b, b'; unfold utail in H.
  - apply app_inv_tail in H. exact H.
  - rewrite app_nil_r in H. exfalso. apply (Hx n' n Hd'). symmetry. exact H.
  - rewrite app_nil_r in H. exfalso. apply (Hx n n' Hd). exact H.
  - rewrite !app_nil_r in H. exact H.
Qed.

Lemma gopkg_suffix_norm suf :
  gopkg_suffix suf -> exists n b, all_digits n /\ suf = B ".v" ++ n ++ utail b.
Proof.
  intros [->|(n & Hd & _ & [->| ->])].
  - exists (B "0"), false. split; [|reflexivity].
    split; [discriminate|]. change (B "0") with [48]. constructor; [lia | constructor].
  - exists n, false. split; [exact Hd|]. unfold utail. rewrite app_nil_r. reflexivity.
  - exists n, true. split; [exact Hd | reflexivity].
Qed.

(* on a suffix produced by SplitPathVersion, CheckPathMajor is the documented rule *)
Theorem check_path_major_shape_iff p v suf :
  suffix_shape p suf ->
  (check_path_major v suf = true <-> major_matches v (major v) (build v) suf).
Proof.
  unfold major_matches. intros [[_ [->|(n & Hd & _ & _ & ->)]]|[_ Hg]].
  - (* no suffix *)
    rewrite cpm_nil, !orb_true_iff, !str_eqb_eq. split.
    + intros H. left. split; [reflexivity | tauto].
    + intros [[_ H]|[(n & _ & E & _)|(n & _ & [E|E] & _)]]; try discriminate. tauto.
  - (* /vN *)
    rewrite cpm_slash, str_eqb_eq. split.
    + intros H. right. left. exists n. auto.
    + intros [[E _]|[(n' & _ & E & Hm)|(n' & _ & [E|E] & _)]]; try discriminate.
      apply app_inv_head in E. subst n'. exact Hm.
  - (* gopkg.in *)
    destruct (gopkg_suffix_norm suf Hg) as (n & b & Hd & ->).
    rewrite (cpm_dot v n b Hd), orb_true_iff, andb_true_iff, !str_eqb_eq, has_prefix_iff. split.
    + intros H. right. right. exists n. split; [exact Hd|]. split.
      * destruct b; [right | left; unfold utail; rewrite app_nil_r]; reflexivity.
      * destruct H as [[Hv Hn]|Hm]; [right; split; assumption | left; exact Hm].
    + intros [[E _]|[(n' & _ & E & _)|(n' & Hd' & HE & Hm)]]; try discriminate.
      assert (Hn : n = n').
      { destruct HE as [E|E].
        - apply (dot_suffix_unique n n' b false Hd Hd'). unfold utail at 2. rewrite app_nil_r. exact E.
        - apply (dot_suffix_unique n n' b true Hd Hd'). exact E. }
      subst n'. destruct Hm as [Hm|[Hn Hv]]; [right; exact Hm | left; split; assumption].
Qed.

(* module.Check: valid module path, valid version, and the two correspond *)
Theorem check_iff p v :
  check p v = None <->
  check_module_path p = None /\ is_valid v = true /\
  major_matches v (major v) (build v) (snd (fst (split_path_version p))).
Proof.
  unfold check. destruct (check_module_path p) as [e|] eqn:Hm.
  - split; [discriminate | intros (H & _); discriminate].
  - destruct (is_valid v); cbn [negb]; [|split; [discriminate | intros (_ & H & _); discriminate]].
    assert (Hshape : suffix_shape p (snd (fst (split_path_version p)))).
    { apply check_module_path_none in Hm. destruct Hm as (_ & _ & _ & _ & _ & Hok).
      destruct (split_path_version p) as [[pre pm] ok] eqn:Hs. simpl in *. subst ok.
      apply split_spec in Hs. apply Hs. reflexivity. }
    destruct (split_path_version p) as [[pre pm] ok]. simpl in *.
    rewrite <- (check_path_major_shape_iff p v pm Hshape).
    destruct (check_path_major v pm); split; auto; try discriminate.
    intros (_ & _ & H). discriminate.
Qed.

(* a valid module path always splits, and its suffix has the documented shape *)
Theorem check_module_path_split_ok p :
  check_module_path p = None ->
  exists pre suf, split_path_version p = (pre, suf, true) /\ pre ++ suf = p /\ suffix_shape p suf.
Proof.
  intros Hm. apply check_module_path_none in Hm. destruct Hm as (_ & _ & _ & _ & _ & Hok).
  destruct (split_path_version p) as [[pre pm] ok] eqn:Hs. simpl in Hok. subst ok.
  exists pre, pm. split; [reflexivity|]. apply split_spec in Hs. destruct Hs as (E & Hshape & _).
  split; [exact E | apply Hshape; reflexivity].
Qed.
