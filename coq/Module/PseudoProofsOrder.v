(* Pseudo-versions: position in the version order (between the base and the next release,
   below vX.0.0 without a base, monotone in the timestamp). *)
From Verif.Base Require Import Bytes.
From Verif.Semver Require Import Model Spec Proofs ProofsStr ProofsParse.
From Verif.Module Require Import Pseudo PseudoProofsStr PseudoProofsDec PseudoProofsRe PseudoProofs PseudoProofsMain.

(* ---- Compare on parsed fields ---------------------------------------------------------------- *)

Lemma compare_fields v w p q :
  parse v = Some p -> parse w = Some q ->
  p_major p = p_major q -> p_minor p = p_minor q ->
  compare v w =
  (let c := compare_int (p_patch p) (p_patch q) in
   if negb (c =? 0) then c else compare_prerelease (p_prerelease p) (p_prerelease q)).
Proof.
  intros Hv Hw HM Hm. unfold compare. rewrite Hv, Hw, HM, Hm, !compare_int_refl. reflexivity.
Qed.

Lemma compare_same_mmp v w p q :
  parse v = Some p -> parse w = Some q ->
  p_major p = p_major q -> p_minor p = p_minor q -> p_patch p = p_patch q ->
  compare v w = compare_prerelease (p_prerelease p) (p_prerelease q).
Proof.
  intros Hv Hw HM Hm Hp. rewrite (compare_fields v w p q Hv Hw HM Hm), Hp, compare_int_refl. reflexivity.
Qed.

Lemma compare_prerelease_nil_r pre : pre <> [] -> compare_prerelease pre [] = -1.
Proof. intros H. destruct pre; [congruence|reflexivity]. Qed.

Lemma compare_idents_prefix l a b : compare_idents (l ++ a) (l ++ b) = compare_idents a b.
Proof. induction l as [|x l IH]; [reflexivity|]. cbn [app compare_idents]. now rewrite str_eqb_refl. Qed.

Lemma compare_idents_extend l r : compare_idents l (l ++ r) = -1.
Proof.
  rewrite <- (app_nil_r l) at 1. rewrite compare_idents_prefix. reflexivity.
Qed.

(* a prerelease is below every extension of it by further identifiers *)
Lemma compare_prerelease_extend body ext :
  compare_prerelease (45 :: body) (45 :: body ++ 46 :: ext) = -1.
Proof.
  unfold compare_prerelease.
  replace (str_eqb (45 :: body) (45 :: body ++ 46 :: ext)) with false.
  2:{ symmetry. apply str_eqb_false. intros E. apply (f_equal (@length Z)) in E.
      cbn [length] in E. rewrite app_length in E. cbn [length] in E. lia. }
  cbn [idents]. rewrite split_on_app. apply compare_idents_extend.
Qed.

(* the segment: decided by the timestamps when they have the same length *)
Lemma seg_lt ts1 rv1 ts2 rv2 :
  ts14 ts1 -> ts14 ts2 -> str_cmp ts1 ts2 = Lt ->
  str_cmp (ts1 ++ 45 :: rv1) (ts2 ++ 45 :: rv2) = Lt.
Proof. intros [H1 _] [H2 _] H. apply str_cmp_app_lt; [congruence|exact H]. Qed.

Lemma seg_not_num ts rv : is_num (ts ++ 45 :: rv) = false.
Proof.
  unfold is_num. rewrite forallb_app. cbn [forallb].
  replace (is_digit 45) with false by reflexivity. cbn [andb]. apply andb_false_r.
Qed.

Lemma compare_idents_seg ts1 rv1 ts2 rv2 :
  ts14 ts1 -> ts14 ts2 -> str_cmp ts1 ts2 = Lt ->
  compare_idents [ts1 ++ 45 :: rv1] [ts2 ++ 45 :: rv2] = -1.
Proof.
  intros H1 H2 H. pose proof (seg_lt ts1 rv1 ts2 rv2 H1 H2 H) as Hlt.
  cbn [compare_idents].
  replace (str_eqb (ts1 ++ 45 :: rv1) (ts2 ++ 45 :: rv2)) with false.
  2:{ symmetry. apply str_eqb_false. intros E. rewrite E, str_cmp_refl in Hlt. discriminate. }
  unfold compare_ident. rewrite !seg_not_num. cbn [Bool.eqb negb andb].
  apply str_ltb_lt in Hlt. now rewrite Hlt.
Qed.

(* two prereleases with the same identifiers up to the segment *)
Lemma compare_prerelease_seg Q ts1 rv1 ts2 rv2 :
  (Q = [] \/ exists Y, Q = Y ++ [46]) ->
  ts14 ts1 -> rev_ok rv1 -> ts14 ts2 -> rev_ok rv2 -> str_cmp ts1 ts2 = Lt ->
  compare_prerelease (45 :: Q ++ ts1 ++ 45 :: rv1) (45 :: Q ++ ts2 ++ 45 :: rv2) = -1.
Proof.
  intros HQ H1 Hr1 H2 Hr2 H. pose proof (seg_lt ts1 rv1 ts2 rv2 H1 H2 H) as Hlt.
  unfold compare_prerelease.
  replace (str_eqb (45 :: Q ++ ts1 ++ 45 :: rv1) (45 :: Q ++ ts2 ++ 45 :: rv2)) with false.
  2:{ symmetry. apply str_eqb_false. intros E. injection E as E. apply app_inv_head in E.
      rewrite E, str_cmp_refl in Hlt. discriminate. }
  cbn [idents]. destruct HQ as [->|(Y & ->)].
  - cbn [app]. rewrite !seg_split by assumption. now apply compare_idents_seg.
  - rewrite <- !app_assoc. cbn [app]. rewrite !split_on_app, !seg_split by assumption.
    rewrite compare_idents_prefix. now apply compare_idents_seg.
Qed.

(* ---- between the base and the next release ----------------------------------------------------- *)

Lemma next_release_parse older p :
  parse older = Some p ->
  exists pt, (if is_nil (p_prerelease p) then inc_decimal (p_patch p) = Some pt else pt = p_patch p) /\
             numeral pt = true /\
             next_release older = mk (p_major p) (p_minor p) pt [] [] /\
             parse (next_release older) = Some (mkParsed (p_major p) (p_minor p) pt [] [] []).
Proof.
  intros H. destruct (parse_fields older p H) as (HM & Hm & Hp & _ & _).
  assert (Hnil : pre_str [] /\ build_str []) by (split; now left). destruct Hnil as [Hn1 Hn2].
  unfold next_release. rewrite H. destruct (p_prerelease p) as [|c r].
  - destruct (inc_decimal_numeral _ Hp) as (pt & Hinc & Hn & _). exists pt. cbn [is_nil].
    rewrite Hinc.
    replace (118 :: p_major p ++ [46] ++ p_minor p ++ [46] ++ pt) with (mk (p_major p) (p_minor p) pt [] [])
      by (unfold mk; rewrite !app_nil_r; norm_app; reflexivity).
    repeat split; auto. now apply parse_mk.
  - exists (p_patch p). cbn [is_nil].
    replace (118 :: p_major p ++ [46] ++ p_minor p ++ [46] ++ p_patch p)
      with (mk (p_major p) (p_minor p) (p_patch p) [] [])
      by (unfold mk; rewrite !app_nil_r; norm_app; reflexivity).
    repeat split; auto. now apply parse_mk.
Qed.

Theorem pseudo_between major older ts rv pv :
  is_valid older = true -> ts14 ts -> rev_ok rv ->
  pseudo_version major older ts rv = Some pv ->
  compare older pv = -1 /\ compare pv (next_release older) = -1.
Proof.
  intros Hval Hts Hrv Hpv. unfold is_valid in Hval.
  destruct (parse older) as [p|] eqn:Ho; [|discriminate].
  destruct (parse_fields older p Ho) as (HM & Hm & Hp & Hpre & Hb).
  destruct (next_release_parse older p Ho) as (npt & Hnpt & Hnn & _ & Hnext).
  destruct (p_prerelease p) as [|c pre] eqn:Epre.
  - (* release base: vX.Y.(Z+1)-0.ts-rv *)
    destruct (pv_form2 major older p ts rv Ho Epre) as (pt' & Hinc & Hn' & Hcmp & Hpv').
    rewrite Hpv' in Hpv. injection Hpv as <-. cbn [is_nil] in Hnpt.
    assert (npt = pt') as -> by congruence.
    pose proof (parse_mk _ _ _ _ _ HM Hm Hn' (pre_str_form2 ts rv Hts Hrv) Hb) as Hq.
    split.
    + rewrite (compare_fields _ _ _ _ Ho Hq) by reflexivity. cbn [p_patch]. now rewrite Hcmp.
    + rewrite (compare_same_mmp _ _ _ _ Hq Hnext) by reflexivity. reflexivity.
  - (* prerelease base: vX.Y.Z-pre.0.ts-rv *)
    assert (Hne : p_prerelease p <> []) by (rewrite Epre; discriminate).
    rewrite (pv_form4 major older p ts rv Ho Hne) in Hpv. injection Hpv as <-.
    cbn [is_nil] in Hnpt. subst npt.
    assert (Hpre' : pre_str (p_prerelease p)) by (now rewrite Epre).
    pose proof (parse_mk _ _ _ _ _ HM Hm Hp (pre_str_form4 _ ts rv Hpre' Hne Hts Hrv) Hb) as Hq.
    split.
    + rewrite (compare_same_mmp _ _ _ _ Ho Hq) by reflexivity. cbn [p_prerelease].
      destruct Hpre as [E|(body & E & _)]; [discriminate|]. rewrite Epre, E.
      cbn [app]. apply compare_prerelease_extend.
    + rewrite (compare_same_mmp _ _ _ _ Hq Hnext) by reflexivity. cbn [p_prerelease].
      apply compare_prerelease_nil_r. rewrite Epre. discriminate.
Qed.

(* without a base (older empty or not a version): below vX.0.0 *)
Theorem pseudo_nobase_below major older ts rv pv :
  major_ok major -> parse older = None -> ts14 ts -> rev_ok rv ->
  pseudo_version major older ts rv = Some pv ->
  pv = eff_major major ++ B ".0.0-" ++ ts ++ B "-" ++ rv /\
  compare pv (eff_major major ++ B ".0.0") = -1.
Proof.
  intros Hmaj Ho Hts Hrv Hpv. rewrite (pv_form1 major older ts rv Ho) in Hpv. injection Hpv as <-.
  split; [reflexivity|].
  destruct (eff_major_mk major Hmaj) as (M & HM & ->).
  assert (Hnil : pre_str [] /\ build_str []) by (split; now left). destruct Hnil as [Hn1 Hn2].
  match goal with |- compare ?a ?b = _ =>
    replace a with (mk M [48] [48] (45 :: ts ++ 45 :: rv) [])
      by (unfold mk; rewrite ?app_nil_r; norm_app; reflexivity);
    replace b with (mk M [48] [48] [] [])
      by (unfold mk; rewrite ?app_nil_r; norm_app; reflexivity)
  end.
  rewrite (compare_same_mmp _ _ _ _
             (parse_mk _ _ _ _ _ HM zero_numeral zero_numeral (pre_str_form1 ts rv Hts Hrv) Hn2)
             (parse_mk _ _ _ _ _ HM zero_numeral zero_numeral Hn1 Hn2)) by reflexivity.
  reflexivity.
Qed.

(* same major and base, earlier timestamp: lower version, whatever the revisions *)
Theorem pseudo_time_monotone major older ts1 rv1 ts2 rv2 pv1 pv2 :
  major_ok major -> ts14 ts1 -> rev_ok rv1 -> ts14 ts2 -> rev_ok rv2 ->
  str_cmp ts1 ts2 = Lt ->
  pseudo_version major older ts1 rv1 = Some pv1 ->
  pseudo_version major older ts2 rv2 = Some pv2 ->
  compare pv1 pv2 = -1.
Proof.
  intros Hmaj H1 Hr1 H2 Hr2 Hlt Hpv1 Hpv2.
  assert (Hnil : pre_str [] /\ build_str []) by (split; now left). destruct Hnil as [Hn1 Hn2].
  destruct (parse older) as [p|] eqn:Ho.
  - destruct (parse_fields older p Ho) as (HM & Hm & Hp & Hpre & Hb).
    destruct (p_prerelease p) as [|c pre] eqn:Epre.
    + destruct (pv_form2 major older p ts1 rv1 Ho Epre) as (pt1 & Hinc1 & Hn1' & _ & E1).
      destruct (pv_form2 major older p ts2 rv2 Ho Epre) as (pt2 & Hinc2 & Hn2' & _ & E2).
      assert (pt2 = pt1) as -> by congruence.
      rewrite E1 in Hpv1. rewrite E2 in Hpv2. injection Hpv1 as <-. injection Hpv2 as <-.
      rewrite (compare_same_mmp _ _ _ _
                 (parse_mk _ _ _ _ _ HM Hm Hn1' (pre_str_form2 ts1 rv1 H1 Hr1) Hb)
                 (parse_mk _ _ _ _ _ HM Hm Hn1' (pre_str_form2 ts2 rv2 H2 Hr2) Hb)) by reflexivity.
      cbn [p_prerelease].
      apply (compare_prerelease_seg [48; 46]); auto. right. exists [48]. reflexivity.
    + assert (Hne : p_prerelease p <> []) by (rewrite Epre; discriminate).
      rewrite (pv_form4 major older p ts1 rv1 Ho Hne) in Hpv1.
      rewrite (pv_form4 major older p ts2 rv2 Ho Hne) in Hpv2.
      injection Hpv1 as <-. injection Hpv2 as <-.
      assert (Hpre' : pre_str (p_prerelease p)) by (now rewrite Epre).
      rewrite (compare_same_mmp _ _ _ _
                 (parse_mk _ _ _ _ _ HM Hm Hp (pre_str_form4 _ ts1 rv1 Hpre' Hne H1 Hr1) Hb)
                 (parse_mk _ _ _ _ _ HM Hm Hp (pre_str_form4 _ ts2 rv2 Hpre' Hne H2 Hr2) Hb)) by reflexivity.
      cbn [p_prerelease].
      destruct Hpre as [E|(body & E & _)]; [discriminate|]. rewrite Epre, E.
      replace ((45 :: body) ++ 46 :: 48 :: 46 :: ts1 ++ 45 :: rv1)
        with (45 :: (body ++ [46; 48; 46]) ++ ts1 ++ 45 :: rv1) by (norm_app; reflexivity).
      replace ((45 :: body) ++ 46 :: 48 :: 46 :: ts2 ++ 45 :: rv2)
        with (45 :: (body ++ [46; 48; 46]) ++ ts2 ++ 45 :: rv2) by (norm_app; reflexivity).
      apply compare_prerelease_seg; auto. right. exists (body ++ [46; 48]). norm_app. reflexivity.
  - rewrite (pv_form1 major older ts1 rv1 Ho) in Hpv1. rewrite (pv_form1 major older ts2 rv2 Ho) in Hpv2.
    injection Hpv1 as <-. injection Hpv2 as <-.
    destruct (eff_major_mk major Hmaj) as (M & HM & ->).
    match goal with |- compare ?a ?b = _ =>
      replace a with (mk M [48] [48] (45 :: ts1 ++ 45 :: rv1) [])
        by (unfold mk; rewrite ?app_nil_r; norm_app; reflexivity);
      replace b with (mk M [48] [48] (45 :: ts2 ++ 45 :: rv2) [])
        by (unfold mk; rewrite ?app_nil_r; norm_app; reflexivity)
    end.
    rewrite (compare_same_mmp _ _ _ _
               (parse_mk _ _ _ _ _ HM zero_numeral zero_numeral (pre_str_form1 ts1 rv1 H1 Hr1) Hn2)
               (parse_mk _ _ _ _ _ HM zero_numeral zero_numeral (pre_str_form1 ts2 rv2 H2 Hr2) Hn2)) by reflexivity.
    cbn [p_prerelease]. apply (compare_prerelease_seg []); auto.
Qed.
