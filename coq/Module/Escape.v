(* Executable model of module.EscapePath / EscapeVersion / UnescapePath / UnescapeVersion
   (module/module.go 685-793).  Definitions only; proofs live in Module/EscapeProofs*.v.

   The Go loops range over the runes of the string.  Both loops treat every rune
   >= utf8.RuneSelf alike (failure), a rune below RuneSelf is exactly a byte below 0x80, and
   invalid UTF-8 decodes to U+FFFD >= RuneSelf; hence "some rune >= RuneSelf" is "some byte
   >= 0x80" and the model works on bytes.  (EscapeProofsUtf8.v proves that the rune-level
   formulation over Base/Utf8.v agrees with the byte-level one.) *)
From Verif.Base Require Import Bytes.
From Verif.Module Require Import Path.

Inductive esc_err := EInvalid | EInternal.
(* EInvalid: the argument was refused by CheckPath / checkElem / the '!' test
   (InvalidPathError, InvalidVersionError); EInternal: "internal error: inconsistency in
   EscapePath" from escapeString. *)
Inductive esc_res := EOk (s : str) | EErr (e : esc_err).

Definition bang : Z := 33.

(* first loop of escapeString: a rune that is '!' or >= RuneSelf *)
Definition esc_bad (c : Z) : bool := (c =? bang) || (128 <=? c).

(* one step of the second loop of escapeString *)
Definition esc_byte (c : Z) : str := if is_upper c then [bang; c + 32] else [c].

(* module.go escapeString *)
Definition escape_string (s : str) : esc_res :=
  if existsb esc_bad s then EErr EInternal
  else if negb (existsb is_upper s) then EOk s          (* !haveUpper: return s unchanged *)
  else EOk (flat_map esc_byte s).

(* module.go unescapeString: the loop with its flag [bang]; None is ok=false *)
Fixpoint unescape_from (after_bang : bool) (s : str) : option str :=
  match s with
  | [] => if after_bang then None else Some []
  | c :: r =>
      if 128 <=? c then None
      else if after_bang then
        if (c <? 97) || (122 <? c) then None
        else option_map (cons (c - 32)) (unescape_from false r)
      else if c =? bang then unescape_from true r
      else if is_upper c then None
      else option_map (cons c) (unescape_from false r)
  end.

Definition unescape_string (s : str) : option str := unescape_from false s.

(* The wrappers, parametric in the validity test so that the string-level theory does not
   depend on the path model. *)
Definition escape_checked (chk : str -> bool) (s : str) : esc_res :=
  if chk s then escape_string s else EErr EInvalid.

Definition unescape_checked (chk : str -> bool) (e : str) : esc_res :=
  match unescape_string e with
  | None => EErr EInvalid
  | Some s => if chk s then EOk s else EErr EInvalid
  end.

(* module.go EscapePath / UnescapePath: CheckPath, then the string function *)
Definition path_ok (p : str) : bool := ok_b (check_module_path p).
Definition escape_path (p : str) : esc_res := escape_checked path_ok p.
Definition unescape_path (e : str) : esc_res := unescape_checked path_ok e.

(* module.go EscapeVersion: checkElem(v, filePath) != nil || strings.Contains(v, "!") is
   refused; UnescapeVersion tests only checkElem on the result *)
Definition elem_ok (v : str) : bool := ok_b (check_elem KFile v).
Definition version_ok (v : str) : bool := elem_ok v && negb (contains_byte bang v).
Definition escape_version (v : str) : esc_res := escape_checked version_ok v.
Definition unescape_version (e : str) : esc_res := unescape_checked elem_ok e.

(* strings.ToLower restricted to ASCII (the outputs of escaping are ASCII) *)
Definition lower_byte (c : Z) : Z := if is_upper c then c + 32 else c.
Definition ascii_lower (s : str) : str := map lower_byte s.
