(* String helpers for the pseudo-version proofs: LastIndex, TrimSuffix, Count, split_on
   across a separator, slicing an append. *)
From Verif.Base Require Import Bytes.
From Verif.Semver Require Import ProofsStr.
From Verif.Module Require Import Pseudo.

(* normalise nested appends to right-nested form *)
Ltac norm_app := repeat first [rewrite <- app_assoc | progress cbn [app]].
Ltac norm_app_in H := repeat first [rewrite <- app_assoc in H | progress cbn [app] in H].

Lemma is_nil_true (s : str) : is_nil s = true <-> s = [].
Proof. destruct s; split; intros H; congruence || reflexivity || discriminate. Qed.

Lemma is_nil_false (s : str) : is_nil s = false <-> s <> [].
Proof. destruct s; split; intros H; congruence || reflexivity || discriminate. Qed.

(* ---- slicing ---------------------------------------------------------------------------- *)

Lemma firstn_app_exact {A} (a b : list A) : firstn (length a) (a ++ b) = a.
Proof. induction a as [|x a IH]; [now destruct b|]. cbn [length firstn app]. now rewrite IH. Qed.

Lemma skipn_app_exact {A} (a b : list A) : skipn (length a) (a ++ b) = b.
Proof. induction a as [|x a IH]; [reflexivity|]. cbn [length skipn app]. exact IH. Qed.

Lemma firstn_S_app {A} (a : list A) c b : firstn (S (length a)) (a ++ c :: b) = a ++ [c].
Proof.
  replace (a ++ c :: b) with ((a ++ [c]) ++ b) by (now rewrite <- app_assoc).
  replace (S (length a)) with (length (a ++ [c])) by (rewrite app_length; cbn [length]; lia).
  apply firstn_app_exact.
Qed.

Lemma skipn_S_app {A} (a : list A) c b : skipn (S (length a)) (a ++ c :: b) = b.
Proof.
  replace (a ++ c :: b) with ((a ++ [c]) ++ b) by (now rewrite <- app_assoc).
  replace (S (length a)) with (length (a ++ [c])) by (rewrite app_length; cbn [length]; lia).
  apply skipn_app_exact.
Qed.

(* ---- LastIndex -------------------------------------------------------------------------- *)

Lemma last_index_cons c x r :
  last_index c (x :: r) =
  match last_index c r with Some i => Some (S i) | None => if x =? c then Some O else None end.
Proof. reflexivity. Qed.

Lemma last_index_notin c s : ~ In c s -> last_index c s = None.
Proof.
  induction s as [|x r IH]; [reflexivity|]. intros H. rewrite last_index_cons.
  rewrite IH by (intros Hin; apply H; now right).
  replace (x =? c) with false; [reflexivity|]. symmetry. apply Z.eqb_neq. intros ->. apply H. now left.
Qed.

Lemma last_index_app_notin c a b : ~ In c b -> last_index c (a ++ c :: b) = Some (length a).
Proof.
  intros H. induction a as [|x a IH].
  - cbn [app length]. rewrite last_index_cons, (last_index_notin c b H), Z.eqb_refl. reflexivity.
  - cbn [app length]. rewrite last_index_cons, IH. reflexivity.
Qed.

Lemma last_index_lt c s i : last_index c s = Some i -> (i < length s)%nat.
Proof.
  revert i. induction s as [|x r IH]; [discriminate|]. intros i. rewrite last_index_cons.
  destruct (last_index c r) as [j|].
  - intros [= <-]. specialize (IH j eq_refl). cbn [length]. lia.
  - destruct (x =? c); [|discriminate]. intros [= <-]. cbn [length]. lia.
Qed.

Lemma last_index_in c s : In c s -> exists i, last_index c s = Some i.
Proof.
  induction s as [|x r IH]; [intros []|]. intros Hin. rewrite last_index_cons.
  destruct (last_index c r) as [j|] eqn:E; [eauto|].
  destruct Hin as [->|Hin]; [rewrite Z.eqb_refl; eauto|].
  destruct (IH Hin) as [i Hi]. discriminate.
Qed.

Lemma last_index_app_r c a b i :
  ~ In c b -> last_index c a = Some i -> last_index c (a ++ b) = Some i.
Proof.
  intros Hb. revert i. induction a as [|x a IH]; [discriminate|]. intros i.
  cbn [app]. rewrite !last_index_cons.
  destruct (last_index c a) as [j|] eqn:E.
  - intros [= <-]. now rewrite (IH j eq_refl).
  - rewrite (last_index_notin c (a ++ b)); [auto|].
    intros Hin. apply in_app_or in Hin as [Hin|Hin]; [|auto].
    destruct (last_index_in c a Hin) as [k Hk]. congruence.
Qed.

(* ---- TrimSuffix ------------------------------------------------------------------------- *)

Lemma has_prefix_app (p s : str) : has_prefix (p ++ s) p = true.
Proof. induction p as [|x p IH]; [now destruct s|]. cbn [app has_prefix]. now rewrite Z.eqb_refl, IH. Qed.

Lemma has_suffix_app (a b : str) : has_suffix (a ++ b) b = true.
Proof. unfold has_suffix. rewrite rev_app_distr. apply has_prefix_app. Qed.

Lemma trim_suffix_app (a b : str) : trim_suffix (a ++ b) b = a.
Proof.
  unfold trim_suffix. rewrite has_suffix_app, app_length.
  replace (length a + length b - length b)%nat with (length a) by lia. apply firstn_app_exact.
Qed.

Lemma trim_suffix_nil (a : str) : trim_suffix a [] = a.
Proof. rewrite <- (app_nil_r a) at 1. apply trim_suffix_app. Qed.

(* ---- Count ------------------------------------------------------------------------------ *)

Lemma count_byte_app c a b : count_byte c (a ++ b) = (count_byte c a + count_byte c b)%nat.
Proof. unfold count_byte. now rewrite filter_app, app_length. Qed.

Lemma count_byte_cons_eq c r : count_byte c (c :: r) = S (count_byte c r).
Proof. unfold count_byte. cbn [filter]. now rewrite Z.eqb_refl. Qed.

Lemma count_two c x y z : (2 <= count_byte c (x ++ c :: y ++ c :: z))%nat.
Proof. rewrite count_byte_app, count_byte_cons_eq, count_byte_app, count_byte_cons_eq. lia. Qed.

(* ---- split_on across a separator ---------------------------------------------------------- *)

Lemma split_on_app sep a b :
  split_on sep (a ++ sep :: b) = split_on sep a ++ split_on sep b.
Proof.
  induction a as [|x a IH].
  - cbn [app split_on]. now rewrite Z.eqb_refl.
  - cbn [app]. cbn [split_on]. destruct (x =? sep).
    + rewrite IH. reflexivity.
    + rewrite IH. destruct (split_on sep a) as [|h t] eqn:E; [|reflexivity].
      exfalso. now apply (split_on_nonnil sep a).
Qed.

Lemma notin_forallb c (s : str) (p : Z -> bool) :
  forallb p s = true -> p c = false -> ~ In c s.
Proof. intros H Hc Hin. rewrite forallb_forall in H. apply H in Hin. congruence. Qed.

Lemma no_sep_notin sep s : no_sep sep s = true <-> ~ In sep s.
Proof.
  unfold no_sep. split.
  - intros H. eapply notin_forallb; [exact H|]. cbv beta. now rewrite Z.eqb_refl.
  - intros H. apply forallb_forall. intros x Hx. apply negb_true_iff, Z.eqb_neq. intros ->. auto.
Qed.

(* lexicographic order is decided inside equally long different prefixes *)
Lemma str_cmp_app_lt (a b x y : str) :
  length a = length b -> str_cmp a b = Lt -> str_cmp (a ++ x) (b ++ y) = Lt.
Proof.
  revert b. induction a as [|c a IH]; intros [|d b] Hl H; try discriminate.
  cbn [app str_cmp] in *. destruct (c ?= d); [|reflexivity|discriminate].
  apply IH; [now injection Hl | exact H].
Qed.
