(* "regardless of case" for the reserved Windows names is plain ASCII case-insensitivity:
   no non-ASCII rune (KELVIN SIGN, LONG S, ...) folds to a letter of a reserved name. *)
From Verif.Base Require Import Bytes Utf8.
From Verif.Gen Require Import GenUnicode.
From Verif.Module Require Import Path PathSpec PathProofs PathProofsLists PathProofsSpec.

Definition ascii_upper (c : Z) : Z := if is_lower c then c - 32 else c.

(* the characters that occur in reserved names *)
Definition reserved_chars : list Z := concat reserved_names.

Lemma decode_ascii s r w :
  decode s = (r, w) -> s <> [] -> r < 128 -> exists t, s = r :: t /\ w = 1%nat.
Proof.
  unfold decode, rune_error, cont. destruct s as [|b0 t]; [contradiction|]. intros H _ Hr.
  destruct (b0 <? 128) eqn:H0; [inversion H; subst; eauto|].
  exfalso. apply Z.ltb_ge in H0. revert H.
  destruct t as [|b1 [|b2 [|b3 t]]];
    repeat match goal with
           | |- context [if ?c then _ else _] => destruct c eqn:?
           end; intros H; inversion H; subst; try lia; b2p; try lia;
    repeat match goal with
           | Hx : context [if ?c then _ else _] |- _ => destruct c eqn:?
           end; b2p; lia.
Qed.

Lemma runes_cons_ascii r t : r < 128 -> runes (r :: t) = r :: runes t.
Proof.
  intros Hr. unfold runes. cbn [length runes_w].
  assert (Hd : decode (r :: t) = (r, 1%nat)).
  { unfold decode. replace (r <? 128) with true by (symmetry; apply Z.ltb_lt; exact Hr). reflexivity. }
  rewrite Hd. reflexivity.
Qed.

Lemma runes_all_ascii s : Forall (fun r => r < 128) (runes s) -> runes s = s.
Proof.
  induction s as [|b t IH]; intros H; [reflexivity|].
  destruct (decode (b :: t)) as [r w] eqn:Hd.
  assert (Hr : r < 128).
  { unfold runes in H. cbn [length runes_w] in H. rewrite Hd in H. simpl in H.
    inversion H; assumption. }
  assert (Hne : b :: t <> []) by discriminate.
  destruct (decode_ascii _ _ _ Hd Hne Hr) as (t' & E & _).
  inversion E; subst r t'.
  rewrite runes_cons_ascii in * by exact Hr. inversion H; subst. f_equal. apply IH. assumption.
Qed.

(* folding to a character of a reserved name: only the ASCII letter itself in either case *)
Lemma fold_class_reserved_char c y :
  In c reserved_chars -> (fold_class c = fold_class y <-> 0 <= y < 128 /\ ascii_upper y = c).
Proof.
  intros Hc.
  assert (Hsweep : forallb (fun c => forallb (fun y => Bool.eqb (fold_class c =? fold_class y) (ascii_upper y =? c))
                                        ascii_range) reserved_chars = true) by (vm_compute; reflexivity).
  assert (Hmin : forallb (fun c => (fold_class c =? c) && (c <? 128) && (0 <=? c)) reserved_chars = true)
    by (vm_compute; reflexivity).
  assert (Htbl : forallb (fun e => implb (128 <=? fst e)
                                   (negb (existsb (fun c => c =? snd e) reserved_chars)))
                   fold_min_table = true) by (vm_compute; reflexivity).
  rewrite forallb_forall in Hsweep, Hmin, Htbl.
  specialize (Hsweep c Hc). specialize (Hmin c Hc). b2p. rename H into Hfc.
  destruct (Z_lt_dec y 0) as [Hneg|Hnn].
  { rewrite (fold_class_neg y Hneg), Hfc. split; [intros; lia | intros [? _]; lia]. }
  destruct (Z_lt_dec y 128) as [Hlt|Hge].
  - rewrite forallb_forall in Hsweep. specialize (Hsweep y (in_ascii_range y ltac:(lia))).
    apply eqb_prop in Hsweep. split.
    + intros H. split; [lia|]. apply Z.eqb_eq. rewrite <- Hsweep. apply Z.eqb_eq. exact H.
    + intros [_ H]. apply Z.eqb_eq. rewrite Hsweep. apply Z.eqb_eq. exact H.
  - split; [|intros [? _]; lia]. intros H. exfalso. rewrite Hfc in H.
    unfold fold_class in H.
    destruct (find (fun e => fst e =? y) fold_min_table) as [e|] eqn:Hf; [|lia].
    apply find_some in Hf. destruct Hf as [Hin He]. apply Z.eqb_eq in He.
    specialize (Htbl e Hin). replace (128 <=? fst e) with true in Htbl by (symmetry; apply Z.leb_le; lia).
    cbn [implb] in Htbl. apply negb_true_iff in Htbl.
    assert (Hex : existsb (fun c0 => c0 =? snd e) reserved_chars = true).
    { apply existsb_exists. exists c. split; [exact Hc | apply Z.eqb_eq; exact H]. }
    congruence.
Qed.

Lemma reserved_names_ascii name : In name reserved_names -> runes name = name.
Proof.
  intros Hin.
  assert (H : forallb (fun n => str_eqb (runes n) n) reserved_names = true) by (vm_compute; reflexivity).
  rewrite forallb_forall in H. apply str_eqb_eq, H, Hin.
Qed.

Lemma in_reserved_chars name c : In name reserved_names -> In c name -> In c reserved_chars.
Proof. intros Hn Hc. unfold reserved_chars. apply in_concat. exists name. auto. Qed.

(* The documented "regardless of case (CON, com1, NuL, and so on)": s is a reserved name in
   some ASCII upper/lower-case spelling. *)
Theorem same_ignoring_case_reserved name s :
  In name reserved_names ->
  (same_ignoring_case name s <-> map ascii_upper s = name /\ Forall (fun x => 0 <= x < 128) s).
Proof.
  intros Hin. unfold same_ignoring_case. rewrite (reserved_names_ascii name Hin).
  assert (Hchars : forall c, In c name -> In c reserved_chars)
    by (intros c; apply in_reserved_chars; exact Hin).
  clear Hin. split.
  - intros H.
    assert (Hall : Forall (fun y => 0 <= y < 128) (runes s) /\ map ascii_upper (runes s) = name).
    { revert Hchars. induction H as [|c y name' rs Hcy _ IH]; intros Hchars; [split; constructor|].
      apply (fold_class_reserved_char c y (Hchars c (or_introl eq_refl))) in Hcy.
      destruct IH as [IH1 IH2]; [intros c' Hc'; apply Hchars; right; exact Hc'|].
      destruct Hcy as [Hy Hu]. split; [constructor; assumption | simpl; rewrite Hu, IH2; reflexivity]. }
    destruct Hall as [Hr Hm].
    assert (Hs : runes s = s).
    { apply runes_all_ascii. revert Hr. apply Forall_impl. intros; lia. }
    rewrite Hs in *. auto.
  - intros [Hm Hr].
    assert (Hs : runes s = s).
    { clear Hm Hchars. induction s as [|b t IH]; [reflexivity|]. inversion Hr; subst.
      rewrite runes_cons_ascii by lia. rewrite IH by assumption. reflexivity. }
    rewrite Hs. subst name. clear Hs.
    induction s as [|b t IH]; [constructor|]. inversion Hr; subst. simpl. constructor.
    + apply (fold_class_reserved_char (ascii_upper b) b); [apply Hchars; left; reflexivity | auto].
    + apply IH; [intros c Hc; apply Hchars; right; exact Hc | assumption].
Qed.

(* checkElem's reserved-name test in ASCII terms *)
Corollary is_bad_windows_name_ascii s :
  is_bad_windows_name s = true <->
  In (map ascii_upper s) reserved_names /\ Forall (fun x => 0 <= x < 128) s.
Proof.
  rewrite is_bad_windows_name_iff. split.
  - intros (name & Hin & H). apply (same_ignoring_case_reserved name s Hin) in H.
    destruct H as [<- Hr]. auto.
  - intros [Hin Hr]. exists (map ascii_upper s). split; [exact Hin|].
    apply (same_ignoring_case_reserved _ s Hin). auto.
Qed.
