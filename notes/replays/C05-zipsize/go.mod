module zipprobe

go 1.22.0

require golang.org/x/mod v0.0.0

replace golang.org/x/mod => /repo
