package main

import (
	"fmt"
	"io"
	"math/rand"
	"os"
	"time"

	"golang.org/x/mod/module"
	modzip "golang.org/x/mod/zip"
)

type bigFile struct {
	path string
	size int64
}

func (f bigFile) Path() string                { return f.path }
func (f bigFile) Lstat() (os.FileInfo, error) { return info{f}, nil }
func (f bigFile) Open() (io.ReadCloser, error) {
	return io.NopCloser(io.LimitReader(rand.New(rand.NewSource(1)), f.size)), nil
}

type info struct{ f bigFile }

func (i info) Name() string       { return i.f.path }
func (i info) Size() int64        { return i.f.size }
func (i info) Mode() os.FileMode  { return 0o644 }
func (i info) ModTime() time.Time { return time.Time{} }
func (i info) IsDir() bool        { return false }
func (i info) Sys() interface{}   { return nil }

func main() {
	m := module.Version{Path: "example.com/m", Version: "v1.0.0"}
	files := []modzip.File{bigFile{"data.bin", modzip.MaxZipFile}}
	cf, err := modzip.CheckFiles(files)
	fmt.Println("CheckFiles:", cf.Valid, err)
	out, _ := os.Create("big.zip")
	t := time.Now()
	err = modzip.Create(out, m, files)
	out.Close()
	st, _ := os.Stat("big.zip")
	fmt.Println("Create:", err, "archive bytes:", st.Size(), "limit:", int64(modzip.MaxZipFile), "took", time.Since(t))
	_, err = modzip.CheckZip(m, "big.zip")
	fmt.Println("CheckZip:", err)
	err = modzip.Unzip("out", m, "big.zip")
	fmt.Println("Unzip:", err)
	os.Remove("big.zip")
	os.RemoveAll("out")
}
